module verif

go 1.23

require (
	github.com/IBM/TSS v0.0.0
	github.com/IBM/TSS/mpc/binance/ecdsa v0.0.0
	github.com/IBM/TSS/mpc/binance/eddsa v0.0.0
	github.com/IBM/TSS/mpc/bls v0.0.0
	github.com/IBM/TSS/mpc/ps v0.0.0
	github.com/IBM/mathlib v0.0.3-0.20230831091907-c532c4d3b65c
	github.com/bnb-chain/tss-lib/v2 v2.0.2
	github.com/golang/protobuf v1.5.2
)

require (
	github.com/agl/ed25519 v0.0.0-20200225211852-fd4d107ace12 // indirect
	github.com/btcsuite/btcd v0.23.4 // indirect
	github.com/btcsuite/btcd/btcec/v2 v2.3.2 // indirect
	github.com/btcsuite/btcd/chaincfg/chainhash v1.0.1 // indirect
	github.com/btcsuite/btcutil v1.0.2 // indirect
	github.com/consensys/bavard v0.1.13 // indirect
	github.com/consensys/gnark-crypto v0.9.1 // indirect
	github.com/decred/dcrd/dcrec/edwards/v2 v2.0.3 // indirect
	github.com/decred/dcrd/dcrec/secp256k1/v4 v4.0.1 // indirect
	github.com/gogo/protobuf v1.3.2 // indirect
	github.com/hashicorp/errwrap v1.0.0 // indirect
	github.com/hashicorp/go-multierror v1.1.1 // indirect
	github.com/hyperledger/fabric-amcl v0.0.0-20230602173724-9e02669dceb2 // indirect
	github.com/ipfs/go-log v1.0.5 // indirect
	github.com/ipfs/go-log/v2 v2.1.3 // indirect
	github.com/kilic/bls12-381 v0.1.0 // indirect
	github.com/mmcloughlin/addchain v0.4.0 // indirect
	github.com/opentracing/opentracing-go v1.2.0 // indirect
	github.com/otiai10/primes v0.0.0-20210501021515-f1b2be525a11 // indirect
	github.com/pkg/errors v0.9.1 // indirect
	go.uber.org/multierr v1.10.0 // indirect
	go.uber.org/zap v1.26.0 // indirect
	golang.org/x/crypto v0.13.0 // indirect
	golang.org/x/sys v0.12.0 // indirect
	google.golang.org/protobuf v1.31.0 // indirect
	rsc.io/tmplfunc v0.0.3 // indirect
)

replace github.com/IBM/TSS => /repo

replace github.com/IBM/TSS/mpc/bls => /repo/mpc/bls

replace github.com/IBM/TSS/mpc/ps => /repo/mpc/ps

replace github.com/IBM/TSS/mpc/binance/ecdsa => /repo/mpc/binance/ecdsa

replace github.com/IBM/TSS/mpc/binance/eddsa => /repo/mpc/binance/eddsa

replace github.com/agl/ed25519 => github.com/binance-chain/edwards25519 v0.0.0-20200305024217-f36fc4b53d43
