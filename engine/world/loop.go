package world

import (
	"testing/synctest"
	"time"
)

// Loop is the big-step scheduler: wait for quiescence, order what was sent, pick one event.
// It returns when every API call started with Go has returned and the network is empty, or
// when the virtual horizon has passed. It reports whether the horizon was hit with calls
// still active.
func (w *World) Loop(ch Chooser, horizon time.Duration) (timedOut bool) {
	for {
		synctest.Wait()
		w.Net.Flush()
		if w.StepLimit > 0 && len(w.Trace) >= w.StepLimit {
			return false
		}
		ds := w.Deliverable()
		active := w.Active()
		var ex []Event
		if w.Extra != nil {
			ex = w.Extra()
		}
		if len(ex) > 0 {
			// scenario events come first in the default order; delivering or advancing instead
			// of taking the first pending scenario event is a deviation
			n := len(ex) + len(ds)
			if w.EarlyAdvance && w.Now() < horizon {
				n++
			}
			c := 0
			if n > 1 {
				c = ch.Choose(n, func(i int) string {
					if i < len(ex) {
						return ex[i].Label
					}
					if i < len(ex)+len(ds) {
						return ds[i-len(ex)].String()
					}
					return "T"
				})
			}
			switch {
			case c < len(ex):
				w.Trace = append(w.Trace, ex[c].Label)
				ex[c].Do()
			case c < len(ex)+len(ds):
				w.Trace = append(w.Trace, ds[c-len(ex)].String())
				w.Deliver(ds[c-len(ex)])
			default:
				time.Sleep(w.Quantum)
				w.Trace = append(w.Trace, "T!")
			}
			continue
		}
		if len(ds) == 0 {
			if active == 0 {
				return false
			}
			if w.Now() >= horizon {
				return true
			}
			// nothing deliverable: default is to let time pass; optional scenario events are the
			// alternatives
			var opt []Event
			if w.Optional != nil {
				opt = w.Optional()
			}
			c := 0
			if len(opt) > 0 {
				c = ch.Choose(1+len(opt), func(i int) string {
					if i == 0 {
						return "T"
					}
					return opt[i-1].Label
				})
			}
			if c == 0 {
				time.Sleep(w.Quantum)
				w.Trace = append(w.Trace, "T")
			} else {
				w.Trace = append(w.Trace, opt[c-1].Label)
				opt[c-1].Do()
			}
			continue
		}
		if active == 0 {
			// everything returned: drain late traffic in default order, no choice points
			w.Trace = append(w.Trace, "late "+ds[0].String())
			w.Deliver(ds[0])
			continue
		}
		var opt []Event
		if w.Optional != nil {
			opt = w.Optional()
		}
		n := len(ds) + len(opt)
		if w.EarlyAdvance && w.Now() < horizon {
			n++
		}
		c := 0
		if n > 1 {
			c = ch.Choose(n, func(i int) string {
				if i < len(ds) {
					return ds[i].String()
				}
				if i < len(ds)+len(opt) {
					return opt[i-len(ds)].Label
				}
				return "T"
			})
		}
		switch {
		case c < len(ds):
			w.Trace = append(w.Trace, ds[c].String())
			w.Deliver(ds[c])
		case c < len(ds)+len(opt):
			w.Trace = append(w.Trace, opt[c-len(ds)].Label)
			opt[c-len(ds)].Do()
		default:
			time.Sleep(w.Quantum)
			w.Trace = append(w.Trace, "T!")
		}
	}
}

// Settle waits for quiescence and orders what was sent, without taking an event.
func (w *World) Settle() {
	synctest.Wait()
	w.Net.Flush()
}

// Advance moves virtual time forward by d in quanta, settling after each.
func (w *World) Advance(d time.Duration) {
	for d > 0 {
		q := w.Quantum
		if q > d {
			q = d
		}
		time.Sleep(q)
		d -= q
		w.Settle()
	}
}
