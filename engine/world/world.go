package world

import (
	"context"
	"fmt"
	"sync"
	"time"

	"github.com/IBM/TSS/threshold"
	tss "github.com/IBM/TSS/types"
)

// NopLogger satisfies every Logger interface of the repository and does nothing.
// Arguments are still evaluated by the callers, which is what matters for C10.
type NopLogger struct{}

func (NopLogger) DebugEnabled() bool                { return false }
func (NopLogger) Debugf(string, ...interface{})     {}
func (NopLogger) Infof(string, ...interface{})      {}
func (NopLogger) Warnf(string, ...interface{})      {}
func (NopLogger) Errorf(string, ...interface{})     {}
func (NopLogger) Panicf(f string, a ...interface{}) { panic(fmt.Sprintf(f, a...)) }

// Party is one node of the world.
type Party struct {
	ID    uint16
	Mpc   tss.MpcParty
	inbox chan *tss.IncMessage
	done  chan struct{}
	W     *World

	mu        sync.Mutex
	Delivered int
}

// Event is a scenario event offered to the explorer next to deliveries.
type Event struct {
	Label string
	Do    func()
}

// Chooser decides at every choice point. Choose(n) returns a value in [0,n).
type Chooser interface {
	Choose(n int, label func(i int) string) int
}

// World is a set of parties on a harness-owned network inside one bubble.
type World struct {
	Net     *Net
	Parties map[uint16]*Party
	IDs     []uint16
	Quantum time.Duration // virtual time advanced when nothing is deliverable
	Trace   []string      // class trace of the big steps taken
	Start   time.Time

	// EarlyAdvance: offer "advance time although messages are pending" as the last alternative.
	EarlyAdvance bool
	// OnDeliver, if set, is called before a packet is handed to its party (oracles).
	OnDeliver func(p *Packet)
	// Hold: packets for which Hold returns true are not deliverable (crashed receiver, ...).
	Hold func(p *Packet) bool

	// StepLimit, if positive, makes Loop return once that many big steps have been taken.
	StepLimit int
	// Optional returns scenario events that are never the default (Byzantine actions, faults):
	// they are offered as alternatives after the deliveries.
	Optional func() []Event
	// Extra returns the pending scenario events (API call starts, cancellations, injections).
	Extra func() []Event

	calls   sync.WaitGroup
	pending int32
	callMu  sync.Mutex
	active  int
}

// New creates a world; parties are added with AddParty. Must be called inside the bubble.
func New(ids []uint16) *World {
	return &World{Net: NewNet(ids), Parties: map[uint16]*Party{}, IDs: ids,
		Quantum: threshold.SyncInterval / 4, Start: time.Now()}
}

// AddParty registers a party built by mk (which receives the send function to use) and starts
// its dispatcher goroutine.
func (w *World) AddParty(id uint16, mk func(send func(msgType uint8, topic []byte, msg []byte, to ...uint16)) tss.MpcParty) *Party {
	p := &Party{ID: id, inbox: make(chan *tss.IncMessage), done: make(chan struct{}), W: w}
	p.Mpc = mk(w.Net.SendFunc(id))
	w.Parties[id] = p
	ready := make(chan struct{})
	go func() {
		w.Net.setDispatcher(id, goid())
		close(ready)
		defer close(p.done)
		for m := range p.inbox {
			p.Mpc.HandleMessage(m)
			p.mu.Lock()
			p.Delivered++
			p.mu.Unlock()
		}
	}()
	<-ready
	return p
}

// Go runs an API call of a scenario in its own goroutine and tracks its completion.
func (w *World) Go(f func()) {
	w.callMu.Lock()
	w.active++
	w.callMu.Unlock()
	go func() {
		defer func() {
			w.callMu.Lock()
			w.active--
			w.callMu.Unlock()
		}()
		f()
	}()
}

// Active is the number of API calls that have not returned yet.
func (w *World) Active() int {
	w.callMu.Lock()
	defer w.callMu.Unlock()
	return w.active
}

// Now is the virtual time since the world started.
func (w *World) Now() time.Duration { return time.Since(w.Start) }

// Deliver hands packet p to its destination and waits (in Settle) for quiescence.
func (w *World) Deliver(p *Packet) {
	w.Net.Pop(p)
	if w.OnDeliver != nil {
		w.OnDeliver(p)
	}
	dst := w.Parties[p.To]
	if dst == nil {
		return
	}
	dst.inbox <- &tss.IncMessage{Data: append([]byte(nil), p.Data...), Source: p.From, MsgType: p.Type, Topic: append([]byte(nil), p.Topic...)}
}

// Deliverable returns the link heads that may be delivered now, oldest first.
func (w *World) Deliverable() []*Packet {
	hs := w.Net.Heads()
	if w.Hold == nil {
		return hs
	}
	out := hs[:0]
	for _, h := range hs {
		if !w.Hold(h) {
			out = append(out, h)
		}
	}
	return out
}

// Stop closes the dispatchers and stops silent-mode clocks so that the bubble can end.
func (w *World) Stop() {
	for _, p := range w.Parties {
		close(p.inbox)
		if s, ok := p.Mpc.(interface{ Stop() }); ok {
			func() {
				defer func() { recover() }() // Stop() before first use dereferences nil
				s.Stop()
			}()
		}
	}
}

// Ctx returns a context with a virtual deadline.
func Ctx(d time.Duration) (context.Context, context.CancelFunc) {
	return context.WithTimeout(context.Background(), d)
}
