// Package world runs real IBM/TSS parties inside a testing/synctest bubble over a network that
// the harness owns completely: a message exists only as an entry of a per-link FIFO queue and is
// delivered when the explorer says so.
package world

import (
	"bytes"
	"crypto/sha256"
	"fmt"
	"runtime"
	"sort"
	"strconv"
	"sync"
)

// Packet is one message in flight on a directed link.
type Packet struct {
	From, To uint16
	Type     uint8
	Topic    []byte
	Data     []byte

	// canonical age
	Step  int // big step in which it was sent
	Class int // 0: sent by the receiving party's dispatcher goroutine, 1: any other goroutine
	Seq   int // arrival order inside (step, sender, class, type, topic)
	ID    int // position in the canonical global order (assigned at flush)

	Injected bool // produced by the harness (Byzantine action), not by a real party
}

func (p *Packet) String() string {
	return fmt.Sprintf("%d>%d t%d %s %s", p.From, p.To, p.Type, TopicTag(p.Topic), DataClass(p.Type, p.Data))
}

// TopicTag abbreviates a topic for traces.
func TopicTag(t []byte) string {
	if len(t) == 0 {
		return "-"
	}
	if len(t) > 3 {
		t = t[:3]
	}
	return fmt.Sprintf("%x", t)
}

// DataClass is the schedule-relevant class of a payload: stable across crypto randomness.
func DataClass(msgType uint8, d []byte) string {
	if len(d) == 0 {
		return "empty"
	}
	switch msgType {
	case 1: // sync: type byte
		return "s" + strconv.Itoa(int(d[0])) + "/" + strconv.Itoa((len(d)-33)/2)
	case 2:
		if d[0]>>7 == 0 {
			// acknowledgement: round, about whom
			if len(d) >= 3 {
				return fmt.Sprintf("ack r%d a%d", d[0], uint16(d[1])<<8|uint16(d[2]))
			}
			return "ack?"
		}
		if len(d) >= 2 {
			return "m" + strconv.Itoa(int(d[1]))
		}
		return "m?"
	}
	return "x"
}

// Link identifies a directed link.
type Link struct{ From, To uint16 }

func (l Link) String() string { return fmt.Sprintf("%d>%d", l.From, l.To) }

// Net is the harness-owned network.
type Net struct {
	mu      sync.Mutex
	pending []*Packet          // sent during the current big step, not yet ordered
	queues  map[Link][]*Packet // FIFO per link
	step    int
	nextID  int

	members map[uint16]bool // ids that exist in this world

	// Log of everything real parties sent (after canonical ordering), for oracles.
	SendLog []*Packet
	// Stray: packets addressed to ids that do not exist in the world, or to the sender itself.
	Stray []*Packet
	// Filter, if set, is applied to every packet at flush time (Byzantine output filter / fault
	// injection). It returns the packets that actually enter the network.
	Filter func(p *Packet) []*Packet

	dispatcherGID map[uint16]uint64
}

func NewNet(ids []uint16) *Net {
	n := &Net{queues: map[Link][]*Packet{}, members: map[uint16]bool{}, dispatcherGID: map[uint16]uint64{}}
	for _, id := range ids {
		n.members[id] = true
	}
	return n
}

// goid returns the current goroutine id.
func goid() uint64 {
	var buf [64]byte
	n := runtime.Stack(buf[:], false)
	// "goroutine 123 ["
	s := buf[len("goroutine "):n]
	i := bytes.IndexByte(s, ' ')
	id, _ := strconv.ParseUint(string(s[:i]), 10, 64)
	return id
}

// SendFunc returns the send function handed to the party with the given id.
func (n *Net) SendFunc(self uint16) func(msgType uint8, topic []byte, msg []byte, to ...uint16) {
	return func(msgType uint8, topic []byte, msg []byte, to ...uint16) {
		g := goid()
		n.mu.Lock()
		defer n.mu.Unlock()
		class := 1
		if n.dispatcherGID[self] == g {
			class = 0
		}
		for _, dst := range to {
			// like the bundled transport (net.SocketRemoteParties.Send enqueues what it is given), the
			// network keeps the caller's slices until the packet is delivered: a sender that re-uses
			// its buffer for the next message overwrites what is still queued
			p := &Packet{From: self, To: dst, Type: msgType,
				Topic: topic, Data: msg,
				Step: n.step, Class: class, Seq: len(n.pending)}
			n.pending = append(n.pending, p)
		}
	}
}

// Inject puts a harness-made packet at the tail of its link immediately.
func (n *Net) Inject(p *Packet) {
	n.mu.Lock()
	defer n.mu.Unlock()
	p.Injected = true
	p.Step = n.step
	p.ID = n.nextID
	n.nextID++
	l := Link{p.From, p.To}
	n.queues[l] = append(n.queues[l], p)
}

// Flush orders what was sent during the big step canonically and appends it to the link queues.
// Must be called at quiescence.
func (n *Net) Flush() {
	n.mu.Lock()
	defer n.mu.Unlock()
	if len(n.pending) > 0 {
		ps := n.pending
		n.pending = nil
		sort.SliceStable(ps, func(i, j int) bool {
			a, b := ps[i], ps[j]
			if a.From != b.From {
				return a.From < b.From
			}
			if a.Class != b.Class {
				return a.Class < b.Class
			}
			if a.Type != b.Type {
				return a.Type < b.Type
			}
			if c := bytes.Compare(a.Topic, b.Topic); c != 0 {
				return c < 0
			}
			return a.Seq < b.Seq
		})
		for _, p := range ps {
			n.SendLog = append(n.SendLog, p)
			out := []*Packet{p}
			if n.Filter != nil {
				out = n.Filter(p)
			}
			for _, q := range out {
				q.ID = n.nextID
				n.nextID++
				if q.To == q.From || !n.members[q.To] {
					n.Stray = append(n.Stray, q)
					continue
				}
				l := Link{q.From, q.To}
				n.queues[l] = append(n.queues[l], q)
			}
		}
	}
	n.step++
}

// Heads returns the heads of all non-empty links, oldest first (canonical order).
func (n *Net) Heads() []*Packet {
	n.mu.Lock()
	defer n.mu.Unlock()
	var hs []*Packet
	for _, q := range n.queues {
		if len(q) > 0 {
			hs = append(hs, q[0])
		}
	}
	sort.Slice(hs, func(i, j int) bool { return hs[i].ID < hs[j].ID })
	return hs
}

// All returns every in-flight packet, oldest first.
func (n *Net) All() []*Packet {
	n.mu.Lock()
	defer n.mu.Unlock()
	var hs []*Packet
	for _, q := range n.queues {
		hs = append(hs, q...)
	}
	sort.Slice(hs, func(i, j int) bool { return hs[i].ID < hs[j].ID })
	return hs
}

// Pop removes a specific packet (normally a link head) from the network.
func (n *Net) Pop(p *Packet) {
	n.mu.Lock()
	defer n.mu.Unlock()
	l := Link{p.From, p.To}
	q := n.queues[l]
	for i, x := range q {
		if x == p {
			n.queues[l] = append(append([]*Packet(nil), q[:i]...), q[i+1:]...)
			return
		}
	}
	panic("Pop: packet not in flight")
}

// InFlight is the number of packets in the network.
func (n *Net) InFlight() int {
	n.mu.Lock()
	defer n.mu.Unlock()
	c := 0
	for _, q := range n.queues {
		c += len(q)
	}
	return c
}

// Step is the current big-step index.
func (n *Net) StepIndex() int {
	n.mu.Lock()
	defer n.mu.Unlock()
	return n.step
}

func (n *Net) setDispatcher(id uint16, g uint64) {
	n.mu.Lock()
	n.dispatcherGID[id] = g
	n.mu.Unlock()
}

// Sha is sha256 as a slice.
func Sha(b []byte) []byte { h := sha256.Sum256(b); return h[:] }
