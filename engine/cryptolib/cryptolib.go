// Package cryptolib holds helpers shared by the crypto enumerations (C08, C09, C18): a synchronous
// in-process DKG among real bls.TBLS / ps.TPS instances and subset enumeration.
package cryptolib

import (
	"context"
	"sync"
	"time"

	tss "github.com/IBM/TSS/types"
	math "github.com/IBM/mathlib"
)

var Curve = math.Curves[1]

// Parties, when it holds exactly n identifiers, replaces 1..n as the party identifiers of the
// helpers of this package (set and reset by a case that enumerates identifier sets).
var Parties []uint16

func IDs(n int) []uint16 {
	if len(Parties) == n && n > 0 {
		return append([]uint16(nil), Parties...)
	}
	out := make([]uint16, n)
	for i := range out {
		out[i] = uint16(i + 1)
	}
	return out
}

// factories are registered by bls.go / ps.go (bls.go is excluded from builds tagged psonly, which
// compile mpc/ps against the mathlib version of its own go.mod).
var factories = map[string]func(id uint16, msgLen int) tss.KeyGenerator{}

func NewKG(backend string, id uint16, msgLen int) tss.KeyGenerator {
	f := factories[backend]
	if f == nil {
		panic("cryptolib: backend " + backend + " not linked into this binary")
	}
	return f(id, msgLen)
}

// SendHook may rewrite what instance `from` sends (msg without the orchestrator's framing).
type SendHook func(from uint16, msg []byte, bcast bool, to uint16) []byte

// DKG runs a complete key generation among n real instances wired synchronously. hook (optional)
// rewrites outgoing messages. It returns the stored data and error per party.
func DKG(backend string, n, t, msgLen int, hook SendHook, timeout time.Duration) (map[uint16][]byte, map[uint16]error) {
	return DKGWrap(backend, n, t, msgLen, hook, nil, timeout)
}

// DKGWrap is DKG with an optional wrapper around each instance (a deviating participant that needs
// more than a rewrite of single messages, e.g. holding a message back until a later one is known).
func DKGWrap(backend string, n, t, msgLen int, hook SendHook, wrap func(id uint16, kg tss.KeyGenerator) tss.KeyGenerator, timeout time.Duration) (map[uint16][]byte, map[uint16]error) {
	parties := IDs(n)
	inst := map[uint16]tss.KeyGenerator{}
	for _, id := range parties {
		inst[id] = NewKG(backend, id, msgLen)
		if wrap != nil {
			inst[id] = wrap(id, inst[id])
		}
	}
	return DKGOn(inst, parties, t, hook, timeout)
}

// Instances creates fresh instances for parties 1..n (for key generations that re-use objects).
func Instances(backend string, n, msgLen int) map[uint16]tss.KeyGenerator {
	inst := map[uint16]tss.KeyGenerator{}
	for _, id := range IDs(n) {
		inst[id] = NewKG(backend, id, msgLen)
	}
	return inst
}

// CtxFor, if set, supplies the context of a party's KeyGen call (fault cells that let one party's
// deadline land at a chosen point). Set and reset by the case that uses it.
var CtxFor func(id uint16, base context.Context) context.Context

// DKGOn runs Init + KeyGen on the given instances (which may have been used before).
func DKGOn(inst map[uint16]tss.KeyGenerator, parties []uint16, t int, hook SendHook, timeout time.Duration) (map[uint16][]byte, map[uint16]error) {
	for _, id := range parties {
		id := id
		inst[id].Init(parties, t, func(msg []byte, bc bool, to uint16) {
			m := append([]byte(nil), msg...)
			if hook != nil {
				m = hook(id, m, bc, to)
				if m == nil {
					return
				}
			}
			for _, dst := range parties {
				if dst == id || (!bc && dst != to) {
					continue
				}
				inst[dst].OnMsg(append([]byte(nil), m...), id, bc)
			}
		})
	}
	var wg sync.WaitGroup
	var mu sync.Mutex
	shares := map[uint16][]byte{}
	errs := map[uint16]error{}
	ctx, cancel := context.WithTimeout(context.Background(), timeout)
	defer cancel()
	for _, id := range parties {
		id := id
		wg.Add(1)
		go func() {
			defer wg.Done()
			kctx := context.Context(ctx)
			if CtxFor != nil {
				kctx = CtxFor(id, ctx)
			}
			d, err := inst[id].KeyGen(kctx)
			mu.Lock()
			shares[id], errs[id] = d, err
			mu.Unlock()
		}()
	}
	wg.Wait()
	return shares, errs
}

// Subsets returns all subsets of l with at least min and at most max elements.
func Subsets(l []uint16, min, max int) [][]uint16 {
	var out [][]uint16
	for m := 1; m < 1<<len(l); m++ {
		var s []uint16
		for i := range l {
			if m>>i&1 == 1 {
				s = append(s, l[i])
			}
		}
		if len(s) >= min && len(s) <= max {
			out = append(out, s)
		}
	}
	return out
}
