package cryptolib

import (
	"context"
	"fmt"
	"sync"
	"testing/synctest"
	"time"

	tss "github.com/IBM/TSS/types"
)

// MsgID names one protocol message of a DKG run: sender, receiver, first payload byte (message
// kind: 1 share, 2 commitment, 3 reveal for the built-in schemes).
type MsgID struct {
	From, To uint16
	Kind     byte
}

func (m MsgID) String() string { return fmt.Sprintf("%d>%d k%d", m.From, m.To, m.Kind) }

// DKGAsync runs a key generation among n real instances over an asynchronous, NOT order-preserving
// network owned by the caller's schedule: pending messages are delivered one at a time (the
// protocol goroutines run to quiescence in between); the oldest pending message that is not in
// `delayed` goes first, a delayed message is delivered only when nothing else is pending - i.e. it
// is overtaken by everything its sender and everybody else emits in the meantime. Must be called
// inside a synctest bubble. Returns stored data, errors and the delivery trace.
func DKGAsync(backend string, n, t, msgLen int, delayed map[MsgID]bool, timeout time.Duration) (map[uint16][]byte, map[uint16]error, []string) {
	return DKGAsyncOpt(backend, n, t, msgLen, delayed, timeout, false)
}

// AsyncDup: messages that are delivered twice (set and reset by the case that uses it).
var AsyncDup map[MsgID]bool

// DKGAsyncOpt: with fifo set, every sender->receiver link keeps its order: a delayed message holds
// back what the same sender emits to the same receiver after it (links are delayed against one
// another, never reordered within themselves).
func DKGAsyncOpt(backend string, n, t, msgLen int, delayed map[MsgID]bool, timeout time.Duration, fifo bool) (map[uint16][]byte, map[uint16]error, []string) {
	parties := IDs(n)
	inst := map[uint16]tss.KeyGenerator{}
	for _, id := range parties {
		inst[id] = NewKG(backend, id, msgLen)
	}
	type pend struct {
		id  MsgID
		msg []byte
		bc  bool
	}
	var mu sync.Mutex
	var q []pend
	for _, id := range parties {
		id := id
		inst[id].Init(parties, t, func(msg []byte, bc bool, to uint16) {
			mu.Lock()
			defer mu.Unlock()
			var k byte
			if len(msg) > 0 {
				k = msg[0]
			}
			for _, dst := range parties {
				if dst == id || (!bc && dst != to) {
					continue
				}
				q = append(q, pend{MsgID{id, dst, k}, append([]byte(nil), msg...), bc})
			}
		})
	}
	shares := map[uint16][]byte{}
	errs := map[uint16]error{}
	returned := 0
	ctx, cancel := context.WithTimeout(context.Background(), timeout)
	defer cancel()
	for _, id := range parties {
		id := id
		go func() {
			d, err := inst[id].KeyGen(ctx)
			mu.Lock()
			shares[id], errs[id] = d, err
			returned++
			mu.Unlock()
		}()
	}
	var trace []string
	for steps := 0; steps < 100000; steps++ {
		synctest.Wait()
		mu.Lock()
		pick := -1
		held := map[[2]uint16]bool{}
		for i, p := range q {
			link := [2]uint16{p.id.From, p.id.To}
			if delayed[p.id] || fifo && held[link] {
				held[link] = true
				continue
			}
			pick = i
			break
		}
		if pick < 0 && len(q) > 0 {
			pick = 0
		}
		var p pend
		if pick >= 0 {
			p = q[pick]
			q = append(q[:pick:pick], q[pick+1:]...)
		}
		all := returned == n
		mu.Unlock()
		if pick < 0 {
			if all {
				break
			}
			time.Sleep(250 * time.Millisecond)
			continue
		}
		trace = append(trace, p.id.String())
		inst[p.id.To].OnMsg(p.msg, p.id.From, p.bc)
		if AsyncDup[p.id] {
			// a retransmitting link: the same message once more, right behind the first copy
			trace = append(trace, p.id.String()+" (again)")
			inst[p.id.To].OnMsg(append([]byte(nil), p.msg...), p.id.From, p.bc)
		}
	}
	synctest.Wait()
	mu.Lock()
	defer mu.Unlock()
	for _, id := range parties {
		if _, ok := errs[id]; !ok {
			errs[id] = fmt.Errorf("never returned")
		}
	}
	return shares, errs, trace
}

// AllMsgIDs lists the messages of one DKG among n parties with the given kinds.
func AllMsgIDs(n int, kinds []byte) []MsgID {
	var out []MsgID
	for _, f := range IDs(n) {
		for _, k := range kinds {
			for _, to := range IDs(n) {
				if to != f {
					out = append(out, MsgID{f, to, k})
				}
			}
		}
	}
	return out
}
