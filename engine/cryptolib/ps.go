package cryptolib

import (
	"github.com/IBM/TSS/mpc/ps"
	tss "github.com/IBM/TSS/types"
	"verif/world"
)

func init() {
	factories["ps"] = func(id uint16, msgLen int) tss.KeyGenerator {
		return &ps.TPS{Logger: world.NopLogger{}, Party: id, Curve: Curve, MessageLength: msgLen}
	}
}

// PSSigners loads the shares into fresh PS signer instances.
func PSSigners(n, t, msgLen int, shares map[uint16][]byte) (map[uint16]*ps.TPS, error) {
	out := map[uint16]*ps.TPS{}
	for _, id := range IDs(n) {
		s := &ps.TPS{Logger: world.NopLogger{}, Party: id, Curve: Curve, MessageLength: msgLen}
		s.Init(IDs(n), t, nil)
		if err := s.SetShareData(shares[id]); err != nil {
			return nil, err
		}
		out[id] = s
	}
	return out, nil
}
