//go:build !psonly

package cryptolib

import (
	"github.com/IBM/TSS/mpc/bls"
	tss "github.com/IBM/TSS/types"
	"verif/world"
)

func init() {
	factories["bls"] = func(id uint16, _ int) tss.KeyGenerator { return &bls.TBLS{Logger: world.NopLogger{}, Party: id} }
}

// BLSSigners loads the shares into fresh signer instances.
func BLSSigners(n, t int, shares map[uint16][]byte) (map[uint16]*bls.TBLS, error) {
	out := map[uint16]*bls.TBLS{}
	for _, id := range IDs(n) {
		s := &bls.TBLS{Logger: world.NopLogger{}, Party: id}
		s.Init(IDs(n), t, nil)
		if err := s.SetShareData(shares[id]); err != nil {
			return nil, err
		}
		out[id] = s
	}
	return out, nil
}
