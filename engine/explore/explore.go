// Package explore is the deviation-bounded depth-first explorer: an execution is a function of
// its choice sequence; choice 0 is the default at every point, any other choice is one deviation.
package explore

import "fmt"

// Point is one choice point of an execution.
type Point struct {
	N      int    // number of options
	Chosen int    // option taken
	Label  string // class label of the option taken
	Free   bool   // taking another option here costs no deviation (thread level: not a preemption)
}

// Recorder replays a prefix and then takes the default; it records every point.
type Recorder struct {
	Prefix   []int
	Expect   []string // labels recorded by the parent execution for the prefix positions
	Points   []Point
	Diverged string // non-empty: replaying the prefix did not reproduce the parent's trace
}

// ChooseFree is Choose for points whose alternatives cost nothing when free is set.
func (r *Recorder) ChooseFree(n int, free bool, label func(int) string) int {
	c := r.Choose(n, label)
	r.Points[len(r.Points)-1].Free = free
	return c
}

func (r *Recorder) Choose(n int, label func(int) string) int {
	pos := len(r.Points)
	c := 0
	if pos < len(r.Prefix) {
		c = r.Prefix[pos]
		if c >= n {
			if r.Diverged == "" {
				r.Diverged = fmt.Sprintf("point %d: choice %d out of range %d", pos, c, n)
			}
			c = 0
		}
	}
	l := ""
	if label != nil {
		l = label(c)
	}
	// all positions but the last one of the prefix were taken identically by the parent
	if pos < len(r.Prefix)-1 && pos < len(r.Expect) && r.Expect[pos] != l && r.Diverged == "" {
		r.Diverged = fmt.Sprintf("point %d: label %q, parent saw %q", pos, l, r.Expect[pos])
	}
	r.Points = append(r.Points, Point{N: n, Chosen: c, Label: l})
	return c
}

// Choices returns the choice sequence actually taken.
func (r *Recorder) Choices() []int {
	out := make([]int, len(r.Points))
	for i, p := range r.Points {
		out[i] = p.Chosen
	}
	return out
}

// Labels returns the labels of the choices taken.
func (r *Recorder) Labels() []string {
	out := make([]string, len(r.Points))
	for i, p := range r.Points {
		out[i] = p.Label
	}
	return out
}

// Deviations counts non-default choices.
func (r *Recorder) Deviations() int {
	d := 0
	for _, p := range r.Points {
		if p.Chosen != 0 && !p.Free {
			d++
		}
	}
	return d
}

// TrimPrefix returns the shortest prefix that determines the execution (trailing zeros dropped).
func Trim(ch []int) []int {
	n := len(ch)
	for n > 0 && ch[n-1] == 0 {
		n--
	}
	return append([]int(nil), ch[:n]...)
}

// Explorer runs a deviation-bounded DFS.
type Explorer struct {
	// Run executes once under r. It must be a deterministic function of r's answers.
	Run func(r *Recorder)
	// Visit is called after every execution (oracle + statistics).
	Visit func(r *Recorder)
	// Stop, if it returns true, ends the exploration early (deadline); Capped is then set.
	Stop   func() bool
	Capped bool
	Execs  int
	// Retries for a diverging prefix before the subtree is skipped.
	NondetPrefixes int
}

// Explore explores the subtree below prefix with the given deviation budget.
func (e *Explorer) Explore(prefix []int, expect []string, budget int) {
	if e.Stop != nil && e.Stop() {
		e.Capped = true
		return
	}
	var r *Recorder
	for attempt := 0; attempt < 3; attempt++ {
		r = &Recorder{Prefix: prefix, Expect: expect}
		e.Run(r)
		e.Execs++
		if r.Diverged == "" {
			break
		}
	}
	if r.Diverged != "" {
		e.NondetPrefixes++
		return
	}
	e.Visit(r)
	ch := r.Choices()
	lb := r.Labels()
	for i := len(prefix); i < len(r.Points); i++ {
		cost := 1
		if r.Points[i].Free {
			cost = 0
		}
		if budget-cost < 0 {
			continue
		}
		for alt := 1; alt < r.Points[i].N; alt++ {
			np := append(append([]int(nil), ch[:i]...), alt)
			e.Explore(np, lb, budget-cost)
			if e.Capped {
				return
			}
		}
	}
}

// RootTasks lists the level-1 subtrees (position, alternative) of the root execution.
func RootTasks(root *Recorder) [][2]int {
	var ts [][2]int
	for i, p := range root.Points {
		for alt := 1; alt < p.N; alt++ {
			ts = append(ts, [2]int{i, alt})
		}
	}
	return ts
}

// TaskPrefix builds the prefix of a root task.
func TaskPrefix(pos, alt int) []int {
	p := make([]int, pos+1)
	p[pos] = alt
	return p
}
