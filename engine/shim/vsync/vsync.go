// Package vsync replaces "sync" in instrumented repository files (overlay import rewrite). Every
// type wraps the real primitive - mutual exclusion and the race detector's happens-before come
// from the real lock - and adds a scheduling point before each acquisition.
package vsync

import (
	"sync"
	"sync/atomic"
	"unsafe"

	"verif/shim/sched"
)

type (
	WaitGroup = sync.WaitGroup
	Locker    = sync.Locker
	Pool      = sync.Pool
)

// Cond wraps sync.Cond (created lazily around L, so that the composite literal Cond{L: l} keeps
// working): a scheduling point before a thread starts to wait - it has made its last check of the
// condition and has not parked yet, the window in which a signal sent without the lock is lost -
// and before every Signal / Broadcast.
type Cond struct {
	L  Locker
	mu sync.Mutex
	c  *sync.Cond
}

func NewCond(l Locker) *Cond { return &Cond{L: l} }

func (c *Cond) inner() *sync.Cond {
	// the wrapper's own lock is invisible to the race detector: it must not order threads that the
	// program's own synchronisation does not order
	sched.HideBegin()
	c.mu.Lock()
	if c.c == nil || c.c.L != c.L {
		c.c = sync.NewCond(c.L)
	}
	r := c.c
	c.mu.Unlock()
	sched.HideEnd()
	return r
}

func (c *Cond) Wait() {
	sched.Yield()
	c.inner().Wait()
}

func (c *Cond) Signal() {
	sched.Yield()
	c.inner().Signal()
}

func (c *Cond) Broadcast() {
	sched.Yield()
	c.inner().Broadcast()
}

type Mutex struct {
	mu sync.Mutex
	st sched.LockState
}

func (m *Mutex) Lock() {
	sched.Point(sched.OpLock, sched.KMutex, &m.st, unsafe.Pointer(m))
	m.mu.Lock()
	sched.HideBegin()
	m.st.A.Store(1)
	sched.HideEnd()
}

func (m *Mutex) Unlock() {
	sched.HideBegin()
	m.st.A.Store(0)
	sched.HideEnd()
	m.mu.Unlock()
	sched.AfterUnlock()
}

func (m *Mutex) TryLock() bool {
	if m.mu.TryLock() {
		sched.HideBegin()
		m.st.A.Store(1)
		sched.HideEnd()
		return true
	}
	return false
}

type RWMutex struct {
	mu sync.RWMutex
	st sched.LockState
}

func (m *RWMutex) Lock() {
	sched.Point(sched.OpLock, sched.KRW, &m.st, unsafe.Pointer(m))
	// writer preference as in the real RWMutex: from here on new readers wait; if readers hold the
	// lock the writer waits for them at a second scheduling point
	sched.HideBegin()
	readers := m.st.B.Load() > 0
	if readers {
		m.st.W.Store(1)
	}
	sched.HideEnd()
	if readers {
		sched.Point(sched.OpLockWait, sched.KRW, &m.st, unsafe.Pointer(m))
	}
	m.mu.Lock()
	sched.HideBegin()
	m.st.A.Store(1)
	m.st.W.Store(0)
	sched.HideEnd()
}

func (m *RWMutex) Unlock() {
	sched.HideBegin()
	m.st.A.Store(0)
	sched.HideEnd()
	m.mu.Unlock()
	sched.AfterUnlock()
}

func (m *RWMutex) RLock() {
	sched.Point(sched.OpRLock, sched.KRW, &m.st, unsafe.Pointer(m))
	m.mu.RLock()
	sched.HideBegin()
	m.st.B.Add(1)
	sched.HideEnd()
}

func (m *RWMutex) RUnlock() {
	sched.HideBegin()
	m.st.B.Add(-1)
	sched.HideEnd()
	m.mu.RUnlock()
	sched.AfterUnlock()
}

func (m *RWMutex) RLocker() Locker { return (*rlocker)(m) }

type rlocker RWMutex

func (r *rlocker) Lock()   { (*RWMutex)(r).RLock() }
func (r *rlocker) Unlock() { (*RWMutex)(r).RUnlock() }

// Once: a scheduling point only while the function has not completed.
type Once struct {
	once sync.Once
	done atomic.Int32
	st   sched.LockState
}

func (o *Once) Do(f func()) {
	sched.HideBegin()
	done := o.done.Load() == 1
	sched.HideEnd()
	if done {
		o.once.Do(f) // fast path of the real Once (keeps its happens-before edge)
		return
	}
	sched.Point(sched.OpOnce, sched.KOnce, &o.st, unsafe.Pointer(o))
	o.once.Do(func() {
		sched.HideBegin()
		o.st.A.Store(1)
		sched.HideEnd()
		defer func() {
			sched.HideBegin()
			o.st.A.Store(0)
			o.done.Store(1)
			sched.HideEnd()
		}()
		f()
	})
}

// Map wraps sync.Map: a scheduling point before every operation (the operations themselves are the
// real ones, so the detector sees the real map's synchronisation).
type Map struct{ m sync.Map }

func (m *Map) pt() { sched.Point(sched.OpAtomic, sched.KNone, nil, unsafe.Pointer(m)) }

func (m *Map) Load(k any) (any, bool)           { m.pt(); return m.m.Load(k) }
func (m *Map) Store(k, v any)                   { m.pt(); m.m.Store(k, v) }
func (m *Map) LoadOrStore(k, v any) (any, bool) { m.pt(); return m.m.LoadOrStore(k, v) }
func (m *Map) LoadAndDelete(k any) (any, bool)  { m.pt(); return m.m.LoadAndDelete(k) }
func (m *Map) Delete(k any)                     { m.pt(); m.m.Delete(k) }
func (m *Map) Swap(k, v any) (any, bool)        { m.pt(); return m.m.Swap(k, v) }
func (m *Map) CompareAndSwap(k, o, n any) bool  { m.pt(); return m.m.CompareAndSwap(k, o, n) }
func (m *Map) CompareAndDelete(k, o any) bool   { m.pt(); return m.m.CompareAndDelete(k, o) }
func (m *Map) Range(f func(k, v any) bool)      { m.pt(); m.m.Range(f) }
func (m *Map) Clear()                           { m.pt(); m.m.Clear() }
