// Package vsync replaces "sync" in instrumented repository files (overlay import rewrite). Every
// type wraps the real primitive - mutual exclusion and the race detector's happens-before come
// from the real lock - and adds a scheduling point before each acquisition.
package vsync

import (
	"sync"
	"sync/atomic"
	"unsafe"

	"verif/shim/sched"
)

type (
	Cond      = sync.Cond
	Map       = sync.Map
	WaitGroup = sync.WaitGroup
	Locker    = sync.Locker
	Pool      = sync.Pool
)

func NewCond(l Locker) *Cond { return sync.NewCond(l) }

type Mutex struct {
	mu sync.Mutex
	st sched.LockState
}

func (m *Mutex) Lock() {
	sched.Point(sched.OpLock, sched.KMutex, &m.st, unsafe.Pointer(m))
	m.mu.Lock()
	sched.HideBegin()
	m.st.A.Store(1)
	sched.HideEnd()
}

func (m *Mutex) Unlock() {
	sched.HideBegin()
	m.st.A.Store(0)
	sched.HideEnd()
	m.mu.Unlock()
}

func (m *Mutex) TryLock() bool {
	if m.mu.TryLock() {
		sched.HideBegin()
		m.st.A.Store(1)
		sched.HideEnd()
		return true
	}
	return false
}

type RWMutex struct {
	mu sync.RWMutex
	st sched.LockState
}

func (m *RWMutex) Lock() {
	sched.Point(sched.OpLock, sched.KRW, &m.st, unsafe.Pointer(m))
	m.mu.Lock()
	sched.HideBegin()
	m.st.A.Store(1)
	sched.HideEnd()
}

func (m *RWMutex) Unlock() {
	sched.HideBegin()
	m.st.A.Store(0)
	sched.HideEnd()
	m.mu.Unlock()
}

func (m *RWMutex) RLock() {
	sched.Point(sched.OpRLock, sched.KRW, &m.st, unsafe.Pointer(m))
	m.mu.RLock()
	sched.HideBegin()
	m.st.B.Add(1)
	sched.HideEnd()
}

func (m *RWMutex) RUnlock() {
	sched.HideBegin()
	m.st.B.Add(-1)
	sched.HideEnd()
	m.mu.RUnlock()
}

func (m *RWMutex) RLocker() Locker { return (*rlocker)(m) }

type rlocker RWMutex

func (r *rlocker) Lock()   { (*RWMutex)(r).RLock() }
func (r *rlocker) Unlock() { (*RWMutex)(r).RUnlock() }

// Once: a scheduling point only while the function has not completed.
type Once struct {
	once sync.Once
	done atomic.Int32
	st   sched.LockState
}

func (o *Once) Do(f func()) {
	sched.HideBegin()
	done := o.done.Load() == 1
	sched.HideEnd()
	if done {
		o.once.Do(f) // fast path of the real Once (keeps its happens-before edge)
		return
	}
	sched.Point(sched.OpOnce, sched.KOnce, &o.st, unsafe.Pointer(o))
	o.once.Do(func() {
		sched.HideBegin()
		o.st.A.Store(1)
		sched.HideEnd()
		defer func() {
			sched.HideBegin()
			o.st.A.Store(0)
			o.done.Store(1)
			sched.HideEnd()
		}()
		f()
	})
}
