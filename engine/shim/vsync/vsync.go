// Package vsync replaces "sync" in instrumented repository files (overlay import rewrite). Every
// type wraps the real primitive - mutual exclusion and the race detector's happens-before come
// from the real lock - and adds a scheduling point before each acquisition.
package vsync

import (
	"sync"
	"sync/atomic"
	"unsafe"

	"verif/shim/sched"
)

type (
	Cond      = sync.Cond
	Map       = sync.Map
	WaitGroup = sync.WaitGroup
	Locker    = sync.Locker
	Pool      = sync.Pool
)

func NewCond(l Locker) *Cond { return sync.NewCond(l) }

type Mutex struct {
	mu   sync.Mutex
	held atomic.Int32
}

func (m *Mutex) CanProceed(int) bool { return m.held.Load() == 0 }

func (m *Mutex) Lock() {
	sched.Point(sched.OpLock, m, unsafe.Pointer(m))
	m.mu.Lock()
	m.held.Store(1)
}

func (m *Mutex) Unlock() {
	m.held.Store(0)
	m.mu.Unlock()
}

func (m *Mutex) TryLock() bool {
	if m.mu.TryLock() {
		m.held.Store(1)
		return true
	}
	return false
}

type RWMutex struct {
	mu      sync.RWMutex
	writer  atomic.Int32
	readers atomic.Int32
}

func (m *RWMutex) CanProceed(op int) bool {
	if op == sched.OpRLock {
		return m.writer.Load() == 0
	}
	return m.writer.Load() == 0 && m.readers.Load() == 0
}

func (m *RWMutex) Lock() {
	sched.Point(sched.OpLock, m, unsafe.Pointer(m))
	m.mu.Lock()
	m.writer.Store(1)
}

func (m *RWMutex) Unlock() {
	m.writer.Store(0)
	m.mu.Unlock()
}

func (m *RWMutex) RLock() {
	sched.Point(sched.OpRLock, m, unsafe.Pointer(m))
	m.mu.RLock()
	m.readers.Add(1)
}

func (m *RWMutex) RUnlock() {
	m.readers.Add(-1)
	m.mu.RUnlock()
}

func (m *RWMutex) RLocker() Locker { return (*rlocker)(m) }

type rlocker RWMutex

func (r *rlocker) Lock()   { (*RWMutex)(r).RLock() }
func (r *rlocker) Unlock() { (*RWMutex)(r).RUnlock() }

// Once: a scheduling point only while the function has not completed.
type Once struct {
	once    sync.Once
	done    atomic.Int32
	running atomic.Int32
}

func (o *Once) CanProceed(int) bool { return o.running.Load() == 0 }

func (o *Once) Do(f func()) {
	if o.done.Load() == 1 {
		o.once.Do(f) // fast path of the real Once (keeps its happens-before edge)
		return
	}
	sched.Point(sched.OpOnce, o, unsafe.Pointer(o))
	o.once.Do(func() {
		o.running.Store(1)
		defer func() {
			o.running.Store(0)
			o.done.Store(1)
		}()
		f()
	})
}
