// Package vatomic replaces "sync/atomic" in instrumented repository files: a scheduling point
// before every operation, then the real operation.
package vatomic

import (
	"sync/atomic"
	"unsafe"

	"verif/shim/sched"
)

type (
	Bool    = atomic.Bool
	Int32   = atomic.Int32
	Int64   = atomic.Int64
	Uint32  = atomic.Uint32
	Uint64  = atomic.Uint64
	Value   = atomic.Value
	Uintptr = atomic.Uintptr
)

func pt(p unsafe.Pointer) { sched.Point(sched.OpAtomic, sched.KNone, nil, p) }

func AddUint64(a *uint64, d uint64) uint64 { pt(unsafe.Pointer(a)); return atomic.AddUint64(a, d) }
func LoadUint64(a *uint64) uint64          { pt(unsafe.Pointer(a)); return atomic.LoadUint64(a) }
func StoreUint64(a *uint64, v uint64)      { pt(unsafe.Pointer(a)); atomic.StoreUint64(a, v) }
func CompareAndSwapUint64(a *uint64, o, n uint64) bool {
	pt(unsafe.Pointer(a))
	return atomic.CompareAndSwapUint64(a, o, n)
}
func SwapUint64(a *uint64, n uint64) uint64 { pt(unsafe.Pointer(a)); return atomic.SwapUint64(a, n) }

func AddUint32(a *uint32, d uint32) uint32 { pt(unsafe.Pointer(a)); return atomic.AddUint32(a, d) }
func LoadUint32(a *uint32) uint32          { pt(unsafe.Pointer(a)); return atomic.LoadUint32(a) }
func StoreUint32(a *uint32, v uint32)      { pt(unsafe.Pointer(a)); atomic.StoreUint32(a, v) }
func CompareAndSwapUint32(a *uint32, o, n uint32) bool {
	pt(unsafe.Pointer(a))
	return atomic.CompareAndSwapUint32(a, o, n)
}

func AddInt64(a *int64, d int64) int64 { pt(unsafe.Pointer(a)); return atomic.AddInt64(a, d) }
func LoadInt64(a *int64) int64         { pt(unsafe.Pointer(a)); return atomic.LoadInt64(a) }
func StoreInt64(a *int64, v int64)     { pt(unsafe.Pointer(a)); atomic.StoreInt64(a, v) }
func AddInt32(a *int32, d int32) int32 { pt(unsafe.Pointer(a)); return atomic.AddInt32(a, d) }
func LoadInt32(a *int32) int32         { pt(unsafe.Pointer(a)); return atomic.LoadInt32(a) }
func StoreInt32(a *int32, v int32)     { pt(unsafe.Pointer(a)); atomic.StoreInt32(a, v) }
func CompareAndSwapInt32(a *int32, o, n int32) bool {
	pt(unsafe.Pointer(a))
	return atomic.CompareAndSwapInt32(a, o, n)
}
func CompareAndSwapInt64(a *int64, o, n int64) bool {
	pt(unsafe.Pointer(a))
	return atomic.CompareAndSwapInt64(a, o, n)
}
