// Package sched is the cooperative thread-level scheduler of engine E3. Code under test reaches it
// through the shim packages vsync / vatomic (import rewrite by overlay): before every lock
// acquisition and every atomic operation the calling goroutine parks at a scheduling point and
// continues only when the scheduler grants it. Exactly one granted thread runs at a time; the
// scheduler waits for quiescence with synctest.Wait.
//
// The scheduler's own synchronisation is hidden from the race detector (RaceDisable/RaceEnable),
// so that under -race happens-before is computed from the program's own synchronisation only.
package sched

import (
	"bytes"
	"fmt"
	"os"
	"runtime"
	"sort"
	"strconv"
	"sync/atomic"
	"testing/synctest"
	"time"
	"unsafe"
)

// Op kinds.
const (
	OpStart = iota
	OpLock
	OpRLock
	OpOnce
	OpAtomic
	OpLockWait // a writer that has announced itself waits for the readers to leave
	OpCond     // a harness thread waits until a predicate over the (quiescent) state holds
)

var opNames = [...]string{"start", "Lock", "RLock", "Once", "atomic", "LockWait", "until"}

// LockState lives inside the shim objects; the scheduler reads it with atomic loads only.
// Mutex: A = held. RWMutex: A = writer, B = readers, W = a writer has announced itself and waits for
// the readers to leave (Go's RWMutex blocks new readers from that moment on). Once: A = running.
type LockState struct{ A, B, W atomic.Int32 }

// object kinds
const (
	KNone = iota
	KMutex
	KRW
	KOnce
)

func canProceed(kind, op int, st *LockState) bool {
	if st == nil {
		return true
	}
	switch kind {
	case KRW:
		switch op {
		case OpRLock:
			return st.A.Load() == 0 && st.W.Load() == 0
		case OpLockWait:
			return st.B.Load() == 0
		}
		return st.A.Load() == 0 && st.W.Load() == 0 // writers queue behind one another
	case KMutex, KOnce:
		return st.A.Load() == 0
	}
	return true
}

// All fields shared between a thread and the scheduler are atomics and are only touched inside
// RaceDisable sections, so they are invisible to the race detector. Thread slots (and their gate
// channels) are allocated by the scheduler's goroutine in New, before any thread exists.
type thread struct {
	idx     int
	gid     atomic.Uint64
	gate    chan struct{}
	state   atomic.Int32 // 0 running / blocked in real code, 1 parked at a point, 2 finished
	op      atomic.Int32
	kind    atomic.Int32
	objAddr atomic.Uintptr // identity for labels only
	lock    atomic.Pointer[LockState]
	harness atomic.Bool
	pred    atomic.Pointer[func() bool]
	fin     chan struct{}
	name    string // harness threads only; written and read by the scheduler's goroutine
}

const maxThreads = 64

// Sched is one scheduler instance (one execution).
type Sched struct {
	slots  [maxThreads]thread
	n      atomic.Int32
	active atomic.Bool
	objIDs map[uintptr]int
	Trace  []string
	// Horizon: how many times virtual time may be advanced when nothing is enabled.
	Horizon  int
	Quantum  time.Duration
	Deadlock bool
	last     *thread
	// NoAdopt: goroutines the code under test spawns itself run freely (their operations are not
	// scheduling points); only the harness threads are scheduled
	NoAdopt atomic.Bool
}

var cur atomic.Pointer[Sched]

//go:norace
func goid() uint64 {
	var buf [64]byte
	n := runtime.Stack(buf[:], false)
	s := buf[len("goroutine "):n]
	i := bytes.IndexByte(s, ' ')
	id, _ := strconv.ParseUint(string(s[:i]), 10, 64)
	return id
}

func (s *Sched) lookup(g uint64) *thread {
	n := int(s.n.Load())
	for i := 0; i < n; i++ {
		if s.slots[i].gid.Load() == g {
			return &s.slots[i]
		}
	}
	return nil
}

func (s *Sched) claim() *thread {
	i := int(s.n.Add(1)) - 1
	if i >= maxThreads {
		panic("sched: too many threads")
	}
	return &s.slots[i]
}

// Point is called by the shims before an acquisition / atomic operation.
func Point(op int, kind int, st *LockState, addr unsafe.Pointer) {
	s := cur.Load()
	if s == nil || !s.active.Load() {
		return
	}
	raceDisable()
	g := goid()
	th := s.lookup(g)
	if th == nil {
		if s.NoAdopt.Load() {
			raceEnable()
			return
		}
		// a goroutine the code under test spawned itself: adopt it
		th = s.claim()
		th.gid.Store(g)
	}
	th.op.Store(int32(op))
	th.kind.Store(int32(kind))
	th.lock.Store(st)
	th.objAddr.Store(uintptr(addr))
	th.state.Store(1)
	<-th.gate
	th.state.Store(0)
	raceEnable()
}

// Chooser is the explorer's interface: n options; free=true when taking a non-default option is
// not a preemption (the previously running thread cannot continue).
type Chooser interface {
	ChooseFree(n int, free bool, label func(int) string) int
}

// New creates a scheduler and makes it current. Must be called by the goroutine that will call Run,
// before any thread is started.
func New() *Sched {
	s := &Sched{objIDs: map[uintptr]int{}, Horizon: 4, Quantum: time.Second}
	for i := range s.slots {
		s.slots[i].idx = i
		s.slots[i].gate = make(chan struct{})
		s.slots[i].fin = make(chan struct{})
	}
	cur.Store(s)
	return s
}

// Go registers a harness thread. It starts parked at a "start" point.
func (s *Sched) Go(name string, f func()) {
	raceDisable()
	th := s.claim()
	th.harness.Store(true)
	raceEnable()
	th.name = name
	reg := make(chan struct{})
	go func() {
		raceDisable()
		th.gid.Store(goid())
		th.op.Store(OpStart)
		th.state.Store(1)
		close(reg)
		<-th.gate
		th.state.Store(0)
		raceEnable()
		defer func() {
			raceDisable()
			th.state.Store(2)
			raceEnable()
			close(th.fin) // a real, visible synchronisation: results may be read after <-fin
		}()
		f()
	}()
	raceDisable()
	<-reg
	raceEnable()
}

func (s *Sched) objID(p uintptr) int {
	if p == 0 {
		return 0
	}
	id, ok := s.objIDs[p]
	if !ok {
		id = len(s.objIDs) + 1
		s.objIDs[p] = id
	}
	return id
}

func (s *Sched) tname(t *thread) string {
	if t.name != "" {
		return t.name
	}
	return "g" + strconv.Itoa(t.idx)
}

// Run schedules until every harness thread has finished (or deadlock / horizon).
func (s *Sched) Run(ch Chooser) {
	s.active.Store(true)
	advances := 0
	type cand struct {
		th   *thread
		op   int
		addr uintptr
	}
	for {
		raceDisable()
		synctest.Wait()
		n := int(s.n.Load())
		var enabled []cand
		allDone := true
		for i := 0; i < n; i++ {
			th := &s.slots[i]
			st := th.state.Load()
			if th.harness.Load() && st != 2 {
				allDone = false
			}
			if st != 1 {
				continue
			}
			op := int(th.op.Load())
			addr := th.objAddr.Load()
			if op == OpCond {
				// evaluated while every thread is parked or blocked: the predicate may read private
				// state of the objects under test without racing with them
				if p := th.pred.Load(); p == nil || callPred(p) {
					enabled = append(enabled, cand{th, op, addr})
				}
				continue
			}
			if op == OpStart || op == OpAtomic || canProceed(int(th.kind.Load()), op, th.lock.Load()) {
				enabled = append(enabled, cand{th, op, addr})
			}
		}
		raceEnable()
		if allDone {
			break
		}
		if len(enabled) == 0 {
			if advances >= s.Horizon {
				s.Deadlock = true
				break
			}
			advances++
			time.Sleep(s.Quantum)
			continue
		}
		// canonical order: the thread that ran last first (if enabled), then ascending index
		sort.SliceStable(enabled, func(i, j int) bool {
			if (enabled[i].th == s.last) != (enabled[j].th == s.last) {
				return enabled[i].th == s.last
			}
			return enabled[i].th.idx < enabled[j].th.idx
		})
		free := enabled[0].th != s.last
		c := 0
		lab := func(i int) string {
			t := enabled[i]
			return fmt.Sprintf("%s:%s#%d", s.tname(t.th), opNames[t.op], s.objID(t.addr))
		}
		if len(enabled) > 1 {
			c = ch.ChooseFree(len(enabled), free, lab)
		}
		th := enabled[c].th
		s.Trace = append(s.Trace, lab(c))
		s.last = th
		raceDisable()
		th.gate <- struct{}{}
		raceEnable()
	}
	// free-running from here: release everything that is still parked
	s.active.Store(false)
	raceDisable()
	n := int(s.n.Load())
	for i := 0; i < n; i++ {
		th := &s.slots[i]
		if th.state.Load() == 1 {
			select {
			case th.gate <- struct{}{}:
			default:
			}
		}
	}
	raceEnable()
}

// WaitAll reports the harness threads that have not finished; for the finished ones it performs a
// visible synchronisation (receive from the channel the thread closed), after which their results
// may be read.
func (s *Sched) WaitAll() (unfinished []string) {
	n := int(s.n.Load())
	for i := 0; i < n; i++ {
		th := &s.slots[i]
		if th.harness.Load() {
			select {
			case <-th.fin:
			default:
				unfinished = append(unfinished, s.tname(th))
			}
		}
	}
	return
}

// Close detaches the scheduler.
func (s *Sched) Close() {
	s.active.Store(false)
	cur.CompareAndSwap(s, nil)
}

// Hidden runs f with the race detector's synchronisation handling switched off: atomics used inside
// create no happens-before edges visible to the detector (harness logs must not mask races).
func Hidden(f func()) {
	raceDisable()
	f()
	raceEnable()
}

// Yield is a scheduling point without an object (harness callbacks: logger, send, backend).
func Yield() { Point(OpAtomic, KNone, nil, nil) }

// HideBegin / HideEnd bracket shim bookkeeping (lock-state atomics) so that it creates no
// happens-before edges for the race detector: only the real primitive's edges count.
func HideBegin() { raceDisable() }
func HideEnd()   { raceEnable() }

// UnlockPoints: when set (VERIF_UNLOCK_POINTS=1), every release of a lock is followed by a scheduling
// point, so that another thread can run between a release and the code that follows it (windows in
// which a thread works on shared state after it let go of the lock). Off by default: acquisitions
// and atomics suffice for data-race detection, and the extra points double the schedule space.
var UnlockPoints = os.Getenv("VERIF_UNLOCK_POINTS") == "1"

// AfterUnlock is called by the shims after every release.
func AfterUnlock() {
	if UnlockPoints {
		Yield()
	}
}

// WaitUntil parks the calling harness thread until pred holds. pred is evaluated by the scheduler
// while the system is quiescent (all threads parked or blocked), so it may look at private state.
// Outside a scheduled run it returns at once.
func WaitUntil(pred func() bool) {
	s := cur.Load()
	if s == nil || !s.active.Load() {
		return
	}
	raceDisable()
	th := s.lookup(goid())
	if th == nil {
		raceEnable()
		return
	}
	th.pred.Store(&pred)
	th.op.Store(OpCond)
	th.kind.Store(KNone)
	th.lock.Store(nil)
	th.objAddr.Store(0)
	th.state.Store(1)
	<-th.gate
	th.state.Store(0)
	raceEnable()
}

// callPred loads the predicate without race instrumentation (it was stored by the waiting thread;
// the hand-over goes through the scheduler's hidden atomics).
//
//go:norace
func callPred(p *func() bool) bool { return (*p)() }
