// Package sched is the cooperative thread-level scheduler of engine E3. Code under test reaches it
// through the shim packages vsync / vatomic (import rewrite by overlay): before every lock
// acquisition and every atomic operation the calling goroutine parks at a scheduling point and
// continues only when the scheduler grants it. Exactly one granted thread runs at a time; the
// scheduler waits for quiescence with synctest.Wait.
//
// The scheduler's own synchronisation is hidden from the race detector (RaceDisable/RaceEnable),
// so that under -race happens-before is computed from the program's own synchronisation only.
package sched

import (
	"bytes"
	"fmt"
	"runtime"
	"sort"
	"strconv"
	"sync"
	"sync/atomic"
	"testing/synctest"
	"time"
	"unsafe"
)

// Op kinds.
const (
	OpStart = iota
	OpLock
	OpRLock
	OpOnce
	OpAtomic
)

var opNames = [...]string{"start", "Lock", "RLock", "Once", "atomic"}

// Enabler tells whether a pending acquisition can proceed now.
type Enabler interface{ CanProceed(op int) bool }

type thread struct {
	idx     int
	gid     uint64
	name    string
	gate    chan struct{}
	state   atomic.Int32 // 0 running / blocked in real code, 1 parked at a point, 2 finished
	op      int
	obj     Enabler
	objAddr unsafe.Pointer
	harness bool
	fin     chan struct{}
}

// Sched is one scheduler instance (one execution).
type Sched struct {
	mu      sync.Mutex // protects threads/byGid (taken only inside RaceDisable sections)
	threads []*thread
	byGid   map[uint64]*thread
	active  atomic.Bool
	objIDs  map[unsafe.Pointer]int
	Trace   []string
	// Horizon: how many times virtual time may be advanced when nothing is enabled.
	Horizon  int
	Quantum  time.Duration
	Deadlock bool
	last     *thread
}

var cur atomic.Pointer[Sched]

func goid() uint64 {
	var buf [64]byte
	n := runtime.Stack(buf[:], false)
	s := buf[len("goroutine "):n]
	i := bytes.IndexByte(s, ' ')
	id, _ := strconv.ParseUint(string(s[:i]), 10, 64)
	return id
}

// Point is called by the shims before an acquisition / atomic operation.
func Point(op int, obj Enabler, addr unsafe.Pointer) {
	s := cur.Load()
	if s == nil || !s.active.Load() {
		return
	}
	raceDisable()
	g := goid()
	s.mu.Lock()
	th := s.byGid[g]
	if th == nil {
		// a goroutine the code under test spawned itself: adopt it
		th = &thread{idx: len(s.threads), gid: g, name: fmt.Sprintf("g%d", len(s.threads)), gate: make(chan struct{})}
		s.threads = append(s.threads, th)
		s.byGid[g] = th
	}
	th.op, th.obj, th.objAddr = op, obj, addr
	s.mu.Unlock()
	th.state.Store(1)
	<-th.gate
	th.state.Store(0)
	raceEnable()
}

// Chooser is the explorer's interface: n options; free=true when taking a non-default option is
// not a preemption (the previously running thread cannot continue).
type Chooser interface {
	ChooseFree(n int, free bool, label func(int) string) int
}

// New creates a scheduler and makes it current.
func New() *Sched {
	s := &Sched{byGid: map[uint64]*thread{}, objIDs: map[unsafe.Pointer]int{}, Horizon: 4, Quantum: time.Second}
	cur.Store(s)
	return s
}

// Go registers a harness thread. It starts parked at a "start" point.
func (s *Sched) Go(name string, f func()) {
	th := &thread{name: name, gate: make(chan struct{}), harness: true, fin: make(chan struct{})}
	raceDisable()
	s.mu.Lock()
	th.idx = len(s.threads)
	s.threads = append(s.threads, th)
	s.mu.Unlock()
	raceEnable()
	reg := make(chan struct{})
	go func() {
		raceDisable()
		g := goid()
		s.mu.Lock()
		th.gid = g
		s.byGid[g] = th
		s.mu.Unlock()
		th.op = OpStart
		th.state.Store(1)
		close(reg)
		<-th.gate
		th.state.Store(0)
		raceEnable()
		defer func() {
			th.state.Store(2)
			close(th.fin) // a real, visible synchronisation: results may be read after <-fin
		}()
		f()
	}()
	raceDisable()
	<-reg
	raceEnable()
}

func (s *Sched) objID(p unsafe.Pointer) int {
	if p == nil {
		return 0
	}
	id, ok := s.objIDs[p]
	if !ok {
		id = len(s.objIDs) + 1
		s.objIDs[p] = id
	}
	return id
}

// Run schedules until every harness thread has finished (or deadlock / horizon).
func (s *Sched) Run(ch Chooser) {
	s.active.Store(true)
	advances := 0
	for {
		raceDisable()
		synctest.Wait()
		s.mu.Lock()
		ths := append([]*thread(nil), s.threads...)
		s.mu.Unlock()
		var enabled []*thread
		allDone := true
		for _, th := range ths {
			st := th.state.Load()
			if th.harness && st != 2 {
				allDone = false
			}
			if st == 1 && (th.op == OpStart || th.op == OpAtomic || th.obj == nil || th.obj.CanProceed(th.op)) {
				enabled = append(enabled, th)
			}
		}
		raceEnable()
		if allDone {
			break
		}
		if len(enabled) == 0 {
			if advances >= s.Horizon {
				s.Deadlock = true
				break
			}
			advances++
			time.Sleep(s.Quantum)
			continue
		}
		// canonical order: the thread that ran last first (if enabled), then ascending index
		sort.SliceStable(enabled, func(i, j int) bool {
			if (enabled[i] == s.last) != (enabled[j] == s.last) {
				return enabled[i] == s.last
			}
			return enabled[i].idx < enabled[j].idx
		})
		free := enabled[0] != s.last
		c := 0
		lab := func(i int) string {
			t := enabled[i]
			return fmt.Sprintf("%s:%s#%d", t.name, opNames[t.op], s.objID(t.objAddr))
		}
		if len(enabled) > 1 {
			c = ch.ChooseFree(len(enabled), free, lab)
		}
		th := enabled[c]
		s.Trace = append(s.Trace, lab(c))
		s.last = th
		raceDisable()
		th.gate <- struct{}{}
		raceEnable()
	}
	// free-running from here: release everything that is still parked
	s.active.Store(false)
	raceDisable()
	s.mu.Lock()
	ths := append([]*thread(nil), s.threads...)
	s.mu.Unlock()
	for _, th := range ths {
		if th.state.Load() == 1 {
			select {
			case th.gate <- struct{}{}:
			default:
			}
		}
	}
	raceEnable()
}

// Wait blocks until harness thread i has finished (visible synchronisation).
func (s *Sched) WaitAll() (unfinished []string) {
	for _, th := range s.threads {
		if th.harness {
			select {
			case <-th.fin:
			default:
				unfinished = append(unfinished, th.name)
			}
		}
	}
	return
}

// Close detaches the scheduler.
func (s *Sched) Close() {
	s.active.Store(false)
	cur.CompareAndSwap(s, nil)
}
