//go:build race

package sched

import "runtime"

func raceDisable() { runtime.RaceDisable() }
func raceEnable()  { runtime.RaceEnable() }

// RaceEnabled reports whether the binary was built with -race.
const RaceEnabled = true
