//go:build !race

package sched

func raceDisable() {}
func raceEnable()  {}

// RaceEnabled reports whether the binary was built with -race.
const RaceEnabled = false
