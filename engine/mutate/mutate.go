// Package mutate derives the structure-aware input catalogue of C10/C16 from valid byte strings.
package mutate

import (
	"encoding/asn1"
	"fmt"
	"math/rand"
)

// Variant is one mutated input.
type Variant struct {
	Kind string // truncate | extend | substitute | asn1-remove | asn1-duplicate
	Desc string
	Data []byte
}

// Truncations: every length up to 96, then every 8th, plus the last 4.
func Truncations(b []byte) []Variant {
	var out []Variant
	seen := map[int]bool{}
	add := func(n int) {
		if n < 0 || n >= len(b) || seen[n] {
			return
		}
		seen[n] = true
		out = append(out, Variant{"truncate", fmt.Sprintf("len=%d/%d", n, len(b)), append([]byte(nil), b[:n]...)})
	}
	for n := 0; n <= 96; n++ {
		add(n)
	}
	for n := 104; n < len(b); n += 8 {
		add(n)
	}
	for n := len(b) - 4; n < len(b); n++ {
		add(n)
	}
	return out
}

// Extensions by 1 and 2 bytes.
func Extensions(b []byte) []Variant {
	return []Variant{
		{"extend", "+1", append(append([]byte(nil), b...), 0)},
		{"extend", "+2", append(append([]byte(nil), b...), 0xff, 1)},
	}
}

// Substitutions of each of the first `head` bytes and of `extra` seeded positions beyond by
// {0x00, 0x01, 0x7f, 0x80, 0xff, b^1}. boundaryOnly restricts the values to {0x00, 0xff, b^1}.
func Substitutions(b []byte, head, extra int, seed int64, boundaryOnly bool) []Variant {
	var out []Variant
	pos := []int{}
	for i := 0; i < len(b) && i < head; i++ {
		pos = append(pos, i)
	}
	if len(b) > head {
		r := rand.New(rand.NewSource(seed))
		for i := 0; i < extra; i++ {
			pos = append(pos, head+r.Intn(len(b)-head))
		}
	}
	vals := []int{0x00, 0x01, 0x7f, 0x80, 0xff, -1}
	if boundaryOnly {
		vals = []int{0x00, 0xff, -1}
	}
	for _, p := range pos {
		for _, v := range vals {
			nb := append([]byte(nil), b...)
			if v < 0 {
				nb[p] ^= 1
			} else {
				if nb[p] == byte(v) {
					continue
				}
				nb[p] = byte(v)
			}
			out = append(out, Variant{"substitute", fmt.Sprintf("pos=%d val=%d", p, v), nb})
		}
	}
	return out
}

// ASN1Variants removes / duplicates each element of the DER SEQUENCE b and - recursively, up to depth
// 3 - of every compound element nested in it, and empties every nested compound element (no-op list
// if b is not a SEQUENCE). OCTET STRINGs that themselves hold a DER SEQUENCE are descended into too.
func ASN1Variants(b []byte) []Variant {
	return asn1Variants(b, "", 0)
}

func asn1Variants(b []byte, path string, depth int) []Variant {
	var seq asn1.RawValue
	rest, err := asn1.Unmarshal(b, &seq)
	if err != nil || len(rest) != 0 || !seq.IsCompound {
		return nil
	}
	var elems []asn1.RawValue
	body := seq.Bytes
	for len(body) > 0 {
		var e asn1.RawValue
		r, err := asn1.Unmarshal(body, &e)
		if err != nil {
			return nil
		}
		elems = append(elems, e)
		body = r
	}
	packRaw := func(parts [][]byte) []byte {
		var content []byte
		for _, e := range parts {
			content = append(content, e...)
		}
		out, err := asn1.Marshal(asn1.RawValue{Class: seq.Class, Tag: seq.Tag, IsCompound: true, Bytes: content})
		if err != nil {
			return nil
		}
		return out
	}
	full := func() [][]byte {
		ps := make([][]byte, len(elems))
		for i, e := range elems {
			ps[i] = e.FullBytes
		}
		return ps
	}
	var out []Variant
	for i := range elems {
		where := fmt.Sprintf("%selement %d of %d", path, i, len(elems))
		ps := full()
		rm := append(append([][]byte(nil), ps[:i]...), ps[i+1:]...)
		if d := packRaw(rm); d != nil {
			out = append(out, Variant{"asn1-remove", where, d})
		}
		dup := append(append(append([][]byte(nil), ps[:i+1]...), ps[i]), ps[i+1:]...)
		if d := packRaw(dup); d != nil {
			out = append(out, Variant{"asn1-duplicate", where, d})
		}
		if depth >= 3 {
			continue
		}
		// nested structure: a compound element, or an OCTET STRING holding a SEQUENCE
		e := elems[i]
		var inner []byte
		wrap := func(x []byte) []byte { return x }
		if e.IsCompound {
			inner = e.FullBytes
		} else if e.Class == asn1.ClassUniversal && e.Tag == asn1.TagOctetString {
			var probe asn1.RawValue
			if r, err := asn1.Unmarshal(e.Bytes, &probe); err == nil && len(r) == 0 && probe.IsCompound {
				inner = e.Bytes
				wrap = func(x []byte) []byte {
					o, err := asn1.Marshal(x)
					if err != nil {
						return nil
					}
					return o
				}
			}
		}
		if inner == nil {
			continue
		}
		if e.IsCompound {
			empty, err := asn1.Marshal(asn1.RawValue{Class: e.Class, Tag: e.Tag, IsCompound: true, Bytes: nil})
			if err == nil {
				ps2 := full()
				ps2[i] = empty
				if d := packRaw(ps2); d != nil {
					out = append(out, Variant{"asn1-empty", where, d})
				}
			}
		}
		for _, v := range asn1Variants(inner, where+" / ", depth+1) {
			w := wrap(v.Data)
			if w == nil {
				continue
			}
			ps2 := full()
			ps2[i] = w
			if d := packRaw(ps2); d != nil {
				out = append(out, Variant{v.Kind + "-nested", v.Desc, d})
			}
		}
	}
	return out
}

// All returns the whole catalogue for b. quick restricts substitutions to boundary values on the
// first 16 bytes.
func All(b []byte, seed int64, quick bool) []Variant {
	out := Truncations(b)
	out = append(out, Extensions(b)...)
	if quick {
		out = append(out, Substitutions(b, 16, 4, seed, true)...)
	} else {
		out = append(out, Substitutions(b, 48, 16, seed, false)...)
	}
	out = append(out, ASN1Variants(b)...)
	return out
}
