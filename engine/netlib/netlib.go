// Package netlib runs the repository's net package over in-memory TLS 1.3 inside a synctest bubble:
// an in-memory duplex stream built on sync.Cond (durably blocking for synctest), a listener that
// hands out tls.Server connections, and helpers to speak the handshake/framing protocol by hand.
package netlib

import (
	"crypto/ecdsa"
	"crypto/rand"
	"crypto/sha256"
	"crypto/tls"
	"crypto/x509"
	"encoding/binary"
	"encoding/hex"
	"errors"
	"io"
	"net"
	"os"
	"sync"
	"time"

	comm "github.com/IBM/TSS/net"
	"github.com/IBM/TSS/testutil/tlsgen"
)

type half struct {
	mu     sync.Mutex
	cond   *sync.Cond
	buf    []byte
	closed bool
	// fault injection
	Stalled    bool // written bytes are not readable while set
	CloseAfter int  // >0: after this many bytes have been read the stream breaks
	Cap        int  // >0: writes block while this many bytes are unread (back-pressure)
	readTotal  int
}

func newHalf() *half { h := &half{}; h.cond = sync.NewCond(&h.mu); return h }

type addr string

func (a addr) Network() string { return "mem" }
func (a addr) String() string  { return string(a) }

// Conn is one end of an in-memory duplex stream.
type Conn struct {
	r, w *half
	name string
	// deadlines as net.Conn defines them: absolute, for pending and future calls, zero = none
	dmu      sync.Mutex
	rdl, wdl time.Time
}

func (c *Conn) deadline(write bool) time.Time {
	c.dmu.Lock()
	defer c.dmu.Unlock()
	if write {
		return c.wdl
	}
	return c.rdl
}

func expired(d time.Time) bool { return !d.IsZero() && !time.Now().Before(d) }

func Pipe(name string) (*Conn, *Conn) {
	a, b := newHalf(), newHalf()
	return &Conn{r: a, w: b, name: name + "/c"}, &Conn{r: b, w: a, name: name + "/s"}
}

func (c *Conn) Read(p []byte) (int, error) {
	h := c.r
	h.mu.Lock()
	defer h.mu.Unlock()
	for (len(h.buf) == 0 || h.Stalled) && !h.closed && !expired(c.deadline(false)) {
		h.cond.Wait()
	}
	if h.closed && (len(h.buf) == 0 || h.Stalled) {
		return 0, io.EOF
	}
	if expired(c.deadline(false)) {
		return 0, os.ErrDeadlineExceeded
	}
	n := copy(p, h.buf)
	if h.CloseAfter > 0 && h.readTotal+n >= h.CloseAfter {
		// the stream breaks here: deliver what is left up to the break point, drop the rest
		n = h.CloseAfter - h.readTotal
		h.closed = true
		h.readTotal += n
		h.buf = nil
		h.cond.Broadcast()
		if n == 0 {
			return 0, io.EOF
		}
		return n, nil
	}
	h.buf = h.buf[n:]
	h.readTotal += n
	h.cond.Broadcast()
	return n, nil
}

func (c *Conn) Write(p []byte) (int, error) {
	h := c.w
	h.mu.Lock()
	defer h.mu.Unlock()
	for h.Cap > 0 && len(h.buf) >= h.Cap && !h.closed && !expired(c.deadline(true)) {
		h.cond.Wait()
	}
	if h.closed {
		return 0, io.ErrClosedPipe
	}
	if expired(c.deadline(true)) {
		return 0, os.ErrDeadlineExceeded
	}
	h.buf = append(h.buf, p...)
	h.cond.Broadcast()
	return len(p), nil
}

func (c *Conn) Close() error {
	for _, h := range []*half{c.r, c.w} {
		h.mu.Lock()
		h.closed = true
		h.cond.Broadcast()
		h.mu.Unlock()
	}
	return nil
}

// ReadHalf / WriteHalf expose the fault knobs.
func (c *Conn) ReadHalf() *half  { return c.r }
func (c *Conn) WriteHalf() *half { return c.w }

// SetStalled stalls or releases what this end reads.
func (c *Conn) SetStalled(v bool) {
	c.r.mu.Lock()
	c.r.Stalled = v
	c.r.cond.Broadcast()
	c.r.mu.Unlock()
}

func (c *Conn) LocalAddr() net.Addr  { return addr(c.name) }
func (c *Conn) RemoteAddr() net.Addr { return addr(c.name + "-peer") }
func (c *Conn) SetDeadline(t time.Time) error {
	c.SetReadDeadline(t)
	return c.SetWriteDeadline(t)
}

func (c *Conn) setDeadline(dl *time.Time, h *half, t time.Time) error {
	c.dmu.Lock()
	*dl = t
	c.dmu.Unlock()
	wake := func() {
		h.mu.Lock()
		h.cond.Broadcast()
		h.mu.Unlock()
	}
	if !t.IsZero() {
		if d := time.Until(t); d > 0 {
			time.AfterFunc(d, wake) // a call that is blocked when the deadline passes is woken up
			return nil
		}
	}
	wake()
	return nil
}

func (c *Conn) SetReadDeadline(t time.Time) error  { return c.setDeadline(&c.rdl, c.r, t) }
func (c *Conn) SetWriteDeadline(t time.Time) error { return c.setDeadline(&c.wdl, c.w, t) }

// Listener hands out tls.Server connections over in-memory streams.
type Listener struct {
	cfg    *tls.Config
	ch     chan net.Conn
	closed chan struct{}
	once   sync.Once
	held   []*Conn
	// Refuse: dialing fails (peer that never accepts)
	Refuse bool
	// Silent: the stream is accepted but nobody ever answers on it (a hung process behind an open
	// port): the dialler's TLS handshake never completes
	Silent bool
	// OnAccept may wrap/record the raw server-side stream
	OnAccept func(raw *Conn)
}

func NewListener(cfg *tls.Config) *Listener {
	return &Listener{cfg: cfg, ch: make(chan net.Conn, 16), closed: make(chan struct{})}
}

func (l *Listener) Accept() (net.Conn, error) {
	select {
	case c := <-l.ch:
		return c, nil
	case <-l.closed:
		return nil, errors.New("listener closed")
	}
}
func (l *Listener) Close() error   { l.once.Do(func() { close(l.closed) }); return nil }
func (l *Listener) Addr() net.Addr { return addr("mem-listener") }

// DialRaw creates a stream to the listener and returns the client end (no TLS yet).
func (l *Listener) DialRaw(name string) (*Conn, error) {
	if l.Refuse {
		return nil, errors.New("connection refused")
	}
	c, s := Pipe(name)
	if l.Silent {
		_ = s // the server end is held and never serviced
		l.held = append(l.held, s)
		return c, nil
	}
	if l.OnAccept != nil {
		l.OnAccept(s)
	}
	select {
	case l.ch <- tls.Server(s, l.cfg):
		return c, nil
	case <-l.closed:
		return nil, errors.New("connection refused")
	}
}

// PKI of a scenario.
type PKI struct {
	CA      tlsgen.CA
	Pool    *x509.CertPool
	Server  *tlsgen.CertKeyPair
	RealNow time.Time
}

func NewPKI(realNow time.Time) (*PKI, error) {
	ca, err := tlsgen.NewCA()
	if err != nil {
		return nil, err
	}
	pool := x509.NewCertPool()
	pool.AppendCertsFromPEM(ca.CertBytes())
	srv, err := ca.NewServerCertKeyPair("127.0.0.1", "mem")
	if err != nil {
		return nil, err
	}
	return &PKI{CA: ca, Pool: pool, Server: srv, RealNow: realNow}, nil
}

// clock: certificates made inside the bubble carry bubble time; those made outside need the TLS
// clock pinned to the real time they were made at (RealNow non-zero).
func (p *PKI) clock() func() time.Time {
	if p.RealNow.IsZero() {
		return nil
	}
	return func() time.Time { return p.RealNow }
}

// ServerConfig: TLS 1.3, clock pinned to real time (the bubble's clock starts in 2000).
func (p *PKI) ServerConfig() *tls.Config {
	cert, err := tls.X509KeyPair(p.Server.Cert, p.Server.Key)
	if err != nil {
		panic(err)
	}
	return &tls.Config{Certificates: []tls.Certificate{cert}, MinVersion: tls.VersionTLS13, Time: p.clock(), SessionTicketsDisabled: true}
}

func (p *PKI) ClientConfig() *tls.Config {
	return &tls.Config{RootCAs: p.Pool, MinVersion: tls.VersionTLS13, ServerName: "mem", Time: p.clock(), SessionTicketsDisabled: true}
}

// LookupKey is the key of the registration table for (domain, identity).
func LookupKey(domain string, identity []byte) string {
	h := sha256.New()
	h.Write([]byte(domain))
	h.Write(identity)
	return hex.EncodeToString(h.Sum(nil))
}

// Binding extracts the channel binding the way the library does.
func Binding(c *tls.Conn) ([]byte, error) {
	cs := c.ConnectionState()
	return cs.ExportKeyingMaterial("MPC", []byte("MPC"), 32)
}

// SignHandshake fills in the signature over the handshake with the signature field blanked.
func SignHandshake(h *comm.Handshake, key *ecdsa.PrivateKey) error {
	h.Signature = nil
	d := sha256.Sum256(h.Bytes())
	sig, err := ecdsa.SignASN1(rand.Reader, key, d[:])
	if err != nil {
		return err
	}
	h.Signature = sig
	return nil
}

// FrameHandshake: 2-byte little-endian length prefix + body.
func FrameHandshake(body []byte) []byte {
	b := make([]byte, 2+len(body))
	binary.LittleEndian.PutUint16(b, uint16(len(body)))
	copy(b[2:], body)
	return b
}

// Frame builds a message frame.
func Frame(msgType uint8, topic, data []byte) []byte {
	b := []byte{msgType, 0, 0, 0, 0}
	binary.LittleEndian.PutUint32(b[1:], uint32(len(data)))
	b = append(b, topic...)
	return append(b, data...)
}

// Collector drains the channel returned by ServiceConnections.
type Collector struct {
	mu   sync.Mutex
	Msgs []comm.InMsg
}

func (c *Collector) Run(in <-chan comm.InMsg) {
	for m := range in {
		c.mu.Lock()
		c.Msgs = append(c.Msgs, m)
		c.mu.Unlock()
	}
}

func (c *Collector) Snapshot() []comm.InMsg {
	c.mu.Lock()
	defer c.mu.Unlock()
	return append([]comm.InMsg(nil), c.Msgs...)
}
