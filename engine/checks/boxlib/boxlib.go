// Package boxlib holds the thread-level scenarios on the real msg.Box shared by C14 (functional
// oracle) and C20 (race detection).
package boxlib

import (
	"fmt"
	"sort"
	"strings"
	"sync"
	"time"

	"github.com/IBM/TSS/msg"
	tss "github.com/IBM/TSS/types"
	"verif/dump"
	"verif/explore"
	"verif/harness"
	"verif/shim/sched"
	"verif/world"
)

// step of a thread script
type Step struct {
	Kind   string `json:"k"` // "R" receive, "S" send, "tick"
	Topic  string `json:"t,omitempty"`
	Sender uint16 `json:"s,omitempty"`
	ID     string `json:"id,omitempty"` // message id for R
	N      int    `json:"n,omitempty"`  // burst size
}

type Scenario struct {
	Name    string   `json:"name"`
	Threads [][]Step `json:"threads"`
	Pre     []Step   `json:"pre,omitempty"` // executed sequentially before the threads start
	Bound   int      `json:"bound"`         // preemption bound
	// MaxTopics: MaxInFlightTopicsBySender of the box (0: 10000, the value SilentScheme configures)
	MaxTopics int `json:"max_topics,omitempty"`
}

func topicBytes(t string) []byte {
	b := make([]byte, 32)
	copy(b, t)
	return b
}

type handler struct {
	mu  *sync.Mutex
	log *[]string
}

func (h *handler) HandleMessage(m *tss.IncMessage) {
	sched.Yield()
	h.mu.Lock()
	*h.log = append(*h.log, string(m.Data))
	h.mu.Unlock()
}

type Result struct {
	Handed   []string            // hand-over log (message ids)
	Calls    map[string][2]int   // message id -> (call index, return index) in the harness' own order
	Sends    map[string][][2]int // topic -> call intervals of the Send calls
	Fwd      map[string][]int    // topic -> stamps at which ForwardSend was entered
	Trace    []string
	Deadlock bool
	Unfin    []string
	Pending  int // messages still buffered at the end (reflection), -1 unknown
	RaceFail bool
	// Residue: after every topic of the scenario was started at the end (a Send on each), what the
	// box still tracks: "charged <sender> <topic>" / "buffered <topic>"; nil if unknown
	Residue []string
}

func Run(c *harness.C, sc Scenario, r *explore.Recorder) *Result {
	res := &Result{Calls: map[string][2]int{}, Sends: map[string][][2]int{}, Fwd: map[string][]int{}, Pending: -1}
	var mu sync.Mutex
	var handed []string
	failedSub := false
	rec := c.Bubble(func() {
		tick := make(chan time.Time)
		var clk int
		var cmu sync.Mutex
		stamp := func() int { cmu.Lock(); defer cmu.Unlock(); clk++; return clk }
		maxTopics := sc.MaxTopics
		if maxTopics == 0 {
			maxTopics = 10000
		}
		box := &msg.Box{Logger: world.NopLogger{}, MaxInFlightTopicsBySender: maxTopics, GCSweep: 20 * time.Second, GCExpire: 2 * time.Minute,
			NewTicker: func(time.Duration) *time.Ticker { return &time.Ticker{C: tick} },
			ForwardSend: func(_ uint8, topic []byte, _ []byte, _ ...tss.UniversalID) {
				// the transport: Send's critical section is over when it is entered
				f := stamp()
				cmu.Lock()
				t := strings.TrimRight(string(topic), "\x00")
				res.Fwd[t] = append(res.Fwd[t], f)
				cmu.Unlock()
				sched.Yield()
			},
			MessageHandler: &handler{mu: &mu, log: &handed}}
		do := func(s Step) {
			switch s.Kind {
			case "R":
				a := stamp()
				box.HandleMessage(&tss.IncMessage{Data: []byte(s.ID), Source: s.Sender, MsgType: uint8(tss.MsgTypeMPC), Topic: topicBytes(s.Topic)})
				b := stamp()
				cmu.Lock()
				res.Calls[s.ID] = [2]int{a, b}
				cmu.Unlock()
			case "S":
				a := stamp()
				box.Send(uint8(tss.MsgTypeMPC), topicBytes(s.Topic), []byte("out"), 9)
				b := stamp()
				cmu.Lock()
				res.Sends[s.Topic] = append(res.Sends[s.Topic], [2]int{a, b})
				cmu.Unlock()
			case "burst":
				for i := 0; i < s.N; i++ {
					box.HandleMessage(&tss.IncMessage{Data: []byte(fmt.Sprintf("%s#%d", s.ID, i)), Source: s.Sender, MsgType: uint8(tss.MsgTypeMPC), Topic: topicBytes(s.Topic)})
				}
			case "tick":
				tick <- time.Time{}
			case "epoch":
				// the wall clock moves on by one sweep period, then the epoch clock ticks
				time.Sleep(20 * time.Second)
				tick <- time.Time{}
			}
		}
		// the clock goroutine exists only after first use: initialise the box with a harmless
		// message type so that scenario "tick" steps have a receiver
		if needsClock(sc) {
			box.Send(uint8(tss.MsgTypeMPC), topicBytes("init"), []byte("init"), 9)
		}
		for _, s := range sc.Pre {
			if s.Kind == "tick" {
				tick <- time.Time{}
				continue
			}
			do(s)
		}
		// let the wall clock move on, so that a later receive refreshes lastUsed
		time.Sleep(time.Second)
		s := sched.New()
		defer s.Close()
		for _, th := range sc.Threads {
			for _, st := range th {
				if st.Kind == "epoch" {
					// a thread asleep in virtual time is not a deadlock: let the scheduler advance far enough
					s.Quantum, s.Horizon = 20*time.Second, 400
				}
			}
		}
		for i, th := range sc.Threads {
			th := th
			s.Go(fmt.Sprintf("T%d", i), func() {
				for _, st := range th {
					do(st)
				}
			})
		}
		s.Run(r)
		res.Deadlock = s.Deadlock
		res.Unfin = s.WaitAll()
		res.Trace = s.Trace
		if Residue && len(res.Unfin) == 0 && !res.Deadlock {
			s.Close()
			topics := map[string]bool{}
			for _, th := range append([][]Step{sc.Pre}, sc.Threads...) {
				for _, st := range th {
					if st.Topic != "" {
						topics[st.Topic] = true
					}
				}
			}
			var ts []string
			for t := range topics {
				ts = append(ts, t)
			}
			sort.Strings(ts)
			for _, t := range ts {
				box.Send(uint8(tss.MsgTypeMPC), topicBytes(t), []byte("final"), 9)
			}
			res.Residue = []string{}
			if tf, ok := dump.Field(box, "totalInFlightTopicsBySender"); ok {
				it := tf.MapRange()
				for it.Next() {
					inner := it.Value().MapRange()
					for inner.Next() {
						res.Residue = append(res.Residue, fmt.Sprintf("charged %d %s", it.Key().Uint(), strings.TrimRight(inner.Key().String(), "\x00")))
					}
				}
			}
			if pm, ok := dump.Field(box, "pendingMessages"); ok {
				it := pm.MapRange()
				for it.Next() {
					res.Residue = append(res.Residue, "buffered "+strings.TrimRight(it.Key().String(), "\x00"))
				}
			}
			sort.Strings(res.Residue)
		}
		box.Stop()
	})
	_ = failedSub
	if rec != nil && !harness.IsLeakPanic(rec) {
		panic(rec)
	}
	mu.Lock()
	res.Handed = append([]string(nil), handed...)
	mu.Unlock()
	return res
}

func needsClock(sc Scenario) bool {
	for _, s := range sc.Pre {
		if s.Kind == "tick" {
			return true
		}
	}
	for _, th := range sc.Threads {
		for _, s := range th {
			if s.Kind == "tick" || s.Kind == "epoch" {
				return true
			}
		}
	}
	return false
}

// Residue switches the end-of-run bookkeeping inspection on (C15's thread-level family).
var Residue bool

// ResidueOracle: once every topic has started, nothing may stay charged or buffered. The class says
// whether a receive call of that sender on that topic overlapped a Send's critical section (the
// known check-then-act window) or not.
func ResidueOracle(sc Scenario, res *Result, rp Replay, report func(clause, sig, detail string)) {
	if res.Residue == nil {
		return
	}
	for _, r := range res.Residue {
		var sender uint16
		var topic string
		cls := "no-racing-send"
		if n, _ := fmt.Sscanf(r, "charged %d %s", &sender, &topic); n == 2 {
			for _, th := range append([][]Step{sc.Pre}, sc.Threads...) {
				for _, st := range th {
					if st.Kind == "R" && st.Sender == sender && st.Topic == topic {
						c := res.Calls[st.ID]
						for i, iv := range res.Sends[topic] {
							if iv[0] < c[1] && c[0] < iv[1] && !(i < len(res.Fwd[topic]) && c[0] > res.Fwd[topic][i]) {
								cls = "racing-send-receive-began-before-forward"
							}
						}
					}
				}
			}
		}
		kind := strings.SplitN(r, " ", 2)[0]
		mode := "concurrent"
		if len(sc.Threads) == 1 {
			mode = "sequential"
		}
		report("bookkeeping-released-once-started", "c15-"+kind+"-after-start:"+cls+":"+mode, fmt.Sprintf("scenario %s schedule %v: every topic was started at the end, yet the box still holds: %s", sc.Name, rp.Choices, r))
	}
}

type Replay struct {
	Scenario Scenario `json:"scenario"`
	Choices  []int    `json:"choices"`
}

// oracle: exactly-once and per-sender order. Returns an outcome class.
func Oracle(c *harness.C, sc Scenario, res *Result, rp Replay) string {
	return OracleCore(sc, res, rp, func(clause, sig, detail string) { c.Violation(clause, sig, detail, rp) })
}

func OracleCore(sc Scenario, res *Result, rp Replay, report func(clause, sig, detail string)) string {
	mode := "concurrent"
	if len(sc.Threads) == 1 {
		mode = "sequential"
	}
	bad := func(clause, sig, detail string) {
		report(clause, sig+":"+mode, fmt.Sprintf("scenario %s schedule %v: %s", sc.Name, rp.Choices, detail))
	}
	if res.Deadlock || len(res.Unfin) > 0 {
		bad("no-deadlock", "c14-deadlock", fmt.Sprintf("threads %v never finished", res.Unfin))
		return "deadlock"
	}
	cnt := map[string]int{}
	pos := map[string]int{}
	for i, id := range res.Handed {
		cnt[id]++
		pos[id] = i
	}
	// which topics were started by the end
	started := map[string]bool{}
	for _, s := range sc.Pre {
		if s.Kind == "S" {
			started[s.Topic] = true
		}
	}
	for _, th := range sc.Threads {
		for _, s := range th {
			if s.Kind == "S" {
				started[s.Topic] = true
			}
		}
	}
	var recv []Step
	for _, s := range sc.Pre {
		if s.Kind == "R" {
			recv = append(recv, s)
		}
	}
	for _, th := range sc.Threads {
		for _, s := range th {
			if s.Kind == "R" {
				recv = append(recv, s)
			}
		}
	}
	// did a Send on the message's topic overlap its receive call? (the known check-then-act window)
	// racing-send-receive-began-before-forward: the receive call began before that Send had left
	// its critical section (the known check-then-act window of storeOrForward against Send);
	// racing-send-receive-began-after-forward: it began when the topic was already marked started.
	racing := func(id, topic string) string {
		c := res.Calls[id]
		cls := "no-racing-send"
		for i, iv := range res.Sends[topic] {
			if iv[0] < c[1] && c[0] < iv[1] {
				if i < len(res.Fwd[topic]) && c[0] > res.Fwd[topic][i] {
					if cls == "no-racing-send" {
						cls = "racing-send-receive-began-after-forward"
					}
				} else {
					cls = "racing-send-receive-began-before-forward"
				}
			}
		}
		return cls
	}
	outcome := "ok"
	for _, s := range recv {
		switch {
		case cnt[s.ID] > 1:
			bad("exactly-once", "c14-duplicated", fmt.Sprintf("message %s handed over %d times", s.ID, cnt[s.ID]))
			outcome = "duplicated"
		case cnt[s.ID] == 0 && started[s.Topic]:
			// the topic has started, everything is quiescent, and the message was not handed over:
			// it sits in the buffer until some later Send on the topic (if any) - or is lost
			bad("exactly-once", "c14-not-handed-over-after-start:"+racing(s.ID, s.Topic), fmt.Sprintf("message %s for started topic %s was not handed over (parked until a next send, or lost)", s.ID, s.Topic))
			outcome = "parked-or-lost"
		}
	}
	// order: two messages of one sender and topic whose receive calls did not overlap
	for _, a := range recv {
		for _, b := range recv {
			if a.ID == b.ID || a.Sender != b.Sender || a.Topic != b.Topic || cnt[a.ID] != 1 || cnt[b.ID] != 1 {
				continue
			}
			ca, cb := res.Calls[a.ID], res.Calls[b.ID]
			if ca[1] < cb[0] && pos[a.ID] > pos[b.ID] {
				bad("arrival-order", "c14-reordered:"+racing(b.ID, b.Topic), fmt.Sprintf("message %s was received before %s (calls did not overlap) but handed over after it", a.ID, b.ID))
				outcome = "reordered"
			}
		}
	}
	return outcome
}

func R(id, topic string, sender uint16) Step {
	return Step{Kind: "R", ID: id, Topic: topic, Sender: sender}
}
func S(topic string) Step { return Step{Kind: "S", Topic: topic} }

// longLived: the local party sends on topic X once per epoch, for a number of epochs around and
// beyond the expiry of 6 epochs; the message arriving in every epoch (after that epoch's send) must
// be handed over, in order - the history ends right after such a message, for every length.
func longLived(epochs int) []Step {
	st := []Step{S("X")}
	for i := 0; i < epochs; i++ {
		st = append(st, Step{Kind: "tick"}, S("X"), R(fmt.Sprintf("m%02d", i), "X", 1), S("Y"))
	}
	return st
}

func Scenarios(thorough bool) []Scenario {
	b3 := 2
	if thorough {
		b3 = 3
	}
	// a held topic that stays in use: messages arrive 80 s apart (expiry: 120 s), an unrelated send
	// drives the collector, then the topic starts: every message must come out
	ep := func(n int) []Step {
		var st []Step
		for i := 0; i < n; i++ {
			st = append(st, Step{Kind: "epoch"})
		}
		return st
	}
	held := []Step{R("m1", "X", 1)}
	held = append(held, ep(4)...)
	held = append(held, R("m2", "X", 1))
	held = append(held, ep(4)...)
	held = append(held, S("Y"), R("m3", "X", 1), S("X"))
	var long []Scenario
	// a box that has been idle for n epochs (no send, hence no collector run), then a first send on
	// a topic and a message arriving afterwards: the topic stays started
	for _, n := range []int{5, 6, 7, 8, 12, 13} {
		var pre []Step
		for i := 0; i < n; i++ {
			pre = append(pre, Step{Kind: "tick"})
		}
		long = append(long, Scenario{Name: fmt.Sprintf("s14-idle-%d-epochs-then-first-send", n), Pre: pre, Threads: [][]Step{{R("m0", "X", 1), S("X"), R("m1", "X", 1), S("Y"), R("m2", "X", 1)}}, Bound: 0})
	}
	// many messages of several senders are held when the topic starts: each sender's messages come
	// out in the order they went in (more than a dozen elements, interleaved senders)
	for _, per := range []int{5, 10, 20} {
		var st []Step
		for i := 0; i < per; i++ {
			for sd := uint16(1); sd <= 3; sd++ {
				st = append(st, R(fmt.Sprintf("h%d-%02d", sd, i), "X", sd))
			}
		}
		st = append(st, S("X"), R("late", "X", 1))
		long = append(long, Scenario{Name: fmt.Sprintf("s15-held-3x%d-interleaved", per), Threads: [][]Step{st}, Bound: 0})
	}
	// the collector is due (box idle for seven epochs), one thread sends on X while the other lets
	// the clock tick, starts T and receives for T: whatever the collector of the first send sees,
	// a topic that has just started stays started
	{
		var pre []Step
		for i := 0; i < 7; i++ {
			pre = append(pre, Step{Kind: "tick"})
		}
		long = append(long, Scenario{Name: "s16-gc-due||tick;start;receive", Pre: pre, Threads: [][]Step{{S("X")}, {{Kind: "tick"}, S("T"), R("m1", "T", 1)}}, Bound: 3})
		long = append(long, Scenario{Name: "s16b-gc-due||tick;tick;start;receive", Pre: pre, Threads: [][]Step{{S("X"), S("X")}, {{Kind: "tick"}, {Kind: "tick"}, S("T"), R("m1", "T", 1)}}, Bound: 2})
	}
	// topics that a sender opened and that expired unstarted give their slots back: afterwards the
	// sender's next topic is buffered and handed over like any other (limit 1 and limit 2)
	for _, lim := range []int{1, 2} {
		var st []Step
		for i := 0; i <= lim; i++ {
			st = append(st, R(fmt.Sprintf("old%d", i), fmt.Sprintf("O%d", i), 1))
		}
		st = append(st, ep(8)...)
		st = append(st, S("Y"))
		st = append(st, ep(2)...)
		st = append(st, S("Y"), R("new1", "N", 1), R("new2", "N", 1), S("N"))
		long = append(long, Scenario{Name: fmt.Sprintf("s17-limit%d-expired-topics-give-their-slots-back", lim), MaxTopics: lim, Threads: [][]Step{st}, Bound: 0})
	}
	long = append(long, Scenario{Name: "s13-held-topic-in-use-survives-gc", Threads: [][]Step{held}, Bound: 0})
	for e := 5; e <= 20; e++ {
		long = append(long, Scenario{Name: fmt.Sprintf("s12-long-lived-topic-%d-epochs", e), Threads: [][]Step{longLived(e)}, Bound: 0})
	}
	return append(long, []Scenario{
		{Name: "1-R||S", Threads: [][]Step{{R("m1", "X", 1)}, {S("X")}}, Bound: 100},
		{Name: "2-RR||S", Threads: [][]Step{{R("m1", "X", 1), R("m2", "X", 1)}, {S("X")}}, Bound: 100},
		{Name: "3-R||R||S", Threads: [][]Step{{R("m1", "X", 1)}, {R("m2", "X", 2)}, {S("X")}}, Bound: b3},
		{Name: "4-R||S||Sother", Threads: [][]Step{{R("m1", "X", 1)}, {S("X")}, {S("Y")}}, Bound: b3},
		{Name: "5-R||SS", Threads: [][]Step{{R("m1", "X", 1)}, {S("X"), S("X")}}, Bound: 100},
		{Name: "6-RR2||S||S", Threads: [][]Step{{R("m1", "X", 1), R("m2", "Y", 1)}, {S("X")}, {S("Y")}}, Bound: b3},
		{Name: "7-tick-R||S||Sother", Pre: []Step{{Kind: "tick"}}, Threads: [][]Step{{R("m1", "X", 1)}, {S("X")}, {S("Y")}}, Bound: b3},
		{Name: "s1-R;S", Threads: [][]Step{{R("m1", "X", 1), S("X")}}, Bound: 0},
		{Name: "s2-S;R", Threads: [][]Step{{S("X"), R("m1", "X", 1)}}, Bound: 0},
		{Name: "s3-R;R;S;R", Threads: [][]Step{{R("m1", "X", 1), R("m2", "X", 1), S("X"), R("m3", "X", 1)}}, Bound: 0},
		{Name: "s4-R;R2;Sother;S;S", Threads: [][]Step{{R("m1", "X", 1), R("m2", "X", 2), S("Y"), S("X"), S("X")}}, Bound: 0},
		{Name: "s6-burst101;Rother;S", Threads: [][]Step{{{Kind: "burst", ID: "b", Topic: "X", Sender: 1, N: 101}, R("m1", "X", 2), R("m2", "X", 2), S("X")}}, Bound: 0},
		{Name: "s7-burst99;R;R;S", Threads: [][]Step{{{Kind: "burst", ID: "b", Topic: "X", Sender: 1, N: 99}, R("m1", "X", 1), R("m2", "X", 2), S("X")}}, Bound: 0},
		{Name: "14-Rnew||Rnew;S", Threads: [][]Step{{R("m1", "X", 1)}, {R("m2", "X", 2), S("X")}}, Bound: 100},
		{Name: "s8-limit1-(R;S)x4", MaxTopics: 1, Threads: [][]Step{{R("m1", "A", 1), S("A"), R("m2", "B", 1), S("B"), R("m3", "C", 1), S("C"), R("m4", "D", 1), S("D")}}, Bound: 0},
		{Name: "s9-limit1-two-senders", MaxTopics: 1, Threads: [][]Step{{R("m1", "A", 1), R("n1", "A", 2), S("A"), R("m2", "B", 1), R("n2", "B", 2), S("B"), R("m3", "C", 1), R("n3", "C", 2), S("C")}}, Bound: 0},
		{Name: "s10-limit1-RR;S", MaxTopics: 1, Threads: [][]Step{{R("m1", "A", 1), R("m2", "A", 1), S("A")}}, Bound: 0},
		{Name: "s11-limit3-exactly-at-limit", MaxTopics: 3, Threads: [][]Step{{R("m1", "A", 1), R("m2", "B", 1), R("m3", "C", 1), R("m4", "A", 1), R("m5", "B", 1), R("m6", "C", 1), S("A"), S("B"), S("C")}}, Bound: 0},
		{Name: "s5-tick-R;S", Pre: []Step{{Kind: "tick"}}, Threads: [][]Step{{R("m1", "X", 1), S("X")}}, Bound: 0},
		{Name: "13-Rnew||Sother", Threads: [][]Step{{R("m1", "Z", 1)}, {S("X")}}, Bound: 100},
		{Name: "10-gc-stored-R||Sother", Pre: []Step{R("m0", "Z", 1)}, Threads: [][]Step{{R("m1", "Z", 1)}, {S("X")}}, Bound: 100},
		{Name: "11-tick||S||R", Threads: [][]Step{{{Kind: "tick"}}, {S("X")}, {R("m1", "X", 1)}}, Bound: b3},
		{Name: "12-tick||S;Sother", Pre: []Step{R("m0", "Z", 1)}, Threads: [][]Step{{{Kind: "tick"}}, {S("X"), S("Y")}}, Bound: 100},
		{Name: "15-known-sender-R||R", Pre: []Step{R("m0", "Z", 1)}, Threads: [][]Step{{R("m1", "X", 1)}, {R("m2", "Y", 1)}}, Bound: 2},
		{Name: "14-stored-S||S", Pre: []Step{R("m0", "X", 1), R("m1", "X", 2)}, Threads: [][]Step{{S("X")}, {S("X"), R("m2", "X", 1)}}, Bound: 100},
		{Name: "8-stored-R||S", Pre: []Step{R("m0", "X", 1)}, Threads: [][]Step{{R("m1", "X", 1)}, {S("X")}}, Bound: 100},
		{Name: "9-stored-RR||S", Pre: []Step{R("m0", "X", 1)}, Threads: [][]Step{{R("m1", "X", 1), R("m2", "X", 1)}, {S("X")}}, Bound: 100},
	}...)
}
