package c18

import (
	"crypto/rand"
	"fmt"

	"github.com/IBM/TSS/mpc/ps"
	math "github.com/IBM/mathlib"
	"verif/cryptolib"
	"verif/harness"
)

// Dealing at sizes that a full DKG cannot afford: the exported dealer (SSS.Gen) is asked for n
// shares of a fresh degree-(t-1) polynomial; every share must be the value of the returned
// polynomial at its evaluation point (independent Horner evaluation mod q), and the first t, the
// last t and a strided t-subset must reconstruct the dealt secret with textbook Lagrange
// coefficients (that the library's coefficients are the textbook ones is what the DKG-based cells
// and, for BLS, the aggregation below establish).

var cv = cryptolib.Curve

func horner(coeffs []*math.Zr, x int) *math.Zr {
	acc := cv.NewZrFromInt(0)
	X := cv.NewZrFromInt(int64(x))
	for i := len(coeffs) - 1; i >= 0; i-- {
		acc = cv.ModAdd(cv.ModMul(acc, X, cv.GroupOrder), coeffs[i], cv.GroupOrder)
	}
	return acc
}

func lagrange0(i int, pts []int) *math.Zr {
	num, den := cv.NewZrFromInt(1), cv.NewZrFromInt(1)
	for _, j := range pts {
		if j == i {
			continue
		}
		num = cv.ModMul(num, cv.NewZrFromInt(int64(j)), cv.GroupOrder)
		den = cv.ModMul(den, cv.ModSub(cv.NewZrFromInt(int64(j)), cv.NewZrFromInt(int64(i)), cv.GroupOrder), cv.GroupOrder)
	}
	den.InvModP(cv.GroupOrder)
	return cv.ModMul(num, den, cv.GroupOrder)
}

func dealSubsets(n, t int) [][]int {
	first, last, stride := make([]int, t), make([]int, t), make([]int, 0, t)
	for i := 0; i < t; i++ {
		first[i] = i + 1
		last[i] = n - t + 1 + i
	}
	for i := 0; i < t; i++ {
		stride = append(stride, 1+(i*(n-1))/max(t-1, 1))
	}
	out := [][]int{first, last}
	seen := map[int]bool{}
	ok := true
	for _, x := range stride {
		if seen[x] {
			ok = false
		}
		seen[x] = true
	}
	if ok {
		out = append(out, stride)
	}
	return out
}

func psDeal(n, t int) ([]*math.Zr, []*math.Zr) {
	s := &ps.SSS{Threshold: t}
	p, sh := s.Gen(n, rand.Reader)
	return []*math.Zr(p), []*math.Zr(sh)
}

type dealer struct {
	be   string
	deal func(n, t int) ([]*math.Zr, []*math.Zr)
}

func dealCase(d dealer, n int) harness.Case {
	return harness.Case{ID: fmt.Sprintf("deal/%s%s/n%d", buildPrefix, d.be, n), Run: func(c *harness.C) {
		for t := 2; t <= n; t++ {
			if n > 48 && t > 14 {
				break
			}
			c.Exec(fmt.Sprintf("[deal] %s n=%d t=%d", d.be, n, t))
			coeffs, shares := d.deal(n, t)
			c.Add("executions", 1)
			rp := map[string]interface{}{"backend": d.be, "n": n, "t": t}
			if len(coeffs) != t || len(shares) != n {
				c.Violation("dealt-shape", "c18-deal-shape:"+d.be, fmt.Sprintf("%s dealer n=%d t=%d returned %d coefficients and %d shares", d.be, n, t, len(coeffs), len(shares)), rp)
				continue
			}
			bad := false
			for x := 1; x <= n && !bad; x++ {
				c.Add("evaluations", 1)
				if !shares[x-1].Equals(horner(coeffs, x)) {
					c.Violation("shares-on-dealt-polynomial", "c18-share-off-dealt-polynomial:"+d.be, fmt.Sprintf("%s dealer n=%d t=%d: the share for evaluation point %d is not the value of the dealt polynomial there", d.be, n, t, x), rp)
					bad = true
				}
			}
			for _, sub := range dealSubsets(n, t) {
				if bad {
					break
				}
				acc := cv.NewZrFromInt(0)
				for _, i := range sub {
					acc = cv.ModAdd(acc, cv.ModMul(shares[i-1], lagrange0(i, sub), cv.GroupOrder), cv.GroupOrder)
				}
				c.Add("evaluations", 1)
				if !acc.Equals(horner(coeffs, 0)) {
					c.Violation("any-t-shares-reconstruct", "c18-dealt-shares-do-not-reconstruct:"+d.be, fmt.Sprintf("%s dealer n=%d t=%d: shares of points %v do not reconstruct the dealt secret", d.be, n, t, sub), rp)
					bad = true
				}
			}
			if !bad {
				if err := d.extra(c, n, t, coeffs, shares); err != nil {
					c.Violation("any-t-shares-reconstruct", "c18-library-aggregation-at-scale:"+d.be, fmt.Sprintf("%s n=%d t=%d: %v", d.be, n, t, err), rp)
				}
			}
			c.Outcome(fmt.Sprintf("deal|%s|%d|%d", d.be, n, t))
		}
	}}
}

func (d dealer) extra(c *harness.C, n, t int, coeffs, shares []*math.Zr) error {
	if d.be == "bls" {
		return blsAggregateAtScale(c, n, t, coeffs, shares)
	}
	return nil
}

func dealCases(c *harness.C) []harness.Case {
	ns := []int{2, 3, 5, 8, 12, 16, 17, 18, 19, 20, 21, 24, 28, 32, 40, 64, 128, 255}
	if c.Thorough() {
		ns = nil
		for n := 2; n <= 48; n++ {
			ns = append(ns, n)
		}
		ns = append(ns, 64, 100, 128, 200, 255, 256, 1000)
	}
	ds := []dealer{{"ps", psDeal}}
	if haveBLS {
		ds = append(ds, dealer{"bls", blsDeal})
	}
	var out []harness.Case
	for _, d := range ds {
		for _, n := range ns {
			out = append(out, dealCase(d, n))
		}
	}
	return out
}
