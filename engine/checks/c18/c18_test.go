package c18

import (
	"bytes"
	"context"
	"crypto/sha256"
	"encoding/asn1"
	"fmt"
	"testing"
	"time"

	"github.com/IBM/TSS/mpc/ps"
	tss "github.com/IBM/TSS/types"
	"verif/cryptolib"
	"verif/harness"
	"verif/world"
)

type cfg struct {
	be   string
	n, t int
	ids  []uint16 // the committee as listed to Init, if not 1..n
}

func (k cfg) String() string {
	if k.ids != nil {
		return fmt.Sprintf("%s%s/n%dt%d/ids%v", buildPrefix, k.be, k.n, k.t, k.ids)
	}
	return fmt.Sprintf("%s%s/n%dt%d", buildPrefix, k.be, k.n, k.t)
}

// otherKey: a well-formed public key unrelated to the real one (consistent commit + reveal).
func otherKey(be string) []byte {
	g := func(seed byte) []byte {
		return cryptolib.Curve.GenG2.Mul(cryptolib.Curve.HashToZr([]byte{seed, 'k'})).Bytes()
	}
	if be == "ps" {
		var pk ps.PK
		_ = pk
		return psKey(g(1), g(2), g(3))
	}
	return g(1)
}

func psKey(x []byte, ys ...[]byte) []byte {
	return marshalXYs(ps.XYs{X: x, Ys: ys})
}

// offPolynomial: party dev commits to and reveals a key that matches its commitment but is not
// the key of its share.
func offPolynomial(be string, dev uint16) cryptolib.SendHook {
	key := otherKey(be)
	return func(from uint16, msg []byte, bc bool, to uint16) []byte {
		if from != dev || len(msg) == 0 {
			return msg
		}
		switch msg[0] {
		case 2:
			h := sha256.Sum256(key)
			return append([]byte{2}, h[:]...)
		case 3:
			return append([]byte{3}, key...)
		}
		return msg
	}
}

// componentShifter: the deviator commits to and reveals its own genuine key with ONE component moved
// off the common polynomial (component "X", "Y0", "Ylast"; BLS: the key itself). Its commitment is
// held back until its key is known (the instance reveals once it holds the others' commitments),
// then H(key') and key' are sent in order: commitment and reveal are consistent.
type componentShifter struct {
	tss.KeyGenerator
	be, comp string
}

func shiftG2(b []byte) []byte {
	g, err := cryptolib.Curve.NewG2FromBytes(b)
	if err != nil {
		return b
	}
	g.Add(cryptolib.Curve.GenG2)
	return g.Bytes()
}

func (s *componentShifter) mutate(key []byte) []byte {
	if s.be != "ps" {
		return shiftG2(key)
	}
	var x ps.XYs
	if _, err := asn1.Unmarshal(key, &x); err != nil || len(x.Ys) == 0 {
		return key
	}
	switch s.comp {
	case "X":
		x.X = shiftG2(x.X)
	case "Y0":
		x.Ys[0] = shiftG2(x.Ys[0])
	case "Ylast":
		x.Ys[len(x.Ys)-1] = shiftG2(x.Ys[len(x.Ys)-1])
	}
	return marshalXYs(x)
}

func (s *componentShifter) Init(parties []uint16, threshold int, sendMsg func(msg []byte, isBroadcast bool, to uint16)) {
	s.KeyGenerator.Init(parties, threshold, func(msg []byte, isBroadcast bool, to uint16) {
		if len(msg) > 0 && msg[0] == 2 {
			return // held back until the key is known
		}
		if len(msg) > 0 && msg[0] == 3 {
			key := s.mutate(msg[1:])
			h := sha256.Sum256(key)
			sendMsg(append([]byte{2}, h[:]...), true, 0)
			sendMsg(append([]byte{3}, key...), true, 0)
			return
		}
		sendMsg(msg, isBroadcast, to)
	})
}

func verifySubsetPS(k cfg, shares map[uint16][]byte, c *harness.C) (cl string, err error) {
	defer func() {
		if r := recover(); r != nil {
			cl, err = "panic", fmt.Errorf("panic: %v", r)
		}
	}()
	signers, err := cryptolib.PSSigners(k.n, k.t, 1, shares)
	if err != nil {
		return "share-unusable", err
	}
	var pk0 []byte
	for _, id := range cryptolib.IDs(k.n) {
		pk, err := signers[id].ThresholdPK()
		if err != nil {
			return "pk", err
		}
		if pk0 == nil {
			pk0 = pk
		} else if !bytes.Equal(pk, pk0) {
			return "public-material-differs", fmt.Errorf("party %d reports different public material", id)
		}
	}
	var pr ps.Prover
	pr.Logger = world.NopLogger{}
	if err := pr.Init(cryptolib.Curve, 1, pk0, cryptolib.IDs(k.n)); err != nil {
		return "prover-init", err
	}
	var v ps.Verifier
	if err := v.Init(cryptolib.Curve, 1, pk0); err != nil {
		return "verifier-init", err
	}
	req, secret := pr.Blind([][]byte{[]byte("c18")})
	wit := map[uint16]ps.SignatureWitness{}
	for _, id := range cryptolib.IDs(k.n) {
		sig, err := signers[id].Sign(context.Background(), req.Bytes())
		if err != nil {
			return "sign", err
		}
		w, err := pr.UnBlind(id, sig, &secret)
		if err != nil {
			return "unblind", fmt.Errorf("signer %d: %v", id, err)
		}
		wit[id] = w
	}
	for _, sub := range cryptolib.Subsets(cryptolib.IDs(k.n), k.t, k.n) {
		var ws []ps.SignatureWitness
		for _, id := range sub {
			ws = append(ws, wit[id])
		}
		pok := pr.ProveKnowledgeOfSignature(&secret, sub, ws)
		err := v.Verify(pok.Bytes())
		c.Add("evaluations", 1)
		if err != nil {
			return "subset-does-not-reconstruct", fmt.Errorf("subset %v: %v", sub, err)
		}
		c.Outcome(fmt.Sprintf("%v|%v", k, sub))
		if len(sub) >= 2 {
			for _, perm := range [][]int{reverseIdx(len(sub)), rotateIdx(len(sub))} {
				var s2 []uint16
				var w2 []ps.SignatureWitness
				for _, i := range perm {
					s2 = append(s2, sub[i])
					w2 = append(w2, ws[i])
				}
				pok2 := pr.ProveKnowledgeOfSignature(&secret, s2, w2)
				c.Add("evaluations", 1)
				if err := v.Verify(pok2.Bytes()); err != nil {
					return "subset-does-not-reconstruct:point-order", fmt.Errorf("points listed as %v: %v", s2, err)
				}
			}
		}
	}
	return "", nil
}

func reverseIdx(n int) []int {
	out := make([]int, n)
	for i := range out {
		out[i] = n - 1 - i
	}
	return out
}

func rotateIdx(n int) []int {
	out := make([]int, n)
	for i := range out {
		out[i] = (i + 1) % n
	}
	return out
}

func algebraCase(k cfg, reps int) harness.Case {
	return harness.Case{ID: "algebra/" + k.String(), Run: func(c *harness.C) {
		if k.ids != nil {
			cryptolib.Parties = k.ids
			defer func() { cryptolib.Parties = nil }()
		}
		for rep := 0; rep < reps; rep++ {
			c.Exec(fmt.Sprintf("[algebra] %v rep %d", k, rep))
			shares, errs := cryptolib.DKG(k.be, k.n, k.t, 1, nil, 20*time.Second)
			c.Add("executions", 1)
			for id, e := range errs {
				if e != nil {
					c.Violation("on-polynomial-accepted", "c18-honest-dkg-fails:"+k.be, fmt.Sprintf("%v: party %d: %v", k, id, e), map[string]interface{}{"cfg": k.String()})
					return
				}
			}
			var cl string
			var err error
			if k.be == "bls" {
				cl, err = verifySubsetBLS(k, shares, c, c.Seed+int64(rep))
			} else {
				cl, err = verifySubsetPS(k, shares, c)
			}
			if err != nil {
				c.Violation("any-t-shares-reconstruct", "c18-"+cl+":"+k.be, fmt.Sprintf("%v: %v", k, err), map[string]interface{}{"cfg": k.String()})
				return
			}
		}
		c.Sample("algebra", map[string]interface{}{"cfg": k.String(), "polynomials": reps})
	}}
}

// offLastCase: committees for which the number of t-subsets exceeds a thousand (where an
// implementation may be tempted to thin out the cross-check): a key off the polynomial at the last,
// the first and a middle position is still detected by everybody.
func offLastCase(k cfg) harness.Case {
	return harness.Case{ID: "off-polynomial/many-subsets/" + k.String(), Run: func(c *harness.C) {
		all := cryptolib.IDs(k.n)
		for _, dev := range []uint16{all[k.n-1], all[0], all[k.n/2]} {
			c.Exec(fmt.Sprintf("[off-polynomial] %v dev %d (many subsets)", k, dev))
			_, errs := cryptolib.DKG(k.be, k.n, k.t, 1, offPolynomial(k.be, dev), 300*time.Second)
			c.Add("executions", 1)
			c.Add("evaluations", 1)
			for id, e := range errs {
				if id != dev && e == nil {
					c.Violation("off-polynomial-detected", "c18-off-polynomial-key-accepted:"+k.be, fmt.Sprintf("%v: party %d accepted although the key of party %d is off the common polynomial", k, id, dev), map[string]interface{}{"cfg": k.String(), "dev": dev})
					break
				}
			}
			c.Outcome(fmt.Sprintf("off-many|%v|%d", k, dev))
		}
	}}
}

func offCase(k cfg) harness.Case {
	return harness.Case{ID: "off-polynomial/" + k.String(), Run: func(c *harness.C) {
		// one component of the deviator's genuine key off the polynomial, at every position
		comps := []string{"key"}
		if k.be == "ps" {
			comps = []string{"X", "Y0", "Ylast"}
		}
		for _, comp := range comps {
			for _, dev := range cryptolib.IDs(k.n) {
				c.Exec(fmt.Sprintf("[off-polynomial] %v dev %d component %s", k, dev, comp))
				_, errs := cryptolib.DKGWrap(k.be, k.n, k.t, 1, nil, func(id uint16, kg tss.KeyGenerator) tss.KeyGenerator {
					if id == dev {
						return &componentShifter{KeyGenerator: kg, be: k.be, comp: comp}
					}
					return kg
				}, 20*time.Second)
				c.Add("executions", 1)
				c.Add("evaluations", 1)
				for id, e := range errs {
					if id != dev && e == nil {
						c.Violation("off-polynomial-detected", "c18-off-polynomial-component-accepted:"+k.be+":"+comp, fmt.Sprintf("%v: party %d accepted although component %s of the key of party %d is off the common polynomial (commitment and reveal consistent)", k, id, comp, dev), map[string]interface{}{"cfg": k.String(), "dev": dev, "component": comp})
						break
					}
				}
				c.Outcome(fmt.Sprintf("off|%v|%d|%s", k, dev, comp))
			}
		}
		for _, dev := range cryptolib.IDs(k.n) {
			c.Exec(fmt.Sprintf("[off-polynomial] %v dev %d", k, dev))
			_, errs := cryptolib.DKG(k.be, k.n, k.t, 1, offPolynomial(k.be, dev), 20*time.Second)
			c.Add("executions", 1)
			c.Add("evaluations", 1)
			for id, e := range errs {
				if id != dev && e == nil {
					c.Violation("off-polynomial-detected", "c18-off-polynomial-key-accepted:"+k.be, fmt.Sprintf("%v: party %d accepted although the key of party %d is off the common polynomial", k, id, dev), map[string]interface{}{"cfg": k.String(), "dev": dev})
					break
				}
			}
			c.Outcome(fmt.Sprintf("off|%v|%d", k, dev))
		}
		c.Sample("off-polynomial", map[string]interface{}{"cfg": k.String(), "positions": k.n})
	}}
}

// rekeyCase: the same instances run several key generations one after the other (Init + KeyGen again):
// an honest one, then one per position with an off-polynomial key (which every honest instance must
// refuse, as in a first run), then an honest one whose shares must reconstruct under its own key.
func rekeyCase(k cfg) harness.Case {
	return harness.Case{ID: "rekey/" + k.String(), Run: func(c *harness.C) {
		c.Exec(fmt.Sprintf("[rekey] %v", k))
		inst := cryptolib.Instances(k.be, k.n, 1)
		parties := cryptolib.IDs(k.n)
		rp := map[string]interface{}{"cfg": k.String(), "rekey": true}
		_, errs := cryptolib.DKGOn(inst, parties, k.t, nil, 20*time.Second)
		c.Add("executions", 1)
		for id, e := range errs {
			if e != nil {
				c.Violation("on-polynomial-accepted", "c18-honest-dkg-fails:"+k.be, fmt.Sprintf("%v: first key generation: party %d: %v", k, id, e), rp)
				return
			}
		}
		if k.t < k.n {
			for _, dev := range parties {
				_, errs := cryptolib.DKGOn(inst, parties, k.t, offPolynomial(k.be, dev), 20*time.Second)
				c.Add("executions", 1)
				c.Add("evaluations", 1)
				for id, e := range errs {
					if id != dev && e == nil {
						c.Violation("off-polynomial-detected", "c18-off-polynomial-key-accepted-when-re-keying:"+k.be, fmt.Sprintf("%v: a later key generation on the same objects: party %d accepted although the key of party %d is off the common polynomial", k, id, dev), rp)
						return
					}
				}
			}
		}
		shares, errs := cryptolib.DKGOn(inst, parties, k.t, nil, 20*time.Second)
		c.Add("executions", 1)
		for id, e := range errs {
			if e != nil {
				c.Violation("on-polynomial-accepted", "c18-honest-re-keying-fails:"+k.be, fmt.Sprintf("%v: honest key generation after earlier ones on the same objects: party %d: %v", k, id, e), rp)
				return
			}
		}
		var cl string
		var err error
		if k.be == "bls" {
			cl, err = verifySubsetBLS(k, shares, c, c.Seed)
		} else {
			cl, err = verifySubsetPS(k, shares, c)
		}
		if err != nil {
			c.Violation("any-t-shares-reconstruct", "c18-"+cl+"-after-re-keying:"+k.be, fmt.Sprintf("%v: shares of a later key generation on the same objects: %v", k, err), rp)
		}
		c.Outcome("rekey|" + k.String())
	}}
}

func gen(c *harness.C) []harness.Case {
	c.Note("rule", "public API only: for every (n,t) up to the bound a real DKG among n instances (synchronous wiring), every subset of size >= t aggregated by Verifier/Prover must verify under the reported key, every subset of size t-1 must not (BLS); for every position a consistently committed key off the polynomial must make every honest instance abort (t<n); 3 fresh polynomials per cell; distinct_nontrivial = distinct (cell, subset) and (cell, position)")
	maxN, maxPS := 8, 4
	if c.Thorough() {
		maxN, maxPS = 10, 5
	}
	var cases []harness.Case
	cases = append(cases, dealCases(c)...)
	for _, nt := range [][2]int{{3, 2}, {4, 2}, {4, 3}, {3, 3}} {
		if haveBLS {
			cases = append(cases, rekeyCase(cfg{be: "bls", n: nt[0], t: nt[1]}))
		}
		if nt[0] <= 3 || c.Thorough() {
			cases = append(cases, rekeyCase(cfg{be: "ps", n: nt[0], t: nt[1]}))
		}
	}
	if haveBLS {
		cases = append(cases, offLastCase(cfg{be: "bls", n: 14, t: 4})) // C(14,4) = 1001
		if c.Thorough() {
			cases = append(cases, offLastCase(cfg{be: "bls", n: 13, t: 5}), offLastCase(cfg{be: "bls", n: 16, t: 4}))
		}
	}
	// an off-polynomial key at the last position x the deadline landing at every look at the context
	for _, nt := range [][2]int{{3, 2}, {4, 2}, {5, 2}, {5, 3}, {4, 3}} {
		if haveBLS {
			cases = append(cases, deadlineSweepCase(cfg{be: "bls", n: nt[0], t: nt[1]}))
		}
		if nt[0] <= 4 || c.Thorough() {
			cases = append(cases, deadlineSweepCase(cfg{be: "ps", n: nt[0], t: nt[1]}))
		}
	}
	// committees that are not 1..n in ascending order: permuted, sparse, both
	for _, ids := range [][]uint16{{3, 1, 2}, {2, 3, 1}, {20, 7, 12}, {5, 7, 9}, {4, 2, 1, 3}, {300, 7, 2, 41}} {
		for t := 2; t <= len(ids); t++ {
			if !c.Thorough() && t != 2 && t != len(ids) {
				continue
			}
			if haveBLS {
				cases = append(cases, algebraCase(cfg{"bls", len(ids), t, ids}, 1))
			}
			if len(ids) <= 3 || c.Thorough() {
				cases = append(cases, algebraCase(cfg{"ps", len(ids), t, ids}, 1))
			}
		}
	}
	for n := 2; n <= maxN; n++ {
		for t := 2; t <= n; t++ {
			reps := 3
			if n >= 8 {
				reps = 1
			}
			if haveBLS {
				cases = append(cases, algebraCase(cfg{be: "bls", n: n, t: t}, reps))
				if t < n {
					cases = append(cases, offCase(cfg{be: "bls", n: n, t: t}))
				}
			}
			if n <= maxPS {
				cases = append(cases, algebraCase(cfg{be: "ps", n: n, t: t}, 2))
				if t < n {
					cases = append(cases, offCase(cfg{be: "ps", n: n, t: t}))
				}
			} else if n <= maxPS+3 && t < n && (t == 2 || t == n/2) {
				// every position of an off-polynomial key also for sizes where the first and the last
				// t-subset do not cover all parties (n >= 2t+1)
				cases = append(cases, offCase(cfg{be: "ps", n: n, t: t}))
			}
		}
	}
	return cases
}

func TestCheck(t *testing.T) { harness.Main(t, "C18", gen) }
