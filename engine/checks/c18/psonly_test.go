//go:build psonly

package c18

import (
	"fmt"

	math "github.com/IBM/mathlib"

	"verif/harness"
)

// this build compiles mpc/ps against the mathlib version of its own go.mod; mpc/bls is not linked
const haveBLS = false
const buildPrefix = "psown-"

func verifySubsetBLS(k cfg, shares map[uint16][]byte, c *harness.C, seed int64) (string, error) {
	return "not-linked", fmt.Errorf("BLS not linked into the PS-only build")
}

func blsDeal(n, t int) ([]*math.Zr, []*math.Zr) { return nil, nil }

func blsAggregateAtScale(c *harness.C, n, t int, coeffs, shares []*math.Zr) error { return nil }
