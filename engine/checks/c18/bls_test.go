//go:build !psonly

package c18

import (
	"bytes"
	"crypto/rand"
	"crypto/sha256"
	"encoding/asn1"
	"fmt"

	math "github.com/IBM/mathlib"

	"github.com/IBM/TSS/mpc/bls"
	"verif/cryptolib"
	"verif/harness"
)

const haveBLS = true
const buildPrefix = ""

func verifySubsetBLS(k cfg, shares map[uint16][]byte, c *harness.C, seed int64) (string, error) {
	signers, err := cryptolib.BLSSigners(k.n, k.t, shares)
	if err != nil {
		return "share-unusable", err
	}
	var pk0 []byte
	for _, id := range cryptolib.IDs(k.n) {
		pk, err := signers[id].ThresholdPK()
		if err != nil {
			return "pk", err
		}
		if pk0 == nil {
			pk0 = pk
		} else if !bytes.Equal(pk, pk0) {
			return "public-material-differs", fmt.Errorf("party %d reports different public material", id)
		}
	}
	var v bls.Verifier
	if err := v.Init(pk0); err != nil {
		return "verifier-init", err
	}
	d := sha256.Sum256([]byte(fmt.Sprint("c18", seed)))
	for _, sub := range cryptolib.Subsets(cryptolib.IDs(k.n), k.t, k.n) {
		var sigs [][]byte
		for _, id := range sub {
			sg, _ := signers[id].Sign(nil, d[:])
			sigs = append(sigs, sg)
		}
		agg, err := v.AggregateSignatures(sigs, sub)
		if err == nil {
			err = v.Verify(d[:], agg)
		}
		c.Add("evaluations", 1)
		if err != nil {
			return "subset-does-not-reconstruct", fmt.Errorf("subset %v: %v", sub, err)
		}
		c.Outcome(fmt.Sprintf("%v|%v", k, sub))
		// the same set of points listed in another order (shares permuted consistently)
		if len(sub) >= 2 {
			for _, perm := range [][]int{reverseIdx(len(sub)), rotateIdx(len(sub))} {
				var s2 []uint16
				var g2 [][]byte
				for _, i := range perm {
					s2 = append(s2, sub[i])
					g2 = append(g2, sigs[i])
				}
				agg, err := v.AggregateSignatures(g2, s2)
				if err == nil {
					err = v.Verify(d[:], agg)
				}
				c.Add("evaluations", 1)
				if err != nil {
					return "subset-does-not-reconstruct:point-order", fmt.Errorf("points listed as %v: %v", s2, err)
				}
			}
		}
	}
	// fewer than t shares must not reconstruct
	if k.t > 1 {
		for _, sub := range cryptolib.Subsets(cryptolib.IDs(k.n), k.t-1, k.t-1) {
			var sigs [][]byte
			for _, id := range sub {
				sg, _ := signers[id].Sign(nil, d[:])
				sigs = append(sigs, sg)
			}
			if len(sub) < 2 {
				continue // a single evaluation point has no Lagrange coefficient (library panics by design)
			}
			agg, err := v.AggregateSignatures(sigs, sub)
			if err == nil {
				err = v.Verify(d[:], agg)
			}
			c.Add("evaluations", 1)
			if err == nil {
				return "fewer-than-t-reconstruct", fmt.Errorf("subset %v of size t-1 produced a verifying signature", sub)
			}
		}
	}
	return "", nil
}

func blsDeal(n, t int) ([]*math.Zr, []*math.Zr) {
	s := &bls.SSS{Threshold: t}
	p, sh := s.Gen(n, rand.Reader)
	return []*math.Zr(p), []*math.Zr(sh)
}

// blsAggregateAtScale: the library's own Lagrange aggregation (Verifier.AggregateSignatures) on
// "signatures" P*share_i of the dealt shares must give P*secret, for the first, last and strided
// t-subsets, in ascending and in descending order.
func blsAggregateAtScale(c *harness.C, n, t int, coeffs, shares []*math.Zr) error {
	var pp bls.PublicParams
	for i := 1; i <= n; i++ {
		pp.Parties = append(pp.Parties, i)
	}
	pp.ThresholdPK = cv.GenG2.Mul(coeffs[0]).Bytes()
	raw, err := asn1.Marshal(pp)
	if err != nil {
		return err
	}
	var v bls.Verifier
	if err := v.Init(raw); err != nil {
		return err
	}
	P := cv.HashToG1([]byte("c18-scale"))
	want := P.Mul(coeffs[0]).Bytes()
	for _, sub := range dealSubsets(n, t) {
		for _, rev := range []bool{false, true} {
			var sigs [][]byte
			var who []uint16
			for k := range sub {
				i := sub[k]
				if rev {
					i = sub[len(sub)-1-k]
				}
				sigs = append(sigs, P.Mul(shares[i-1]).Bytes())
				who = append(who, uint16(i))
			}
			got, err := v.AggregateSignatures(sigs, who)
			c.Add("evaluations", 1)
			if err != nil {
				return err
			}
			if !bytes.Equal(got, want) {
				return fmt.Errorf("aggregation over points %v (reversed=%v) does not give the signature of the dealt secret", sub, rev)
			}
		}
	}
	return nil
}
