//go:build !psonly

package c18

import (
	"bytes"
	"crypto/sha256"
	"fmt"

	"github.com/IBM/TSS/mpc/bls"
	"verif/cryptolib"
	"verif/harness"
)

const haveBLS = true
const buildPrefix = ""

func verifySubsetBLS(k cfg, shares map[uint16][]byte, c *harness.C, seed int64) (string, error) {
	signers, err := cryptolib.BLSSigners(k.n, k.t, shares)
	if err != nil {
		return "share-unusable", err
	}
	var pk0 []byte
	for _, id := range cryptolib.IDs(k.n) {
		pk, err := signers[id].ThresholdPK()
		if err != nil {
			return "pk", err
		}
		if pk0 == nil {
			pk0 = pk
		} else if !bytes.Equal(pk, pk0) {
			return "public-material-differs", fmt.Errorf("party %d reports different public material", id)
		}
	}
	var v bls.Verifier
	if err := v.Init(pk0); err != nil {
		return "verifier-init", err
	}
	d := sha256.Sum256([]byte(fmt.Sprint("c18", seed)))
	for _, sub := range cryptolib.Subsets(cryptolib.IDs(k.n), k.t, k.n) {
		var sigs [][]byte
		for _, id := range sub {
			sg, _ := signers[id].Sign(nil, d[:])
			sigs = append(sigs, sg)
		}
		agg, err := v.AggregateSignatures(sigs, sub)
		if err == nil {
			err = v.Verify(d[:], agg)
		}
		c.Add("evaluations", 1)
		if err != nil {
			return "subset-does-not-reconstruct", fmt.Errorf("subset %v: %v", sub, err)
		}
		c.Outcome(fmt.Sprintf("%v|%v", k, sub))
		// the same set of points listed in another order (shares permuted consistently)
		if len(sub) >= 2 {
			for _, perm := range [][]int{reverseIdx(len(sub)), rotateIdx(len(sub))} {
				var s2 []uint16
				var g2 [][]byte
				for _, i := range perm {
					s2 = append(s2, sub[i])
					g2 = append(g2, sigs[i])
				}
				agg, err := v.AggregateSignatures(g2, s2)
				if err == nil {
					err = v.Verify(d[:], agg)
				}
				c.Add("evaluations", 1)
				if err != nil {
					return "subset-does-not-reconstruct:point-order", fmt.Errorf("points listed as %v: %v", s2, err)
				}
			}
		}
	}
	// fewer than t shares must not reconstruct
	if k.t > 1 {
		for _, sub := range cryptolib.Subsets(cryptolib.IDs(k.n), k.t-1, k.t-1) {
			var sigs [][]byte
			for _, id := range sub {
				sg, _ := signers[id].Sign(nil, d[:])
				sigs = append(sigs, sg)
			}
			if len(sub) < 2 {
				continue // a single evaluation point has no Lagrange coefficient (library panics by design)
			}
			agg, err := v.AggregateSignatures(sigs, sub)
			if err == nil {
				err = v.Verify(d[:], agg)
			}
			c.Add("evaluations", 1)
			if err == nil {
				return "fewer-than-t-reconstruct", fmt.Errorf("subset %v of size t-1 produced a verifying signature", sub)
			}
		}
	}
	return "", nil
}
