package c18

import (
	"context"
	"fmt"
	"sync"
	"time"

	"verif/cryptolib"
	"verif/harness"
)

// pollCtx is a context whose deadline "lands" after a chosen number of polls: the first `limit`
// calls of Done / Err see a live context, every later one an expired one.
type pollCtx struct {
	context.Context
	mu     sync.Mutex
	polls  int
	limit  int
	open   chan struct{}
	closed chan struct{}
}

func newPollCtx(base context.Context, limit int) *pollCtx {
	p := &pollCtx{Context: base, limit: limit, open: make(chan struct{}), closed: make(chan struct{})}
	close(p.closed)
	return p
}

func (p *pollCtx) expired() bool {
	p.mu.Lock()
	defer p.mu.Unlock()
	p.polls++
	return p.limit >= 0 && p.polls > p.limit
}

func (p *pollCtx) Done() <-chan struct{} {
	if p.expired() {
		return p.closed
	}
	return p.open
}

func (p *pollCtx) Err() error {
	if p.expired() {
		return context.DeadlineExceeded
	}
	return nil
}

func (p *pollCtx) Deadline() (time.Time, bool) { return time.Time{}, false }

// deadlineSweepCase: the key of the last party is off the common polynomial (commitment and reveal
// consistent), every message is delivered at once, and the deadline of party 1's KeyGen lands after
// its k-th look at the context, for every k up to the number of looks of a full run: whenever it
// lands, party 1 must not report success.
func deadlineSweepCase(k cfg) harness.Case {
	return harness.Case{ID: "off-polynomial/deadline-sweep/" + k.String(), Run: func(c *harness.C) {
		dev := cryptolib.IDs(k.n)[k.n-1]
		victim := cryptolib.IDs(k.n)[0]
		runWith := func(limit int) (error, int) {
			var pc *pollCtx
			cryptolib.CtxFor = func(id uint16, base context.Context) context.Context {
				if id == victim {
					pc = newPollCtx(base, limit)
					return pc
				}
				return base
			}
			defer func() { cryptolib.CtxFor = nil }()
			// in a bubble: the parties that wait for the one that gave up do so in virtual time
			var errs map[uint16]error
			if rec := c.Bubble(func() {
				_, errs = cryptolib.DKG(k.be, k.n, k.t, 1, offPolynomial(k.be, dev), 20*time.Second)
			}); rec != nil && !harness.IsLeakPanic(rec) {
				panic(rec)
			}
			polls := 0
			if pc != nil {
				pc.mu.Lock()
				polls = pc.polls
				pc.mu.Unlock()
			}
			return errs[victim], polls
		}
		c.Exec(fmt.Sprintf("[deadline-sweep] %v calibration", k))
		err, total := runWith(-1)
		c.Add("executions", 1)
		if err == nil {
			c.Violation("off-polynomial-detected", "c18-off-polynomial-key-accepted:"+k.be, fmt.Sprintf("%v: party %d accepted although the key of party %d is off the common polynomial", k, victim, dev), map[string]interface{}{"cfg": k.String(), "dev": dev})
			return
		}
		for lim := 0; lim <= total+1; lim++ {
			c.Exec(fmt.Sprintf("[deadline-sweep] %v deadline after %d of %d looks", k, lim, total))
			err, _ := runWith(lim)
			c.Add("executions", 1)
			c.Add("evaluations", 1)
			if err == nil {
				c.Violation("off-polynomial-detected", "c18-off-polynomial-key-accepted-at-deadline:"+k.be, fmt.Sprintf("%v: the key of party %d is off the common polynomial and the deadline of party %d's KeyGen landed after its look no. %d at the context (a full run takes %d looks): KeyGen reported success", k, dev, victim, lim, total), map[string]interface{}{"cfg": k.String(), "dev": dev, "deadline_after_polls": lim})
				return
			}
			c.Outcome(fmt.Sprintf("deadline|%v|%d", k, lim))
		}
		c.Sample("deadline-sweep", map[string]interface{}{"cfg": k.String(), "looks": total})
	}}
}
