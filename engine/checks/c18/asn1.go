package c18

import (
	"encoding/asn1"

	"github.com/IBM/TSS/mpc/ps"
)

func marshalXYs(x ps.XYs) []byte { b, _ := asn1.Marshal(x); return b }
