package c19

import (
	"context"
	"encoding/json"
	"fmt"
	"strings"
	"time"

	"verif/explore"
	"verif/harness"
	"verif/shim/sched"
)

// Concurrent classification (engine E3, -race build): the orchestrator classifies incoming messages
// on dispatcher goroutines, several at a time, on ONE adapter instance. Two threads classify every
// captured message type on the same instance under the cooperative scheduler (whose hand-offs are
// invisible to the race detector); every classification must equal the sequential one and the
// detector must stay silent.

type cls struct {
	round uint8
	bc    bool
	err   bool
}

func concurrentCase(scheme string, capture func() ([]capMsg, error)) harness.Case {
	return harness.Case{ID: "concurrent-classify/" + scheme, Run: func(c *harness.C) {
		c.Exec("[concurrent-classify] " + scheme + " capture")
		caps, err := capture()
		if err != nil {
			c.Note("c19-concurrent-"+scheme, "capture failed: "+err.Error())
			c.Cap("capture-unavailable")
			return
		}
		var msgs []capMsg
		seen := map[string]bool{}
		for _, m := range caps {
			if u := typeURL(m.Data); !seen[u] {
				seen[u] = true
				msgs = append(msgs, m)
			}
		}
		c.NewRaceReports()
		var trace []string
		mismatch := ""
		run := func(r *explore.Recorder) {
			rec := c.Bubble(func() {
				inst := newAdapter(scheme, 1)
				inst.Init([]uint16{1, 2, 3}, 1, func([]byte, bool, uint16) {})
				want := make([]cls, len(msgs))
				for i, m := range msgs {
					rd, bc, err := inst.ClassifyMsg(m.Data)
					want[i] = cls{rd, bc, err != nil}
				}
				sc := sched.New()
				defer sc.Close()
				sc.Quantum, sc.Horizon = time.Second, 3
				bad := make([]string, 2)
				for t := 0; t < 2; t++ {
					t := t
					sc.Go(fmt.Sprintf("D%d", t), func() {
						for k := range msgs {
							i := k
							if t == 1 {
								i = len(msgs) - 1 - k
							}
							sched.Yield()
							rd, bc, err := inst.ClassifyMsg(msgs[i].Data)
							if (cls{rd, bc, err != nil}) != want[i] && bad[t] == "" {
								u := typeURL(msgs[i].Data)
								bad[t] = fmt.Sprintf("%s classified as round %d broadcast=%v (sequentially: round %d broadcast=%v)", u[strings.LastIndex(u, ".")+1:], rd, bc, want[i].round, want[i].bc)
							}
						}
					})
				}
				sc.Run(r)
				sc.WaitAll()
				trace = sc.Trace
				mismatch = bad[0] + bad[1]
			})
			if rec != nil && !harness.IsLeakPanic(rec) {
				panic(rec)
			}
		}
		reported := map[string]bool{}
		e := &explore.Explorer{Stop: c.Expired}
		e.Run = func(r *explore.Recorder) {
			c.Exec(fmt.Sprintf("[concurrent-classify] %s %v", scheme, r.Prefix))
			run(r)
		}
		e.Visit = func(r *explore.Recorder) {
			c.Add("executions", 1)
			c.Add("transitions", len(trace))
			rp := map[string]interface{}{"concurrent": scheme, "choices": explore.Trim(r.Choices())}
			for _, rr := range c.NewRaceReports() {
				if rr.Frames[0] == "" || rr.Frames[1] == "" {
					c.Add("race_reports_with_harness_frames", 1)
					continue
				}
				if !reported[rr.Signature] {
					reported[rr.Signature] = true
					c.Violation("classification-by-the-receiver-alone (concurrent dispatch)", "c19-"+rr.Signature, fmt.Sprintf("%s: two dispatcher threads classifying on one adapter instance race between %s and %s", scheme, rr.Frames[0], rr.Frames[1]), rp)
				}
			}
			if mismatch != "" && !reported["mismatch"] {
				reported["mismatch"] = true
				c.Violation("classification-agrees-with-routing", "c19-concurrent-classification-differs:"+scheme, fmt.Sprintf("%s schedule %v: %s", scheme, explore.Trim(r.Choices()), mismatch), rp)
			}
			c.Outcome("concurrent|" + scheme + "|" + strings.Join(trace, ";"))
		}
		if c.Replay != nil {
			var rp struct {
				Choices []int `json:"choices"`
			}
			if json.Unmarshal(c.Replay, &rp) == nil {
				e.Explore(rp.Choices, nil, -1)
			}
			return
		}
		e.Explore(nil, nil, 1)
	}}
}

func concurrentCases(c *harness.C) []harness.Case {
	c.Note("concurrent-rule", "two threads classify every captured message type on one adapter instance under the cooperative scheduler in a -race build (scheduling points between the calls, preemption bound 1); each result must equal the sequential classification and no data race with both stacks in repository code may be reported")
	return []harness.Case{
		concurrentCase("eddsa", func() ([]capMsg, error) {
			parties := ids(2)
			shares, errs, caps := runAdapters("eddsa", parties, 1, nil, func(id uint16, a adapter, ctx context.Context) ([]byte, error) { return a.KeyGen(ctx) }, "keygen", 900*time.Second)
			for _, e := range errs {
				if e != nil {
					return nil, e
				}
			}
			_, _, scaps := runAdapters("eddsa", parties, 1, shares, func(id uint16, a adapter, ctx context.Context) ([]byte, error) { return a.Sign(ctx, digestAlphabet[0]) }, "signing", 1800*time.Second)
			return append(caps, scaps...), nil
		}),
		concurrentCase("ecdsa", func() ([]capMsg, error) {
			r, err := ecdsaKeygen(3, 1)
			if err != nil {
				return nil, err
			}
			caps := r.caps
			if scaps, err := ecdsaSignDirect(r.saves, ids(3)[:2], 1, digestAlphabet[0]); err == nil {
				caps = append(caps, scaps...)
			}
			return caps, nil
		}),
	}
}
