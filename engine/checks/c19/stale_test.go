package c19

import (
	"context"
	"crypto/ed25519"
	"fmt"
	"sync"
	"sync/atomic"
	"time"

	"verif/harness"
)

// staleResultCase: the same adapter objects serve two signing sessions. The first caller's context
// is cancelled at the moment the k-th (for every k up to the last) inbound message has been handed
// to its adapter; whatever the first call returns, the second session (re-Init, same share, another
// digest) must return a signature for ITS digest or an error - never what the first session
// produced. Which branch of the adapter's select wins when the cancellation and the last message
// coincide is the runtime's choice and is not owned by the harness, so every k is repeated; the
// oracle itself is deterministic (a signature that verifies for the first digest under the key is
// a violation whenever it is returned for the second).
func staleResultCase(n, thr, reps int) harness.Case {
	return harness.Case{ID: fmt.Sprintf("eddsa/n%dt%d/second-session-after-cancelled-first", n, thr), Run: func(c *harness.C) {
		what := fmt.Sprintf("eddsa n=%d t=%d", n, thr)
		c.Exec("[stale] " + what)
		parties := ids(n)
		shares, errs, _ := runAdapters("eddsa", parties, thr, nil, func(id uint16, a adapter, ctx context.Context) ([]byte, error) { return a.KeyGen(ctx) }, "keygen", 900*time.Second)
		for id, e := range errs {
			if e != nil {
				c.Violation("keygen", "c19-eddsa-keygen-fails", fmt.Sprintf("%s: party %d: %v", what, id, e), replay{"eddsa", n, thr, "keygen"})
				return
			}
		}
		signers := parties[:thr+1]
		victim := signers[0]
		pkA := newAdapter("eddsa", victim)
		pkA.SetShareData(shares[victim])
		pk, _ := pkA.ThresholdPK()
		d1, d2 := digestAlphabet[0], digestAlphabet[3]
		// calibration: how many messages does the victim receive in one signing session
		total := 0
		{
			var cnt atomic.Int32
			session(signers, thr, shares, nil, victim, d1, func(k int32) { cnt.Store(k) }, nil)
			total = int(cnt.Load())
		}
		if total == 0 {
			c.Note("c19-stale", "calibration saw no inbound message: case skipped")
			return
		}
		reported := false
		for k := 1; k <= total; k++ {
			r := 1
			if k == total {
				r = reps
			}
			for rep := 0; rep < r; rep++ {
				inst := map[uint16]adapter{}
				for _, id := range signers {
					inst[id] = newAdapter("eddsa", id)
				}
				ctx1, cancel1 := context.WithCancel(context.Background())
				k := int32(k)
				res1 := session(signers, thr, shares, inst, victim, d1, func(seen int32) {
					if seen == k {
						cancel1()
					}
				}, ctx1)
				cancel1()
				res2 := session(signers, thr, shares, inst, victim, d2, nil, nil)
				c.Add("executions", 2)
				c.Add("evaluations", 1)
				if sig := res2[victim].sig; res2[victim].err == nil && !reported {
					if !ed25519.Verify(ed25519.PublicKey(pk), d2, sig) {
						reported = true
						forD1 := ed25519.Verify(ed25519.PublicKey(pk), d1, sig)
						c.Violation("signature-for-requested-digest", "c19-eddsa-second-session-returns-other-digest", fmt.Sprintf("%s: the first Sign on the adapter objects (digest %x) had its context cancelled when inbound message %d of %d arrived and returned (%v); the second session on the same objects was asked to sign %x and returned a signature that does not verify for it (verifies for the first digest: %v)", what, d1[:4], k, total, res1[victim].err, d2[:4], forD1), replay{"eddsa", n, thr, "stale"})
					}
				}
				c.Outcome(fmt.Sprintf("eddsa|stale|%d|%d|%d|%v|%v", n, thr, k, res1[victim].err == nil, res2[victim].err == nil))
			}
		}
	}}
}

type signRes struct {
	sig []byte
	err error
}

// session runs one signing session among the given adapter objects (fresh ones if inst is nil):
// Init, SetShareData, Sign. onVictimMsg is called after every message handed to the victim's OnMsg
// with the number handed over so far; vctx, if set, is the victim's context.
func session(signers []uint16, thr int, shares map[uint16][]byte, inst map[uint16]adapter, victim uint16, digest []byte, onVictimMsg func(int32), vctx context.Context) map[uint16]signRes {
	if inst == nil {
		inst = map[uint16]adapter{}
		for _, id := range signers {
			inst[id] = newAdapter("eddsa", id)
		}
	}
	var seen atomic.Int32
	for _, id := range signers {
		id := id
		inst[id].SetShareData(shares[id])
		inst[id].Init(signers, thr, func(msg []byte, bc bool, to uint16) {
			for _, dst := range signers {
				if dst == id || (!bc && dst != to) {
					continue
				}
				inst[dst].OnMsg(append([]byte(nil), msg...), id, bc)
				if dst == victim && onVictimMsg != nil {
					onVictimMsg(seen.Add(1))
				}
			}
		})
	}
	out := map[uint16]signRes{}
	var mu sync.Mutex
	var wg sync.WaitGroup
	for _, id := range signers {
		id := id
		wg.Add(1)
		go func() {
			defer wg.Done()
			ctx, cancel := context.WithTimeout(context.Background(), 4*time.Second)
			defer cancel()
			if id == victim && vctx != nil {
				ctx = vctx
			}
			s, err := inst[id].Sign(ctx, digest)
			mu.Lock()
			out[id] = signRes{s, err}
			mu.Unlock()
		}()
	}
	wg.Wait()
	return out
}
