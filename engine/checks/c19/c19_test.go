package c19

import (
	"bytes"
	"context"
	"crypto/ecdsa"
	"crypto/ed25519"
	"crypto/elliptic"
	"crypto/sha256"
	"crypto/sha512"
	"crypto/x509"
	"encoding/json"
	"fmt"
	"math/big"
	"os"
	"path/filepath"
	"reflect"
	"sort"
	"strings"
	"sync"
	"testing"
	"time"
	"unsafe"

	ecdsaad "github.com/IBM/TSS/mpc/binance/ecdsa"
	eddsaad "github.com/IBM/TSS/mpc/binance/eddsa"
	tssif "github.com/IBM/TSS/types"
	"github.com/bnb-chain/tss-lib/v2/common"
	eckeygen "github.com/bnb-chain/tss-lib/v2/ecdsa/keygen"
	ecsigning "github.com/bnb-chain/tss-lib/v2/ecdsa/signing"
	"github.com/bnb-chain/tss-lib/v2/tss"
	"github.com/golang/protobuf/proto"
	"github.com/golang/protobuf/ptypes/any"
	"verif/harness"
	"verif/world"
)

type adapter interface {
	tssif.KeyGenerator
	tssif.Signer
}

func newAdapter(scheme string, id uint16) adapter {
	if scheme == "ecdsa" {
		return ecdsaad.NewParty(id, world.NopLogger{})
	}
	return eddsaad.NewParty(id, world.NopLogger{})
}

// captured message with the routing the library attached
type capMsg struct {
	From  uint16
	To    uint16
	Bcast bool
	Data  []byte
	Phase string
}

func typeURL(b []byte) string {
	var a any.Any
	if err := proto.Unmarshal(b, &a); err != nil {
		return ""
	}
	return a.TypeUrl
}

func ids(n int) []uint16 {
	out := make([]uint16, n)
	for i := range out {
		out[i] = uint16(i + 1)
	}
	return out
}

// runAdapters wires adapters synchronously and runs op on every party.
// quietLimit: how long a key generation / signing run may stay silent before it is given up.
const quietLimit = 120 * time.Second

func runAdapters(scheme string, parties []uint16, thr int, shares map[uint16][]byte, op func(id uint16, a adapter, ctx context.Context) ([]byte, error), phase string, timeout time.Duration) (map[uint16][]byte, map[uint16]error, []capMsg) {
	inst := map[uint16]adapter{}
	var mu sync.Mutex
	var caps []capMsg
	lastActivity := time.Now()
	for _, id := range parties {
		inst[id] = newAdapter(scheme, id)
	}
	for _, id := range parties {
		id := id
		if shares != nil {
			inst[id].SetShareData(shares[id])
		}
		inst[id].Init(parties, thr, func(msg []byte, bc bool, to uint16) {
			m := append([]byte(nil), msg...)
			mu.Lock()
			caps = append(caps, capMsg{From: id, To: to, Bcast: bc, Data: m, Phase: phase})
			lastActivity = time.Now()
			mu.Unlock()
			for _, dst := range parties {
				if dst == id || (!bc && dst != to) {
					continue
				}
				inst[dst].OnMsg(append([]byte(nil), m...), id, bc)
			}
		})
	}
	res := map[uint16][]byte{}
	errs := map[uint16]error{}
	var wg sync.WaitGroup
	ctx, cancel := context.WithTimeout(context.Background(), timeout)
	defer cancel()
	// patience is measured in silence, not in total time (real time on a loaded machine): the run is
	// given up when no party has sent anything for quietLimit
	stopQuiet := make(chan struct{})
	defer close(stopQuiet)
	go func() {
		for {
			select {
			case <-stopQuiet:
				return
			case <-time.After(2 * time.Second):
			}
			mu.Lock()
			quiet := time.Since(lastActivity)
			mu.Unlock()
			if quiet > quietLimit {
				cancel()
				return
			}
		}
	}()
	for _, id := range parties {
		id := id
		wg.Add(1)
		go func() {
			defer wg.Done()
			d, err := op(id, inst[id], ctx)
			mu.Lock()
			res[id], errs[id] = d, err
			mu.Unlock()
		}()
	}
	wg.Wait()
	return res, errs, caps
}

var digestAlphabet = func() [][]byte {
	d := sha256.Sum256([]byte("c19"))
	z := sha256.Sum256([]byte("zero-lead"))
	z[0] = 0
	zz := sha256.Sum256([]byte("zero-lead-2"))
	zz[0], zz[1] = 0, 0
	return [][]byte{d[:], z[:], zz[:], bytes.Repeat([]byte{0xff}, 32), append([]byte{0}, bytes.Repeat([]byte{7}, 31)...)}
}()

// inboundOf drains the adapter's inbound queue (unexported channel) and returns the senders the
// queued messages are attributed to.
type inb struct {
	key   uint16
	index int
	bcast bool
}

func inboundOf(a adapter) ([]inb, bool) {
	v := reflect.ValueOf(a)
	for v.Kind() == reflect.Ptr || v.Kind() == reflect.Interface {
		v = v.Elem()
	}
	f := v.FieldByName("in")
	if !f.IsValid() || f.Kind() != reflect.Chan {
		return nil, false
	}
	ch := reflect.NewAt(f.Type(), unsafe.Pointer(f.UnsafeAddr())).Elem()
	var out []inb
	for {
		x, ok := ch.TryRecv()
		if !ok {
			break
		}
		if m, ok := x.Interface().(tss.Message); ok && m.GetFrom() != nil {
			out = append(out, inb{uint16(new(big.Int).SetBytes(m.GetFrom().Key).Uint64()), m.GetFrom().Index, m.IsBroadcast()})
		}
	}
	return out, true
}

type replay struct {
	Scheme string `json:"scheme"`
	N, T   int
	What   string `json:"what"`
}

// classification checks on captured messages.
func classify(c *harness.C, scheme string, n, thr int, caps []capMsg) {
	rp := replay{scheme, n, thr, "classification"}
	byPhase := map[string]map[string]uint8{}
	for _, m := range caps {
		c.Add("evaluations", 1)
		fresh := newAdapter(scheme, 99) // receiver alone: no Init, no session state
		round, bc, err := fresh.ClassifyMsg(m.Data)
		url := typeURL(m.Data)
		short := url[strings.LastIndex(url, ".")+1:]
		if err != nil {
			c.Violation("classified", "c19-classify-error:"+scheme+":"+short, fmt.Sprintf("%s n=%d t=%d: ClassifyMsg rejects a message the library emitted (%s): %v", scheme, n, thr, url, err), rp)
			continue
		}
		if bc != m.Bcast {
			c.Violation("classification-agrees-with-routing", "c19-classification-differs:"+scheme+":"+short, fmt.Sprintf("%s n=%d t=%d: %s is routed by the library with broadcast=%v but classified broadcast=%v", scheme, n, thr, url, m.Bcast, bc), rp)
		}
		// the receiver classifies on an adapter that is inside a session (as the orchestrator
		// does): whatever the committee looks like, the verdict is the same
		for _, committee := range [][]uint16{{1, 2}, {2, 1}, {1, 2, 3}, {3, 1, 2}, {2, 5, 9, 300}} {
			live := newAdapter(scheme, committee[0])
			live.Init(committee, 1, func([]byte, bool, uint16) {})
			r2, b2, e2 := live.ClassifyMsg(m.Data)
			c.Add("evaluations", 1)
			if e2 != nil || r2 != round || b2 != bc {
				c.Violation("classification-agrees-with-routing", "c19-classification-depends-on-session:"+scheme+":"+short, fmt.Sprintf("%s: %s is classified (round %d, broadcast=%v, err=%v) by an adapter initialised with committee %v, but (round %d, broadcast=%v) by a fresh one; the library routes it with broadcast=%v", scheme, url, r2, b2, e2, committee, round, bc, m.Bcast), rp)
				break
			}
		}
		if m.Bcast {
			if byPhase[m.Phase] == nil {
				byPhase[m.Phase] = map[string]uint8{}
			}
			byPhase[m.Phase][url] = round
		}
		c.Outcome(scheme + "|" + m.Phase + "|" + url)
	}
	// envelopes that carry the type-URL field twice: a decoy first, then the genuine message. The
	// library (protobuf semantics: the last occurrence of a scalar field wins) parses the genuine
	// type; the receiver's classification must agree with that - or reject the envelope.
	{
		var bcURL, p2pURL string
		for _, m := range caps {
			u := typeURL(m.Data)
			if m.Bcast && bcURL == "" {
				bcURL = u
			}
			if !m.Bcast && p2pURL == "" {
				p2pURL = u
			}
		}
		done := map[string]bool{}
		for _, m := range caps {
			u := typeURL(m.Data)
			if done[u] {
				continue
			}
			done[u] = true
			for _, decoy := range []string{bcURL, p2pURL} {
				if decoy == "" || decoy == u || len(decoy) > 127 {
					continue
				}
				crafted := append(append([]byte{0x0a, byte(len(decoy))}, decoy...), m.Data...)
				fresh := newAdapter(scheme, 99)
				r0, b0, e0 := fresh.ClassifyMsg(m.Data)
				r1, b1, e1 := fresh.ClassifyMsg(crafted)
				c.Add("evaluations", 1)
				if e0 == nil && e1 == nil && (r0 != r1 || b0 != b1) {
					short := u[strings.LastIndex(u, ".")+1:]
					c.Violation("classification-agrees-with-routing", "c19-decoy-type-url-changes-classification:"+scheme, fmt.Sprintf("%s: an envelope that carries a decoy type URL (%s) in front of a genuine %s - which the library parses as %s - is classified as round %d broadcast=%v instead of round %d broadcast=%v", scheme, decoy[strings.LastIndex(decoy, ".")+1:], short, short, r1, b1, r0, b0), rp)
				}
			}
		}
	}
	for ph, urls := range byPhase {
		seen := map[uint8]string{}
		var names []string
		for u := range urls {
			names = append(names, u)
		}
		sort.Strings(names)
		for _, u := range names {
			r := urls[u]
			if o, dup := seen[r]; dup {
				c.Violation("distinct-rounds", "c19-broadcast-rounds-collide:"+scheme+":"+ph, fmt.Sprintf("%s %s: broadcast-class types %s and %s share round %d", scheme, ph, o[strings.LastIndex(o, ".")+1:], u[strings.LastIndex(u, ".")+1:], r), rp)
			}
			seen[r] = u
		}
	}
}

// senderBinding: every captured message from a is re-fed as coming from every b != a; what reaches
// the library is attributed to b or dropped, never to a.
func senderBinding(c *harness.C, scheme string, n, thr int, caps []capMsg) {
	// the receiving committee has gaps, so that non-members lie below, between and above members
	committee := []uint16{2, 3, 5, 8}[:min(n, 4)]
	if n < 3 {
		committee = []uint16{2, 5}
	}
	senders := []uint16{0, 1, 2, 3, 4, 5, 6, 7, 8, 9, 300}
	pos := map[uint16]int{}
	for i, m := range committee {
		pos[m] = i
	}
	// the committee is handed to Init in several orders (the library sorts the parties by key, so
	// the position of a member in the ascending committee is its index whatever the order)
	rev := append([]uint16(nil), committee...)
	for i, j := 0, len(rev)-1; i < j; i, j = i+1, j-1 {
		rev[i], rev[j] = rev[j], rev[i]
	}
	rot := append(append([]uint16(nil), committee[1:]...), committee[0])
	orders := [][]uint16{committee, rev, rot}
	seenType := map[string]bool{}
	for _, m := range caps {
		url := typeURL(m.Data)
		if seenType[url] {
			continue
		}
		seenType[url] = true
		for oi, listed := range orders {
			for _, b := range senders {
				recv := newAdapter(scheme, committee[0])
				recv.Init(listed, thr, func([]byte, bool, uint16) {})
				recv.OnMsg(m.Data, b, m.Bcast)
				c.Add("evaluations", 1)
				queued, ok := inboundOf(recv)
				if !ok {
					c.Note("c19-inbound-queue", "adapter's inbound queue not reachable by reflection: sender-binding clause skipped")
					return
				}
				sfx := ""
				if oi > 0 {
					sfx = ":committee-listed-unsorted"
				}
				_, member := pos[b]
				if member && b != committee[0] && len(queued) == 0 && oi > 0 {
					// compare with the ascending listing: a member's message that is queued there
					// must be queued here as well (dropping it silently starves the session)
					ref := newAdapter(scheme, committee[0])
					ref.Init(committee, thr, func([]byte, bool, uint16) {})
					ref.OnMsg(m.Data, b, m.Bcast)
					if rq, ok := inboundOf(ref); ok && len(rq) > 0 {
						c.Violation("sender-binding", "c19-member-message-dropped"+sfx+":"+scheme, fmt.Sprintf("%s: a message delivered by member %d is handed to the library when the committee is listed as %v but dropped when it is listed as %v", scheme, b, committee, listed), replay{scheme, n, thr, "sender-binding"})
					}
				}
				for _, q := range queued {
					p, member := pos[b]
					switch {
					case q.key != b:
						c.Violation("sender-binding", "c19-message-attributed-to-other-sender"+sfx+":"+scheme, fmt.Sprintf("%s: a message delivered by %d reached the library attributed to key %d (committee listed as %v)", scheme, b, q.key, listed), replay{scheme, n, thr, "sender-binding"})
					case member && q.index != p:
						c.Violation("sender-binding", "c19-message-attributed-to-other-index"+sfx+":"+scheme, fmt.Sprintf("%s: a message delivered by member %d (position %d of the ascending committee %v, listed as %v) reached the library with index %d", scheme, b, p, committee, listed, q.index), replay{scheme, n, thr, "sender-binding"})
					case !member && q.index >= 0 && q.index < len(committee):
						c.Violation("sender-binding", "c19-non-member-attributed-to-member"+sfx+":"+scheme, fmt.Sprintf("%s: a message delivered by %d, which is not in the committee %v, reached the library with index %d, i.e. attributed to member %d", scheme, b, committee, q.index, committee[q.index]), replay{scheme, n, thr, "sender-binding"})
					}
				}
			}
		}
	}
}

// classBinding: what reaches the library carries the class the receiver itself determined. Every
// captured message type, with its genuine type URL and with re-spelled ones (the library resolves
// the type from what follows the last '/'), is classified by a fresh adapter and then delivered
// with exactly that class, as the orchestrator does; a message the adapter queues for the library
// must be flagged with that class - otherwise a broadcast-class message can be made to bypass
// reliable broadcast (or the other way round).
func classBinding(c *harness.C, scheme string, n, thr int, caps []capMsg) {
	committee := []uint16{2, 3, 5, 8}[:min(n, 4)]
	if n < 3 {
		committee = []uint16{2, 5}
	}
	seen := map[string]bool{}
	for _, m := range caps {
		url := typeURL(m.Data)
		if seen[url] || url == "" {
			continue
		}
		seen[url] = true
		name := url[strings.LastIndex(url, "/")+1:]
		for _, sp := range []string{url, name, "tss/" + name, "type.googleapis.com//" + name, "TYPE.GOOGLEAPIS.COM/" + name, "/" + name, "x.example/" + name} {
			var a any.Any
			if proto.Unmarshal(m.Data, &a) != nil {
				continue
			}
			a.TypeUrl = sp
			crafted, err := proto.Marshal(&a)
			if err != nil {
				continue
			}
			fresh := newAdapter(scheme, 99)
			_, bc, cerr := fresh.ClassifyMsg(crafted)
			c.Add("evaluations", 1)
			if cerr != nil {
				continue // refused by the classifier: the orchestrator drops it
			}
			recv := newAdapter(scheme, committee[0])
			recv.Init(committee, thr, func([]byte, bool, uint16) {})
			recv.OnMsg(crafted, committee[1], bc)
			queued, ok := inboundOf(recv)
			if !ok {
				return
			}
			for _, q := range queued {
				if q.bcast != bc {
					short := name[strings.LastIndex(name, ".")+1:]
					c.Violation("classification-agrees-with-routing", "c19-queued-class-differs-from-classification:"+scheme, fmt.Sprintf("%s: a %s whose type URL is spelled %q is classified broadcast=%v by the receiver and delivered accordingly, but reaches the library flagged broadcast=%v", scheme, short, sp, bc, q.bcast), replay{scheme, n, thr, "class-binding"})
				}
			}
			c.Outcome(scheme + "|class-binding|" + sp)
		}
	}
}

// reInitBinding: the same adapter object serves two sessions with different committees (Init, traffic
// from every sender, Init again with another committee, traffic again): in the second session
// every message must be attributed relative to the second committee.
func reInitBinding(c *harness.C, scheme string, n, thr int, caps []capMsg) {
	first := []uint16{1, 2, 3, 4}[:min(n, 4)]
	second := []uint16{2, 3, 5, 8}[:min(n, 4)]
	if n < 3 {
		first, second = []uint16{1, 2}, []uint16{2, 5}
	}
	senders := []uint16{0, 1, 2, 3, 4, 5, 6, 7, 8, 9}
	pos := map[uint16]int{}
	for i, m := range second {
		pos[m] = i
	}
	seenType := map[string]bool{}
	for _, m := range caps {
		url := typeURL(m.Data)
		if seenType[url] {
			continue
		}
		seenType[url] = true
		recv := newAdapter(scheme, 2)
		recv.Init(first, thr, func([]byte, bool, uint16) {})
		for _, b := range senders {
			recv.OnMsg(m.Data, b, m.Bcast)
		}
		if _, ok := inboundOf(recv); !ok {
			return
		}
		recv.Init(second, thr, func([]byte, bool, uint16) {})
		for _, b := range senders {
			inboundOf(recv)
			recv.OnMsg(m.Data, b, m.Bcast)
			c.Add("evaluations", 1)
			queued, _ := inboundOf(recv)
			for _, q := range queued {
				p, member := pos[b]
				rp := replay{scheme, n, thr, "sender-binding-reinit"}
				switch {
				case q.key != b:
					c.Violation("sender-binding", "c19-reinit-message-attributed-to-other-sender:"+scheme, fmt.Sprintf("%s: second session on one adapter object (committee %v after %v): a message delivered by %d reached the library attributed to key %d", scheme, second, first, b, q.key), rp)
				case member && q.index != p:
					c.Violation("sender-binding", "c19-reinit-message-attributed-to-other-index:"+scheme, fmt.Sprintf("%s: second session on one adapter object (committee %v after %v): a message delivered by member %d (position %d) reached the library with index %d", scheme, second, first, b, p, q.index), rp)
				case !member && q.index >= 0 && q.index < len(second):
					c.Violation("sender-binding", "c19-reinit-non-member-attributed-to-member:"+scheme, fmt.Sprintf("%s: second session on one adapter object (committee %v after %v): a message delivered by non-member %d reached the library with index %d, i.e. attributed to member %d", scheme, second, first, b, q.index, second[q.index]), rp)
				}
			}
		}
	}
}

func eddsaCase(n, thr int) harness.Case {
	return harness.Case{ID: fmt.Sprintf("eddsa/n%dt%d", n, thr), Run: func(c *harness.C) {
		what := fmt.Sprintf("eddsa n=%d t=%d", n, thr)
		c.Exec("[eddsa] " + what)
		parties := ids(n)
		shares, errs, caps := runAdapters("eddsa", parties, thr, nil, func(id uint16, a adapter, ctx context.Context) ([]byte, error) { return a.KeyGen(ctx) }, "keygen", 900*time.Second)
		c.Add("executions", 1)
		for id, e := range errs {
			if e != nil {
				c.Violation("keygen", "c19-eddsa-keygen-fails", fmt.Sprintf("%s: party %d: %v", what, id, e), replay{"eddsa", n, thr, "keygen"})
				return
			}
		}
		// signing among the first t+1 parties and among all
		sets := [][]uint16{parties[:thr+1], parties}
		if thr+1 < n {
			// a signing committee whose members sit at other positions than in the key-generation
			// committee (the last t+1 parties; the first and the last one)
			sets = append(sets, parties[n-thr-1:])
			if thr == 1 && n >= 3 {
				sets = append(sets, []uint16{parties[0], parties[n-1]})
			}
		}
		for si, signers := range sets {
			for di, dg := range digestAlphabet {
				if (len(signers) == n || si >= 2) && di > 1 {
					continue
				}
				dg := dg
				sigs, serrs, scaps := runAdapters("eddsa", signers, thr, shares, func(id uint16, a adapter, ctx context.Context) ([]byte, error) { return a.Sign(ctx, dg) }, "signing", 900*time.Second)
				c.Add("executions", 1)
				caps = append(caps, scaps...)
				pkA := newAdapter("eddsa", signers[0])
				pkA.SetShareData(shares[signers[0]])
				pk, _ := pkA.ThresholdPK()
				for _, id := range signers {
					c.Add("evaluations", 1)
					if serrs[id] != nil {
						c.Violation("sign", "c19-eddsa-sign-fails", fmt.Sprintf("%s signers %v digest#%d: party %d: %v", what, signers, di, id, serrs[id]), replay{"eddsa", n, thr, "sign"})
						return // every further signing run would wait out its patience as well
					}
					if !ed25519.Verify(ed25519.PublicKey(pk), dg, sigs[id]) {
						cl := "other"
						if dg[0] == 0 {
							cl = "leading-zero-digest"
						}
						c.Violation("signature-for-requested-digest", "c19-eddsa-signature-not-for-requested-digest:"+cl, fmt.Sprintf("%s signers %v: the signature party %d returned does not verify for the requested digest %x (digest#%d)", what, signers, id, dg[:4], di), replay{"eddsa", n, thr, "sign"})
					}
				}
				c.Outcome(fmt.Sprintf("eddsa|sign|%d|%d|%v|%d", n, thr, signers, di))
			}
		}
		// one party is asked to sign another digest: nobody may return a signature that does not
		// verify for the digest it was asked to sign
		{
			signers := parties[:thr+1]
			d0, d1 := digestAlphabet[0], digestAlphabet[3]
			sigs, serrs, _ := runAdapters("eddsa", signers, thr, shares, func(id uint16, a adapter, ctx context.Context) ([]byte, error) {
				if id == signers[0] {
					return a.Sign(ctx, d1)
				}
				return a.Sign(ctx, d0)
			}, "signing", 8*time.Second)
			c.Add("executions", 1)
			pkA := newAdapter("eddsa", signers[0])
			pkA.SetShareData(shares[signers[0]])
			pk, _ := pkA.ThresholdPK()
			for _, id := range signers {
				asked := d0
				if id == signers[0] {
					asked = d1
				}
				if serrs[id] == nil && !ed25519.Verify(ed25519.PublicKey(pk), asked, sigs[id]) {
					c.Violation("signature-for-requested-digest", "c19-eddsa-mismatched-digest-signature-returned", fmt.Sprintf("%s: parties were asked to sign different digests; party %d returned a signature that does not verify for the digest it was asked to sign", what, id), replay{"eddsa", n, thr, "mismatch"})
				}
			}
			c.Outcome(fmt.Sprintf("eddsa|mismatch|%d|%d", n, thr))
		}
		{
			signers := parties[:thr+1]
			buf := append([]byte(nil), digestAlphabet[0]...)
			_, e1, _ := runAdapters("eddsa", signers, thr, shares, func(id uint16, a adapter, ctx context.Context) ([]byte, error) { return a.Sign(ctx, buf) }, "signing", 900*time.Second)
			copy(buf, digestAlphabet[3])
			sigs2, e2, _ := runAdapters("eddsa", signers, thr, shares, func(id uint16, a adapter, ctx context.Context) ([]byte, error) { return a.Sign(ctx, buf) }, "signing", 900*time.Second)
			c.Add("executions", 2)
			pkA := newAdapter("eddsa", signers[0])
			pkA.SetShareData(shares[signers[0]])
			pk, _ := pkA.ThresholdPK()
			for _, id := range signers {
				c.Add("evaluations", 1)
				if e1[id] == nil && e2[id] == nil && !ed25519.Verify(ed25519.PublicKey(pk), digestAlphabet[3], sigs2[id]) {
					c.Violation("signature-for-requested-digest", "c19-eddsa-signature-not-for-requested-digest:reused-buffer", fmt.Sprintf("%s: two sessions were handed the same digest buffer, refilled in between; the signature party %d returned in the second does not verify for the second digest", what, id), replay{"eddsa", n, thr, "sign"})
				}
			}
			c.Outcome(fmt.Sprintf("eddsa|reused-buffer|%d|%d", n, thr))
		}
		classify(c, "eddsa", n, thr, caps)
		senderBinding(c, "eddsa", n, thr, caps)
		classBinding(c, "eddsa", n, thr, caps)
		reInitBinding(c, "eddsa", n, thr, caps)
		c.Sample("eddsa", map[string]interface{}{"n": n, "t": thr, "captured_messages": len(caps)})
	}}
}

// ---------------------------------------------------------------------------------------------
// ECDSA: the library is run directly (fixture pre-parameters, P-256) to obtain real messages and
// key material; the adapter's classifier, sender binding and Sign are then checked on them.

func fixturesDir() string {
	if d := os.Getenv("VERIF_FIXTURES"); d != "" {
		return d
	}
	return "/verif/fixtures"
}

func loadPre(i int) (*eckeygen.LocalPreParams, error) {
	b, err := os.ReadFile(filepath.Join(fixturesDir(), fmt.Sprintf("keygen_data_%d.json", i)))
	if err != nil {
		return nil, err
	}
	var d eckeygen.LocalPartySaveData
	if err := json.Unmarshal(b, &d); err != nil {
		return nil, err
	}
	return &d.LocalPreParams, nil
}

func pid(id uint16) *tss.PartyID { return tss.NewPartyID(fmt.Sprint(id), "", big.NewInt(int64(id))) }

type ecRun struct {
	saves map[uint16]eckeygen.LocalPartySaveData
	caps  []capMsg
}

func ecdsaKeygen(n, thr int) (*ecRun, error) {
	var pids []*tss.PartyID
	for _, id := range ids(n) {
		pids = append(pids, pid(id))
	}
	sorted := tss.SortPartyIDs(pids)
	pctx := tss.NewPeerContext(sorted)
	out := make(chan tss.Message, 1000)
	end := make(chan *eckeygen.LocalPartySaveData, n)
	ps := map[string]tss.Party{}
	for i, p := range sorted {
		pre, err := loadPre(i)
		if err != nil {
			return nil, err
		}
		params := tss.NewParameters(elliptic.P256(), pctx, p, n, thr)
		ps[p.Id] = eckeygen.NewLocalParty(params, out, end, *pre)
	}
	for _, p := range ps {
		p := p
		go func() { p.Start() }()
	}
	r := &ecRun{saves: map[uint16]eckeygen.LocalPartySaveData{}}
	deadline := time.After(1800 * time.Second)
	for len(r.saves) < n {
		select {
		case <-deadline:
			return nil, fmt.Errorf("ecdsa keygen timed out")
		case m := <-out:
			b, routing, err := m.WireBytes()
			if err != nil {
				return nil, err
			}
			from := uint16(new(big.Int).SetBytes(m.GetFrom().Key).Uint64())
			cm := capMsg{From: from, Bcast: routing.IsBroadcast, Data: b, Phase: "keygen"}
			r.caps = append(r.caps, cm)
			for _, p := range sorted {
				if p.Id == m.GetFrom().Id {
					continue
				}
				if !routing.IsBroadcast {
					hit := false
					for _, to := range m.GetTo() {
						if to.Id == p.Id {
							hit = true
						}
					}
					if !hit {
						continue
					}
				}
				dst := ps[p.Id]
				go dst.UpdateFromBytes(b, m.GetFrom(), routing.IsBroadcast)
			}
		case s := <-end:
			id := uint16(s.ShareID.Uint64())
			_ = id
			// identify the owner by matching Xi's share id against the sorted keys
			for _, p := range sorted {
				if p.KeyInt().Cmp(s.ShareID) == 0 {
					r.saves[uint16(p.KeyInt().Uint64())] = *s
				}
			}
		}
	}
	return r, nil
}

func ecdsaSignDirect(saves map[uint16]eckeygen.LocalPartySaveData, signers []uint16, thr int, digest []byte) ([]capMsg, error) {
	var pids []*tss.PartyID
	for _, id := range signers {
		pids = append(pids, pid(id))
	}
	sorted := tss.SortPartyIDs(pids)
	pctx := tss.NewPeerContext(sorted)
	out := make(chan tss.Message, 1000)
	end := make(chan *common.SignatureData, len(signers))
	ps := map[string]tss.Party{}
	for _, p := range sorted {
		params := tss.NewParameters(elliptic.P256(), pctx, p, len(signers), thr)
		ps[p.Id] = ecsigning.NewLocalParty(new(big.Int).SetBytes(digest), params, saves[uint16(p.KeyInt().Uint64())], out, end)
	}
	for _, p := range ps {
		p := p
		go func() { p.Start() }()
	}
	var caps []capMsg
	done := 0
	deadline := time.After(1800 * time.Second)
	for done < len(signers) {
		select {
		case <-deadline:
			return caps, fmt.Errorf("ecdsa signing timed out")
		case m := <-out:
			b, routing, err := m.WireBytes()
			if err != nil {
				return caps, err
			}
			from := uint16(new(big.Int).SetBytes(m.GetFrom().Key).Uint64())
			caps = append(caps, capMsg{From: from, Bcast: routing.IsBroadcast, Data: b, Phase: "signing"})
			for _, p := range sorted {
				if p.Id == m.GetFrom().Id {
					continue
				}
				if !routing.IsBroadcast {
					hit := false
					for _, to := range m.GetTo() {
						if to.Id == p.Id {
							hit = true
						}
					}
					if !hit {
						continue
					}
				}
				go ps[p.Id].UpdateFromBytes(b, m.GetFrom(), routing.IsBroadcast)
			}
		case <-end:
			done++
		}
	}
	return caps, nil
}

func ecdsaCase(n, thr int) harness.Case {
	return harness.Case{ID: fmt.Sprintf("ecdsa/n%dt%d", n, thr), Run: func(c *harness.C) {
		what := fmt.Sprintf("ecdsa n=%d t=%d", n, thr)
		c.Exec("[ecdsa] " + what)
		r, err := ecdsaKeygen(n, thr)
		c.Add("executions", 1)
		if err != nil {
			c.Note("c19-ecdsa-"+fmt.Sprint(n, thr), "library key generation with fixture pre-parameters failed: "+err.Error())
			c.Cap("ecdsa-keygen-unavailable")
			return
		}
		caps := r.caps
		signers := ids(n)[:thr+1]
		d := digestAlphabet[0]
		scaps, err := ecdsaSignDirect(r.saves, signers, thr, d)
		c.Add("executions", 1)
		if err == nil {
			caps = append(caps, scaps...)
		} else {
			c.Note("c19-ecdsa-sign-direct", err.Error())
		}
		classify(c, "ecdsa", n, thr, caps)
		senderBinding(c, "ecdsa", n, thr, caps)
		classBinding(c, "ecdsa", n, thr, caps)
		reInitBinding(c, "ecdsa", n, thr, caps)
		// the adapter's Sign on the library's key material, over the digest alphabet
		shares := map[uint16][]byte{}
		for id, sv := range r.saves {
			b, _ := json.Marshal(sv)
			shares[id] = b
		}
		long48 := sha512sum384([]byte("c19-long"))
		long64 := sha512sum([]byte("c19-long"))
		ecDigests := append(append([][]byte(nil), digestAlphabet...), long48, long64)
		for di, dg := range ecDigests {
			if di > 2 && di < len(digestAlphabet) && !c.Thorough() {
				continue
			}
			dg := dg
			patience := 1800 * time.Second
			if len(dg) == 32 && new(big.Int).SetBytes(dg).Cmp(elliptic.P256().Params().N) >= 0 {
				patience = 20 * time.Second // refused at once by the library; the adapter waits for the deadline
			}
			sigs, serrs, acaps := runAdapters("ecdsa", signers, thr, shares, func(id uint16, a adapter, ctx context.Context) ([]byte, error) { return a.Sign(ctx, dg) }, "signing", patience)
			c.Add("executions", 1)
			classify(c, "ecdsa", n, thr, acaps)
			pkA := newAdapter("ecdsa", signers[0])
			pkA.SetShareData(shares[signers[0]])
			raw, err := pkA.ThresholdPK()
			if err != nil {
				c.Violation("pk", "c19-ecdsa-pk", err.Error(), nil)
				return
			}
			pub, err := x509.ParsePKIXPublicKey(raw)
			if err != nil {
				c.Violation("pk", "c19-ecdsa-pk", err.Error(), nil)
				return
			}
			// a 32-byte digest that is not below the group order is refused by the library itself
			// (tss-lib: "hashed message is not valid"); the adapter then reports a time-out. No
			// signature is returned, which is all C19 asks for such a digest.
			aboveOrder := len(dg) == 32 && new(big.Int).SetBytes(dg).Cmp(elliptic.P256().Params().N) >= 0
			for _, id := range signers {
				c.Add("evaluations", 1)
				if serrs[id] != nil {
					if aboveOrder {
						c.Add("digests_refused_by_the_library", 1)
						continue
					}
					c.Violation("sign", "c19-ecdsa-sign-fails", fmt.Sprintf("%s digest#%d: party %d: %v", what, di, id, serrs[id]), replay{"ecdsa", n, thr, "sign"})
					return // every further signing run would wait out its patience as well
				}
				if !ecdsa.VerifyASN1(pub.(*ecdsa.PublicKey), dg, sigs[id]) {
					cl := "other"
					if dg[0] == 0 {
						cl = "leading-zero-digest"
					}
					if len(dg) > 32 {
						cl = "long-digest"
					}
					c.Violation("signature-for-requested-digest", "c19-ecdsa-signature-not-for-requested-digest:"+cl, fmt.Sprintf("%s: the signature party %d returned does not verify for the requested digest#%d", what, id, di), replay{"ecdsa", n, thr, "sign"})
				}
			}
			c.Outcome(fmt.Sprintf("ecdsa|sign|%d|%d|%d", n, thr, di))
		}
		if n == 3 && thr == 1 {
			// the caller re-uses its digest buffer: two sessions in a row are handed the same slice,
			// refilled in between; the second signature is for what the buffer holds then
			buf := append([]byte(nil), ecDigests[0]...)
			_, e1, _ := runAdapters("ecdsa", signers, thr, shares, func(id uint16, a adapter, ctx context.Context) ([]byte, error) { return a.Sign(ctx, buf) }, "signing", 1800*time.Second)
			copy(buf, ecDigests[1])
			sigs2, e2, _ := runAdapters("ecdsa", signers, thr, shares, func(id uint16, a adapter, ctx context.Context) ([]byte, error) { return a.Sign(ctx, buf) }, "signing", 1800*time.Second)
			c.Add("executions", 2)
			pkA := newAdapter("ecdsa", signers[0])
			pkA.SetShareData(shares[signers[0]])
			if raw, err := pkA.ThresholdPK(); err == nil {
				if pub, err := x509.ParsePKIXPublicKey(raw); err == nil {
					for _, id := range signers {
						c.Add("evaluations", 1)
						if e1[id] != nil || e2[id] != nil {
							continue
						}
						if !ecdsa.VerifyASN1(pub.(*ecdsa.PublicKey), ecDigests[1], sigs2[id]) {
							first := ecdsa.VerifyASN1(pub.(*ecdsa.PublicKey), ecDigests[0], sigs2[id])
							c.Violation("signature-for-requested-digest", "c19-ecdsa-signature-not-for-requested-digest:reused-buffer", fmt.Sprintf("%s: two sessions were handed the same digest buffer, refilled in between; the signature party %d returned in the second does not verify for the second digest (verifies for the first: %v)", what, id, first), replay{"ecdsa", n, thr, "sign"})
						}
					}
				}
			}
			c.Outcome(fmt.Sprintf("ecdsa|reused-buffer|%d|%d", n, thr))
		}
		c.Sample("ecdsa", map[string]interface{}{"n": n, "t": thr, "captured_messages": len(caps)})
	}}
}

func sha512sum(b []byte) []byte    { h := sha512.Sum512(b); return h[:] }
func sha512sum384(b []byte) []byte { h := sha512.Sum384(b); return h[:] }

func gen(c *harness.C) []harness.Case {
	c.Note("rule", "every message passed to sendMsg / emitted by the library during complete key-generation and signing runs for several (n,t): ClassifyMsg on a fresh adapter must agree with the routing flag, broadcast-class types of one phase get pairwise distinct rounds, each message re-fed as coming from every other party is attributed to that party or dropped, Sign over the digest alphabet (incl. leading zero bytes) returns a signature that verifies for exactly the requested digest, and with mismatching digests nobody returns a signature for a digest it was not asked to sign; EdDSA through the adapters end to end, ECDSA with the library run on fixture pre-parameters (P-256) and the adapter's classifier/Sign on its output; distinct_nontrivial = distinct (scheme, phase, message type) and signing cells")
	var cases []harness.Case
	if os.Getenv("VERIF_FAMILY") == "race" {
		return concurrentCases(c)
	}
	for _, nt := range [][2]int{{2, 1}, {3, 1}, {3, 2}, {4, 2}} {
		cases = append(cases, eddsaCase(nt[0], nt[1]))
	}
	cases = append(cases, staleResultCase(2, 1, 40), staleResultCase(3, 1, 24))
	ec := [][2]int{{3, 1}, {3, 2}}
	if c.Thorough() {
		ec = append(ec, [2]int{4, 3}, [2]int{2, 1})
	}
	for _, nt := range ec {
		cases = append(cases, ecdsaCase(nt[0], nt[1]))
	}
	return cases
}

func TestCheck(t *testing.T) { harness.Main(t, "C19", gen) }
