//go:build !verifoverlay

package c12

import "verif/harness"

func threadCases(c *harness.C) []harness.Case {
	c.Note("threads", "built without the sync-shim overlay: thread-level admission cases not run")
	return nil
}
