package c12

import (
	"fmt"
	"time"

	"verif/harness"
	"verif/stalllib"
)

// A session whose synchronisation-message handler never returns (its reply is stuck behind a peer
// that stopped reading) must not influence other sessions: a Sign on another topic, or a KeyGen,
// issued afterwards is admitted and succeeds. A session whose backend Init outlasted its caller's
// deadline leaves nothing behind: the same call, repeated later, is admitted and succeeds.
func stallCases() []harness.Case {
	var cases []harness.Case
	for _, k := range [][2]string{{"sign", "sign"}, {"sign", "keygen"}, {"keygen", "sign"}} {
		op, other := k[0], k[1]
		name := fmt.Sprintf("stall/sync-handler/%s-then-%s", op, other)
		cases = append(cases, harness.Case{ID: name, Run: func(c *harness.C) {
			c.Exec("[" + name + "]")
			var r stalllib.Result
			if rec := c.Bubble(func() { r = stalllib.SyncHandlerStalls(op, other) }); rec != nil && !harness.IsLeakPanic(rec) {
				panic(rec)
			}
			for _, n := range r.Notes {
				c.Note(name, n)
			}
			c.Add("executions", 1)
			if len(r.Calls) == 2 {
				cl := r.Calls[1]
				if !cl.Returned || cl.Err != nil {
					c.Violation("different-topics-do-not-interfere", "c12-stalled-sync-handler-blocks-other-session:"+other, fmt.Sprintf("the handler of a synchronisation message of a %s session never returns; a %s issued a second later (another topic, cooperative environment) %s", op, other, describeCall(cl)), map[string]interface{}{"stall": "sync-handler", "op": op, "other": other})
				}
			}
			c.Outcome(fmt.Sprintf("%s|%v", name, r.Calls))
		}})
	}
	for _, op := range []string{"sign", "keygen"} {
		op := op
		name := "stall/slow-init/" + op
		cases = append(cases, harness.Case{ID: name, Run: func(c *harness.C) {
			c.Exec("[" + name + "]")
			var r stalllib.Result
			if rec := c.Bubble(func() { r = stalllib.SlowInit(op) }); rec != nil && !harness.IsLeakPanic(rec) {
				panic(rec)
			}
			c.Add("executions", 1)
			if len(r.Calls) == 2 {
				cl := r.Calls[1]
				if !cl.Returned || cl.Err != nil {
					c.Violation("later-call-admitted", "c12-residue-after-slow-init:"+op, fmt.Sprintf("the backend's Init of a %s session outlasted the caller's deadline; the same call repeated after Init had returned (cooperative environment) %s", op, describeCall(cl)), map[string]interface{}{"stall": "slow-init", "op": op})
				}
			}
			c.Outcome(fmt.Sprintf("%s|%v", name, r.Calls))
		}})
	}
	cases = append(cases, harness.Case{ID: "stall/late-sync-failure/sign-retry", Run: func(c *harness.C) {
		c.Exec("[stall/late-sync-failure]")
		var r stalllib.LateResult
		if rec := c.Bubble(func() { r = stalllib.LateSyncFailure() }); rec != nil && !harness.IsLeakPanic(rec) {
			panic(rec)
		}
		for _, n := range r.Notes {
			c.Note("stall/late-sync-failure", n)
		}
		c.Add("executions", 1)
		rp := map[string]interface{}{"stall": "late-sync-failure"}
		if !r.Reached {
			c.Violation("finished-session-leaves-later-one-alone", "c12-finished-session-unregisters-retry", "a Sign on topic a timed out; its synchronisation goroutine learnt of the failure only after the caller had retried on the same topic: afterwards a synchronisation message for the topic no longer reaches the retry's session", rp)
		}
		if r.Third.Returned && r.Third.Err == nil || !r.Third.Returned {
			c.Violation("second-concurrent-session-refused", "c12-retry-not-seen-by-duplicate-check", fmt.Sprintf("... and a third, concurrent Sign on the topic was not refused (%s)", describeCall(r.Third)), rp)
		}
		c.Outcome(fmt.Sprintf("late-sync|%v|%v", r.Reached, r.Third.Err != nil))
	}})
	return cases
}

func describeCall(cl stalllib.Call) string {
	if !cl.Returned {
		return "never returned"
	}
	return fmt.Sprintf("returned %v at %v", cl.Err, cl.At.Round(time.Millisecond))
}
