//go:build verifoverlay

package c12

import (
	"context"
	"encoding/json"
	"fmt"
	"strings"
	"sync/atomic"
	"time"

	"github.com/IBM/TSS/threshold"
	tss "github.com/IBM/TSS/types"
	"verif/backend/s"
	"verif/explore"
	"verif/harness"
	"verif/shim/sched"
	"verif/world"
)

// Thread-level part of C12 (engine E3): admission and clean-up of sessions when the API is called
// from several threads at once. Every interleaving at lock granularity (plus scheduling points in
// the backend and the synchroniser) within the preemption bound:
//   - two Sign calls on the same topic: never both inside the protocol at once (the second
//     concurrent session is refused), both return, and a later Sign on the topic is admitted;
//   - two Sign calls on different topics: both succeed;
//   - two KeyGen calls: never both inside the protocol at once, both return, a later one succeeds.

type ySync struct{ members []uint16 }

func (i *ySync) Synchronize(_ context.Context, f func([]uint16), _ []byte, _ int, _ time.Duration) error {
	sched.Yield()
	f(i.members)
	return nil
}
func (i *ySync) HandleMessage(uint16, []byte) {}

type tBackend struct {
	active *atomic.Int32 // sessions inside the protocol right now
	max    *atomic.Int32
}

func (q *tBackend) enter() {
	sched.Hidden(func() {
		n := q.active.Add(1)
		for {
			m := q.max.Load()
			if n <= m || q.max.CompareAndSwap(m, n) {
				break
			}
		}
	})
	sched.Yield()
	sched.Yield()
	sched.Hidden(func() { q.active.Add(-1) })
}

func (q *tBackend) ClassifyMsg(b []byte) (uint8, bool, error)      { return s.Classify(b) }
func (q *tBackend) Init([]uint16, int, func([]byte, bool, uint16)) {}
func (q *tBackend) OnMsg([]byte, uint16, bool)                     {}
func (q *tBackend) KeyGen(ctx context.Context) ([]byte, error) {
	q.enter()
	return []byte("share"), nil
}
func (q *tBackend) SetShareData([]byte) error { return nil }
func (q *tBackend) Sign(context.Context, []byte) ([]byte, error) {
	q.enter()
	return []byte("sig"), nil
}
func (q *tBackend) ThresholdPK() ([]byte, error) { return []byte("pk"), nil }

type tOut struct {
	errs     [2]error
	max      int32
	later    error
	trace    []string
	deadlock bool
	unfin    []string
}

func threadRun(c *harness.C, variant string, r *explore.Recorder) *tOut {
	o := &tOut{}
	rec := c.Bubble(func() {
		mem := func() map[tss.UniversalID]tss.PartyID { return map[tss.UniversalID]tss.PartyID{1: 1, 2: 2, 3: 3} }
		send := func(uint8, []byte, []byte, ...uint16) {}
		var active, max atomic.Int32
		mk := func() *tBackend { return &tBackend{active: &active, max: &max} }
		p := threshold.LoudScheme(1, world.NopLogger{}, func(uint16) tss.KeyGenerator { return mk() }, func(uint16) tss.Signer { return mk() }, 1, send, mem)
		scm := p.(*threshold.Scheme)
		scm.SyncFactory = func([]uint16, func([]byte), func([]byte, uint16)) tss.Synchronizer {
			if variant == "keygen" {
				return &ySync{members: []uint16{1, 2, 3}}
			}
			return &ySync{members: []uint16{1, 2}}
		}
		p.SetStoredData([]byte("x"))
		topics := [2]string{"a", "a"}
		if variant == "different-topics" {
			topics = [2]string{"a", "b"}
		}
		sc := sched.New()
		defer sc.Close()
		sc.Quantum, sc.Horizon = time.Second, 3
		for i := 0; i < 2; i++ {
			i := i
			sc.Go(fmt.Sprintf("T%d", i), func() {
				ctx, cancel := context.WithTimeout(context.Background(), 2*time.Second)
				defer cancel()
				if variant == "keygen" {
					_, o.errs[i] = p.KeyGen(ctx, 3, 3)
				} else {
					_, o.errs[i] = p.Sign(ctx, world.Sha([]byte("d")), topics[i])
				}
			})
		}
		sc.Run(r)
		o.deadlock = sc.Deadlock
		o.unfin = sc.WaitAll()
		o.trace = sc.Trace
		o.max = max.Load()
		if len(o.unfin) == 0 {
			// no residue: the same operation is admitted afterwards (scheduler detached)
			sc.Close()
			ctx, cancel := context.WithTimeout(context.Background(), 2*time.Second)
			defer cancel()
			if variant == "keygen" {
				_, o.later = p.KeyGen(ctx, 3, 3)
			} else {
				_, o.later = p.Sign(ctx, world.Sha([]byte("d")), "a")
			}
		}
	})
	if rec != nil && !harness.IsLeakPanic(rec) {
		panic(rec)
	}
	return o
}

// stuckRun: two signing sessions (topics a and b) are live on one Scheme. A dispatcher thread
// delivers a point-to-point message for topic a whose backend never returns from OnMsg (an inbound
// queue nobody drains any more); another dispatcher thread then delivers a message for topic b.
// The second delivery must complete: sessions on different topics do not influence each other.
type stuckBackend struct {
	entered chan struct{}
	block   chan struct{}
	got     *atomic.Int32
}

func (q *stuckBackend) ClassifyMsg(b []byte) (uint8, bool, error)      { return s.Classify(b) }
func (q *stuckBackend) Init([]uint16, int, func([]byte, bool, uint16)) {}
func (q *stuckBackend) OnMsg(b []byte, _ uint16, _ bool) {
	if strings.HasSuffix(string(b), "block") {
		<-q.block
		return
	}
	sched.Hidden(func() { q.got.Add(1) })
}
func (q *stuckBackend) SetShareData([]byte) error    { return nil }
func (q *stuckBackend) ThresholdPK() ([]byte, error) { return []byte("pk"), nil }
func (q *stuckBackend) Sign(ctx context.Context, _ []byte) ([]byte, error) {
	q.entered <- struct{}{}
	<-ctx.Done()
	return nil, ctx.Err()
}

func stuckRun(c *harness.C, r *explore.Recorder) (passed int32, unfin []string, trace []string) {
	rec := c.Bubble(func() {
		mem := func() map[tss.UniversalID]tss.PartyID { return map[tss.UniversalID]tss.PartyID{1: 1, 2: 2, 3: 3} }
		send := func(uint8, []byte, []byte, ...uint16) {}
		var got atomic.Int32
		entered := make(chan struct{}, 2)
		block := make(chan struct{})
		p := threshold.LoudScheme(1, world.NopLogger{}, nil, func(uint16) tss.Signer { return &stuckBackend{entered: entered, block: block, got: &got} }, 1, send, mem)
		scm := p.(*threshold.Scheme)
		scm.SyncFactory = func([]uint16, func([]byte), func([]byte, uint16)) tss.Synchronizer {
			return &ySync{members: []uint16{1, 2}}
		}
		p.SetStoredData([]byte("x"))
		ctx, cancel := context.WithCancel(context.Background())
		done := make(chan struct{}, 2)
		for _, t := range []string{"a", "b"} {
			t := t
			go func() {
				p.Sign(ctx, world.Sha([]byte("d")), t)
				done <- struct{}{}
			}()
		}
		<-entered
		<-entered
		sc := sched.New()
		sc.Quantum, sc.Horizon = time.Second, 3
		msg := func(topic, body string) *tss.IncMessage {
			return &tss.IncMessage{Data: append([]byte{255, s.ClassP2P, 0}, []byte(body)...), Source: 2, MsgType: uint8(tss.MsgTypeMPC), Topic: world.Sha([]byte(topic))}
		}
		sc.Go("Da", func() { p.HandleMessage(msg("a", "block")) })
		sc.Go("Db", func() { p.HandleMessage(msg("b", "pass")) })
		sc.Run(r)
		unfin = sc.WaitAll()
		trace = sc.Trace
		sc.Close()
		passed = got.Load()
		close(block)
		cancel()
		<-done
		<-done
	})
	if rec != nil && !harness.IsLeakPanic(rec) {
		panic(rec)
	}
	return
}

func stuckCase(bound int) harness.Case {
	return harness.Case{ID: "threads/stuck-session", Run: func(c *harness.C) {
		var passed int32
		var unfin, trace []string
		reported := false
		e := &explore.Explorer{Stop: c.Expired}
		e.Run = func(r *explore.Recorder) {
			c.Exec(fmt.Sprintf("[threads/stuck-session] %v", r.Prefix))
			passed, unfin, trace = stuckRun(c, r)
		}
		e.Visit = func(r *explore.Recorder) {
			c.Add("executions", 1)
			c.Add("transitions", len(trace))
			c.NewRaceReports()
			stuckB := false
			for _, u := range unfin {
				if u == "Db" {
					stuckB = true
				}
			}
			if (stuckB || passed != 1) && !reported {
				reported = true
				c.Violation("different-topics-do-not-interfere", "c12-stuck-session-blocks-other-topic", fmt.Sprintf("schedule %v (%s): the backend of the session on topic a never returns from OnMsg; the delivery for the session on topic b did not complete (unfinished threads %v, messages handed to b's backend: %d)", explore.Trim(r.Choices()), strings.Join(trace, " "), unfin, passed), threadReplay{"stuck-session", explore.Trim(r.Choices())})
			}
			c.Outcome("stuck|" + strings.Join(trace, ";"))
		}
		if c.Replay != nil {
			var rp threadReplay
			if json.Unmarshal(c.Replay, &rp) == nil && rp.Threads == "stuck-session" {
				e.Explore(rp.Choices, nil, -1)
			}
			return
		}
		e.Explore(nil, nil, bound)
	}}
}

type threadReplay struct {
	Threads string `json:"threads"`
	Choices []int  `json:"choices"`
}

const threadShards = 2

func threadCases(c *harness.C) []harness.Case {
	c.Note("threads-rule", "thread-level exploration (engine E3, lock granularity + scheduling points in backend and synchroniser, -race build) of two concurrent API calls on one real Scheme: same-topic Sign, different-topic Sign, KeyGen; oracle: at most one session per topic / one key generation inside the protocol at any time, both calls return, a later call is admitted and succeeds, different topics both succeed; no data race")
	bound := 2
	if c.Thorough() {
		bound = 3
	}
	var cases []harness.Case
	cases = append(cases, stuckCase(bound))
	for _, v := range []string{"same-topic", "different-topics", "keygen"} {
		for k := 0; k < threadShards; k++ {
			v, k := v, k
			name := "threads/" + v
			cases = append(cases, harness.Case{ID: fmt.Sprintf("%s/shard%d", name, k), Run: func(c *harness.C) {
				var o *tOut
				reported := map[string]bool{}
				viol := func(clause, sig, detail string, rp threadReplay) {
					if !reported[sig] {
						reported[sig] = true
						c.Violation(clause, sig, detail, rp)
					}
				}
				e := &explore.Explorer{Stop: c.Expired}
				e.Run = func(r *explore.Recorder) {
					c.Exec(fmt.Sprintf("[%s] %v", name, r.Prefix))
					o = threadRun(c, v, r)
				}
				e.Visit = func(r *explore.Recorder) {
					c.Add("executions", 1)
					c.Add("transitions", len(o.trace))
					rp := threadReplay{v, explore.Trim(r.Choices())}
					for i := range o.trace {
						c.State(name + "|" + strings.Join(o.trace[:i+1], ";"))
					}
					for _, rr := range c.NewRaceReports() {
						if rr.Frames[0] == "" || rr.Frames[1] == "" {
							c.Add("race_reports_with_harness_frames", 1)
							continue
						}
						viol("no-data-race", "c12-"+rr.Signature, fmt.Sprintf("%s schedule %v: data race between %s and %s", name, rp.Choices, rr.Frames[0], rr.Frames[1]), rp)
					}
					if o.deadlock || len(o.unfin) > 0 {
						viol("calls-return", "c12-threads-never-return:"+v, fmt.Sprintf("%s schedule %v: calls %v never returned", name, rp.Choices, o.unfin), rp)
						return
					}
					switch v {
					case "same-topic":
						if o.max > 1 {
							viol("second-concurrent-session-refused", "c12-two-sessions-on-one-topic", fmt.Sprintf("%s schedule %v (%s): two Sign calls on the same topic were inside the signing protocol at the same time (results: %v, %v)", name, rp.Choices, strings.Join(o.trace, " "), o.errs[0], o.errs[1]), rp)
						}
						if o.errs[0] != nil && o.errs[1] != nil {
							viol("one-session-admitted", "c12-both-same-topic-calls-refused", fmt.Sprintf("%s schedule %v: both calls failed: %v / %v", name, rp.Choices, o.errs[0], o.errs[1]), rp)
						}
					case "different-topics":
						for i, err := range o.errs {
							if err != nil {
								viol("different-topics-do-not-interfere", "c12-different-topic-call-fails", fmt.Sprintf("%s schedule %v: call %d failed: %v", name, rp.Choices, i, err), rp)
							}
						}
					case "keygen":
						if o.max > 1 {
							viol("one-keygen-at-a-time", "c12-two-keygens-at-once", fmt.Sprintf("%s schedule %v: two KeyGen calls were inside the protocol at the same time", name, rp.Choices), rp)
						}
						if o.errs[0] != nil && o.errs[1] != nil {
							viol("one-session-admitted", "c12-both-keygen-calls-refused", fmt.Sprintf("%s schedule %v: both calls failed: %v / %v", name, rp.Choices, o.errs[0], o.errs[1]), rp)
						}
					}
					if o.later != nil {
						viol("no-residue", "c12-later-call-not-admitted:"+v, fmt.Sprintf("%s schedule %v: after both calls returned (%v / %v) a later call failed: %v", name, rp.Choices, o.errs[0], o.errs[1], o.later), rp)
					}
					if c.Outcome(fmt.Sprintf("%s|%v|%v|%d", name, o.errs[0] == nil, o.errs[1] == nil, o.max)) {
						c.Sample("threads", map[string]interface{}{"scenario": v, "choices": rp.Choices, "results": fmt.Sprint(o.errs), "max_concurrent": o.max})
					}
				}
				if c.Replay != nil {
					var rp threadReplay
					if json.Unmarshal(c.Replay, &rp) == nil && rp.Threads == v {
						e.Explore(rp.Choices, nil, -1)
					}
					return
				}
				root := &explore.Recorder{}
				c.Exec(fmt.Sprintf("[%s] root", name))
				threadRun(c, v, root)
				if k == 0 {
					e.Explore(nil, nil, -1)
				} else {
					c.NewRaceReports()
				}
				for i, t := range explore.RootTasks(root) {
					if i%threadShards != k {
						continue
					}
					cost := 1
					if root.Points[t[0]].Free {
						cost = 0
					}
					if bound-cost < 0 {
						continue
					}
					e.Explore(explore.TaskPrefix(t[0], t[1]), root.Labels(), bound-cost)
					if e.Capped {
						break
					}
				}
				if e.NondetPrefixes > 0 {
					c.Add("nondeterministic_prefixes", e.NondetPrefixes)
					c.Cap("nondeterministic-prefix")
				}
			}})
		}
	}
	return cases
}
