package c12

import (
	"bytes"
	"encoding/json"
	"fmt"
	"os"
	"strings"
	"testing"
	"time"

	"github.com/IBM/TSS/threshold"
	tss "github.com/IBM/TSS/types"
	"verif/backend/s"
	"verif/dump"
	"verif/explore"
	"verif/harness"
	"verif/scen"
	"verif/world"
)

const deadline = 1500 * time.Millisecond

var members = []uint16{1, 2, 3}

var ops = []string{"KG", "KGt", "KGt2", "KGtp", "KG||KG", "SG:a", "SG:b", "SGt1:a", "SGt2:a", "SGtp:a", "SGbad:a", "SG:a||SG:b", "SG:a||SG:a", "late", "foreign:a", "dup:a"}

func schemeOf(p tss.MpcParty) interface{} {
	if sc, ok := p.(*threshold.Scheme); ok {
		return sc
	}
	if f, ok := dump.Field(p, "Scheme"); ok && f.CanInterface() {
		return f.Interface()
	}
	return nil
}

func storedFor(id uint16) []byte {
	b, _ := json.Marshal(s.Stored{Parties: members, Thr: 1, Key: s.DKGKey(members), Self: id})
	return b
}

func topicHash(t string) []byte { return world.Sha([]byte(t)) }

type env struct {
	c     *harness.C
	mode  string
	w     *world.World
	lg    *s.Log
	rs    *scen.Results
	seq   []string
	opIdx int
	// packets sent during the previous op
	prevSends []*world.Packet
	bad       func(clause, sig, detail string)
}

func (e *env) tables(where string) {
	for _, id := range members {
		sc := schemeOf(e.w.Parties[id].Mpc)
		if sc == nil {
			e.c.Note("c12-tables", "Scheme not reachable by reflection: residue clause checked only via behaviour")
			return
		}
		for _, tb := range []string{"syncsInProgress", "rbcInProgress", "messageClassifiers"} {
			if ks := dump.MapKeys(sc, tb); len(ks) > 0 {
				e.bad("no-residue", "c12-residue:"+tb+":"+where, fmt.Sprintf("after %s party %d still has %d entries in %s", where, id, len(ks), tb))
			}
		}
		if f, ok := dump.Field(sc, "dkgRunning"); ok && f.Bool() {
			e.bad("no-residue", "c12-residue:dkgRunning:"+where, fmt.Sprintf("after %s party %d still has dkgRunning set", where, id))
		}
	}
}

func (e *env) key(name string, id uint16) string { return fmt.Sprintf("%d/%s/%d", e.opIdx, name, id) }

func (e *env) loop() {
	e.w.Loop(&explore.Recorder{}, e.w.Now()+deadline+400*time.Millisecond)
}

func (e *env) expect(name string, id uint16, wantOK bool, sig string) *scen.Result {
	r := e.rs.Get(e.key(name, id))
	op := e.seq[e.opIdx]
	if r == nil || !r.Returned {
		e.bad("returns", "c12-never-returns:"+sig, fmt.Sprintf("op %d (%s): call %s of party %d did not return", e.opIdx, op, name, id))
		return nil
	}
	if wantOK && r.Err != nil {
		e.bad("later-session-admitted-and-succeeds", "c12-fails:"+sig+":after:"+prevClass(e.seq, e.opIdx), fmt.Sprintf("op %d (%s) of history %v: call %s of party %d failed: %v", e.opIdx, op, e.seq, name, id, r.Err))
	}
	if !wantOK && r.Err == nil {
		e.bad("fails-cleanly", "c12-unexpected-success:"+sig, fmt.Sprintf("op %d (%s): call %s of party %d succeeded", e.opIdx, op, name, id))
	}
	return r
}

// prevClass: which earlier ops (failed ones matter) preceded, as a set, for the signature.
func prevClass(seq []string, i int) string {
	seen := map[string]bool{}
	var out []string
	for _, o := range seq[:i] {
		if !seen[o] {
			seen[o] = true
			out = append(out, o)
		}
	}
	return strings.Join(out, ",")
}

func (e *env) sign(name string, id uint16, topic string, data []byte) {
	p := e.w.Parties[id]
	p.Mpc.SetStoredData(data)
	scen.StartSign(e.w, p, e.rs, e.key(name, id), []byte("digest-"+topic), topic, deadline)
}

func (e *env) checkSig(name string, id uint16, topic string) {
	r := e.rs.Get(e.key(name, id))
	if r == nil || !r.Returned || r.Err != nil {
		return
	}
	if !s.VerifySig(s.DKGKey(members), []byte("digest-"+topic), []uint16{1, 2}, r.Data) {
		e.bad("non-interference", "c12-wrong-signature", fmt.Sprintf("op %d (%s): party %d returned a signature for topic %s that differs from the one of the same session run alone", e.opIdx, e.seq[e.opIdx], id, topic))
	}
}

func (e *env) runOp(op string) {
	w := e.w
	sendStart := len(w.Net.SendLog)
	logStart := len(e.lg.Snapshot())
	w.Net.Filter = nil
	switch {
	case op == "KG":
		for _, id := range members {
			scen.StartKeyGen(w, w.Parties[id], e.rs, e.key("kg", id), 3, 3, deadline)
		}
		e.loop()
		for _, id := range members {
			e.expect("kg", id, true, "KG")
		}
	case op == "KGt":
		for _, id := range []uint16{1, 2} {
			scen.StartKeyGen(w, w.Parties[id], e.rs, e.key("kg", id), 3, 3, deadline)
		}
		e.loop()
		for _, id := range []uint16{1, 2} {
			e.expect("kg", id, false, "KGt")
		}
	case op == "KGt2":
		// the membership agreement (second synchronisation of a key generation) never completes:
		// party 3's traffic on every synchronisation topic but the first is withheld
		first := world.Sha([]byte(tss.DkgTopicName))
		w.Net.Filter = func(p *world.Packet) []*world.Packet {
			if p.From == 3 && p.Type == 1 && !bytes.Equal(p.Topic, first) {
				return nil
			}
			return []*world.Packet{p}
		}
		for _, id := range members {
			scen.StartKeyGen(w, w.Parties[id], e.rs, e.key("kg", id), 3, 3, deadline)
		}
		e.loop()
		if e.mode == "silent" {
			for _, id := range members {
				e.expect("kg", id, true, "KGt2-silent")
			}
			break
		}
		e.expect("kg", 1, false, "KGt2")
		e.expect("kg", 2, false, "KGt2")
		e.expect2ret("kg", 3)
	case op == "KGtp":
		// the protocol itself never completes: party 3's protocol payloads are withheld
		w.Net.Filter = func(p *world.Packet) []*world.Packet {
			if p.From == 3 && p.Type == 2 && len(p.Data) > 0 && p.Data[0] == 255 {
				return nil
			}
			return []*world.Packet{p}
		}
		for _, id := range members {
			scen.StartKeyGen(w, w.Parties[id], e.rs, e.key("kg", id), 3, 3, deadline)
		}
		e.loop()
		e.expect("kg", 1, false, "KGtp")
		e.expect("kg", 2, false, "KGtp")
		e.expect2ret("kg", 3)
	case op == "KG||KG":
		scen.StartKeyGen(w, w.Parties[1], e.rs, e.key("kg", 1), 3, 3, deadline)
		w.Settle()
		scen.StartKeyGen(w, w.Parties[1], e.rs, e.key("kg2", 1), 3, 3, deadline)
		w.Settle()
		for _, id := range []uint16{2, 3} {
			scen.StartKeyGen(w, w.Parties[id], e.rs, e.key("kg", id), 3, 3, deadline)
		}
		e.loop()
		e.expect("kg", 1, true, "KG||KG-first")
		e.expect("kg2", 1, false, "KG||KG-second")
		e.expect("kg", 2, true, "KG||KG")
		e.expect("kg", 3, true, "KG||KG")
	case strings.HasPrefix(op, "SG:") && !strings.Contains(op, "||"):
		t := op[3:]
		for _, id := range []uint16{1, 2} {
			e.sign("sg", id, t, storedFor(id))
		}
		e.loop()
		for _, id := range []uint16{1, 2} {
			e.expect("sg", id, true, "SG")
			e.checkSig("sg", id, t)
		}
	case op == "SGt1:a":
		e.sign("sg", 1, "a", storedFor(1))
		e.loop()
		e.expect("sg", 1, false, "SGt1")
	case op == "SGt2:a":
		st := world.Sha(topicHash("a"))
		w.Net.Filter = func(p *world.Packet) []*world.Packet {
			if p.From == 2 && p.Type == 1 && bytes.Equal(p.Topic, st) {
				return nil
			}
			return []*world.Packet{p}
		}
		for _, id := range []uint16{1, 2} {
			e.sign("sg", id, "a", storedFor(id))
		}
		e.loop()
		if e.mode == "silent" {
			// the silent synchroniser exchanges no barrier traffic: nothing was withheld
			e.expect("sg", 1, true, "SGt2-silent")
			e.expect("sg", 2, true, "SGt2-silent")
			break
		}
		e.expect("sg", 1, false, "SGt2")
		// (party 2 hears party 1 and may or may not complete its barrier; only return is required)
		e.expect2ret("sg", 2)
	case op == "SGtp:a":
		th := topicHash("a")
		w.Net.Filter = func(p *world.Packet) []*world.Packet {
			if p.From == 2 && p.Type == 2 && bytes.Equal(p.Topic, th) && len(p.Data) > 0 && p.Data[0] == 255 {
				return nil
			}
			return []*world.Packet{p}
		}
		for _, id := range []uint16{1, 2} {
			e.sign("sg", id, "a", storedFor(id))
		}
		e.loop()
		e.expect("sg", 1, false, "SGtp")
		e.expect2ret("sg", 2)
	case op == "SGbad:a":
		e.sign("sg", 1, "a", []byte("not a share"))
		e.sign("sg", 2, "a", storedFor(2))
		e.loop()
		e.expect("sg", 1, false, "SGbad")
		e.expect("sg", 2, false, "SGbad-peer")
	case op == "SG:a||SG:b":
		for _, id := range []uint16{1, 2} {
			e.sign("sga", id, "a", storedFor(id))
			e.sign("sgb", id, "b", storedFor(id))
		}
		e.loop()
		for _, id := range []uint16{1, 2} {
			e.expect("sga", id, true, "SGa||SGb")
			e.expect("sgb", id, true, "SGa||SGb")
			e.checkSig("sga", id, "a")
			e.checkSig("sgb", id, "b")
		}
	case op == "SG:a||SG:a":
		e.sign("sg", 1, "a", storedFor(1))
		w.Settle()
		e.sign("sg2", 1, "a", storedFor(1))
		w.Settle()
		e.sign("sg", 2, "a", storedFor(2))
		e.loop()
		e.expect("sg", 1, true, "SGa||SGa-first")
		e.expect("sg2", 1, false, "SGa||SGa-second")
		e.expect("sg", 2, true, "SGa||SGa")
		e.checkSig("sg", 1, "a")
	case op == "late":
		// re-deliver everything the previous op sent
		n := 0
		for _, p := range e.prevSends {
			if w.Parties[p.To] == nil || p.To == p.From {
				continue
			}
			w.Net.Inject(&world.Packet{From: p.From, To: p.To, Type: p.Type, Topic: p.Topic, Data: p.Data})
			n++
		}
		before := e.tablesDump()
		for w.Net.InFlight() > 0 {
			w.Settle()
			ds := w.Deliverable()
			if len(ds) == 0 {
				break
			}
			w.Deliver(ds[0])
		}
		w.Settle()
		for _, r := range e.lg.Snapshot()[logStart:] {
			if r.Kind == "onmsg" {
				e.bad("late-traffic-no-effect", "c12-late-message-handed-over", fmt.Sprintf("a message of the finished session (%s) re-delivered after return reached the backend of node %d", e.prevOp(), r.Node))
				break
			}
		}
		if after := e.tablesDump(); after != before {
			e.bad("late-traffic-no-effect", "c12-late-message-changes-tables", "late traffic changed the handler tables")
		}
		e.c.Add("late_messages", n)
	case op == "foreign:a":
		th := topicHash("a")
		w.Net.Filter = func(p *world.Packet) []*world.Packet {
			// node 3 (configured, not a signer) copies every MPC message of node 2 to node 1
			if p.From == 2 && p.To == 1 && p.Type == 2 && bytes.Equal(p.Topic, th) {
				q := *p
				q.From = 3
				return []*world.Packet{p, &q}
			}
			return []*world.Packet{p}
		}
		for _, id := range []uint16{1, 2} {
			e.sign("sg", id, "a", storedFor(id))
		}
		e.loop()
		for _, id := range []uint16{1, 2} {
			e.expect("sg", id, true, "foreign")
			e.checkSig("sg", id, "a")
		}
		for _, r := range e.lg.Snapshot()[logStart:] {
			if r.Kind == "onmsg" && r.From == 3 {
				e.bad("non-participant-filtered", "c12-foreign-message-handed-over", fmt.Sprintf("a message from non-participant 3 reached the signing instance of node %d", r.Node))
				break
			}
		}
	case op == "dup:a":
		w.Net.Filter = func(p *world.Packet) []*world.Packet {
			q := *p
			return []*world.Packet{p, &q}
		}
		for _, id := range []uint16{1, 2} {
			e.sign("sg", id, "a", storedFor(id))
		}
		e.loop()
		for _, id := range []uint16{1, 2} {
			e.expect("sg", id, true, "dup")
			e.checkSig("sg", id, "a")
		}
		cnt := map[string]int{}
		for _, r := range e.lg.Snapshot()[logStart:] {
			if r.Kind == "onmsg" && r.Broadcast {
				k := fmt.Sprintf("%d|%d|%x", r.Node, r.From, r.Payload)
				cnt[k]++
				if cnt[k] == 2 {
					e.bad("duplicate-no-effect", "c12-duplicate-broadcast-handed-over", fmt.Sprintf("a duplicated broadcast of %d was handed to node %d twice", r.From, r.Node))
				}
			}
		}
	default:
		panic("unknown op " + op)
	}
	w.Net.Filter = nil
	// drain whatever is still in flight (late traffic of this very session), then let the
	// goroutines of timed-out sessions finish
	for i := 0; i < 10000; i++ {
		w.Settle()
		ds := w.Deliverable()
		if len(ds) == 0 {
			break
		}
		w.Deliver(ds[0])
	}
	w.Advance(400 * time.Millisecond)
	e.tables(opClass(op))
	e.prevSends = append([]*world.Packet(nil), w.Net.SendLog[sendStart:]...)
}

func opClass(op string) string { return strings.SplitN(op, ":", 2)[0] }

func (e *env) prevOp() string {
	if e.opIdx == 0 {
		return "-"
	}
	return e.seq[e.opIdx-1]
}

func (e *env) expect2ret(name string, id uint16) {
	r := e.rs.Get(e.key(name, id))
	if r == nil || !r.Returned {
		e.bad("returns", "c12-never-returns:"+opClass(e.seq[e.opIdx]), fmt.Sprintf("op %d (%s): party %d did not return", e.opIdx, e.seq[e.opIdx], id))
	}
}

func (e *env) tablesDump() string {
	var sb strings.Builder
	for _, id := range members {
		if sc := schemeOf(e.w.Parties[id].Mpc); sc != nil {
			sb.WriteString(dump.Fields(sc, "syncsInProgress", "rbcInProgress", "messageClassifiers", "dkgRunning"))
		}
	}
	return sb.String()
}

type replay struct {
	Mode string   `json:"mode"`
	Seq  []string `json:"seq"`
}

func runSeq(c *harness.C, mode string, seq []string) {
	c.Exec(fmt.Sprintf("[c12/%s] %v", mode, seq))
	reported := map[string]bool{}
	rec := c.Bubble(func() {
		w := world.New(members)
		lg := s.NewLog()
		po := func(n uint16) uint16 { return n }
		st := &scen.Stack{Mode: mode, Threshold: 1, Membership: scen.Identity(members),
			KGF: func(id uint16) tss.KeyGenerator { return s.New(id, po, lg) },
			SF:  func(id uint16) tss.Signer { return s.New(id, po, lg) }}
		dkg := topicHash(tss.DkgTopicName)
		st.Pick = func(topic []byte, expected int) []uint16 {
			if bytes.Equal(topic, dkg) {
				return members
			}
			return []uint16{1, 2}
		}
		for _, id := range members {
			st.Build(w, id)
		}
		e := &env{c: c, mode: mode, w: w, lg: lg, rs: scen.NewResults(), seq: seq}
		e.bad = func(clause, sig, detail string) {
			if overlapSlice != "" {
				// C04's slice: deliveries of two sessions that are in flight at the same nodes at
				// once are all handed over (each session completes with the right result)
				op := ""
				if e.opIdx < len(seq) {
					op = seq[e.opIdx]
				}
				if !strings.Contains(op, "||") || !(strings.HasPrefix(sig, "c12-fails") || strings.HasPrefix(sig, "c12-wrong-signature")) {
					return
				}
				clause = "totality with two sessions in flight (" + clause + ")"
				sig = strings.ToLower(overlapSlice) + "-overlapping-sessions-" + sig
			}
			sig = sig + ":" + mode
			if reported[sig] {
				return
			}
			reported[sig] = true
			c.Violation(clause, sig, fmt.Sprintf("%s history %v: %s", mode, seq, detail), replay{mode, seq})
		}
		for i, op := range seq {
			e.opIdx = i
			e.runOp(op)
			c.Add("transitions", 1)
		}
		c.State(mode + "|" + strings.Join(seq, ">") + "|" + e.tablesDump())
		w.Stop()
	})
	if rec != nil && !harness.IsLeakPanic(rec) {
		panic(rec)
	}
	c.Add("executions", 1)
	if c.Outcome(mode+"|"+strings.Join(seq, ">")) && len(seq) > 1 {
		c.Sample("history", map[string]interface{}{"mode": mode, "ops": seq})
	}
}

var overlapSlice = func() string {
	if os.Getenv("VERIF_FAMILY") == "overlap" {
		return os.Getenv("VERIF_PROP")
	}
	return ""
}()

func gen(c *harness.C) []harness.Case {
	if overlapSlice != "" {
		c.Property = overlapSlice
	}
	c.Note("rule", "all operation sequences up to the depth bound over the alphabet "+strings.Join(ops, " | ")+", executed on one persistent world of real Schemes (backend S, n=3, signers {1,2}) with the default schedule inside each operation; after every operation the handler tables (reflection) must be empty, every cooperative operation must succeed whatever preceded it; distinct_nontrivial = distinct (mode, history)")
	depth := 4
	if c.Thorough() {
		depth = 5
	}
	if overlapSlice != "" {
		depth = 2
		if c.Thorough() {
			depth = 3
		}
	}
	if os.Getenv("VERIF_FAMILY") == "threads" {
		return threadCases(c)
	}
	if r := c.Replay; r != nil {
		var st struct {
			Stall string `json:"stall"`
		}
		if json.Unmarshal(r, &st) == nil && st.Stall != "" {
			return stallCases() // the driver names the case it wants (VERIF_ONLY)
		}
		var rp replay
		if json.Unmarshal(r, &rp) == nil {
			return []harness.Case{{ID: os.Getenv("VERIF_ONLY"), Run: func(c *harness.C) { runSeq(c, rp.Mode, rp.Seq) }}}
		}
	}
	var cases []harness.Case
	if overlapSlice == "" {
		cases = append(cases, stallCases()...)
	}
	for _, mode := range []string{"loud", "silent"} {
		mode := mode
		// one case per (first, second) pair: the worker enumerates the deeper suffixes
		for _, a := range ops {
			for _, b := range append([]string{""}, ops...) {
				a, b := a, b
				cases = append(cases, harness.Case{ID: fmt.Sprintf("%s/%s/%s", mode, a, b), Run: func(c *harness.C) {
					if b == "" {
						runSeq(c, mode, []string{a})
						return
					}
					var rec func(seq []string)
					rec = func(seq []string) {
						if c.Expired() {
							return
						}
						runSeq(c, mode, seq)
						if len(seq) < depth {
							for _, o := range ops {
								rec(append(append([]string(nil), seq...), o))
							}
						}
					}
					rec([]string{a, b})
				}})
			}
		}
	}
	return cases
}

func TestCheck(t *testing.T) { harness.Main(t, "C12", gen) }
