package c09

import (
	"bytes"
	"context"
	"encoding/asn1"
	"fmt"
	"os"
	"testing"
	"time"

	"github.com/IBM/TSS/mpc/ps"
	math "github.com/IBM/mathlib"
	"verif/cryptolib"
	"verif/harness"
	"verif/world"
)

var cv = cryptolib.Curve

func g1plus(b []byte) []byte {
	p, err := cv.NewG1FromBytes(b)
	if err != nil {
		return b
	}
	p.Add(cv.GenG1)
	return p.Bytes()
}

func g2plus(b []byte) []byte {
	p, err := cv.NewG2FromBytes(b)
	if err != nil {
		return b
	}
	p.Add(cv.GenG2)
	return p.Bytes()
}

func zrplus(b []byte) []byte { return cv.NewZrFromBytes(b).Plus(cv.NewZrFromInt(1)).Bytes() }

// ---------------------------------------------------------------------------------------------
// PS

type psWorld struct {
	n, t, l int
	signers map[uint16]*ps.TPS
	tpk     []byte
	pr      *ps.Prover
	v       *ps.Verifier
}

func newPS(n, t, l int) (*psWorld, error) {
	shares, errs := cryptolib.DKG("ps", n, t, l, nil, 30*time.Second)
	for _, e := range errs {
		if e != nil {
			return nil, e
		}
	}
	sg, err := cryptolib.PSSigners(n, t, l, shares)
	if err != nil {
		return nil, err
	}
	tpk, err := sg[1].ThresholdPK()
	if err != nil {
		return nil, err
	}
	pr := &ps.Prover{Logger: world.NopLogger{}}
	if err := pr.Init(cv, l, tpk, cryptolib.IDs(n)); err != nil {
		return nil, err
	}
	v := &ps.Verifier{}
	if err := v.Init(cv, l, tpk); err != nil {
		return nil, err
	}
	return &psWorld{n, t, l, sg, tpk, pr, v}, nil
}

type fieldMut struct {
	name string
	mut  func(r *ps.RawBlindSignature, p *ps.RawBlindCorrectProof)
}

func reqMutations(l int) []fieldMut {
	n := l + 1
	ms := []fieldMut{
		{"cm+G", func(r *ps.RawBlindSignature, p *ps.RawBlindCorrectProof) { r.CM = g1plus(r.CM) }},
		{"u+G", func(r *ps.RawBlindSignature, p *ps.RawBlindCorrectProof) { r.U = g1plus(r.U) }},
		{"s+G", func(r *ps.RawBlindSignature, p *ps.RawBlindCorrectProof) { p.S = g1plus(p.S) }},
		{"z+1", func(r *ps.RawBlindSignature, p *ps.RawBlindCorrectProof) { p.Z = zrplus(p.Z) }},
	}
	for i := 0; i < n; i++ {
		i := i
		ms = append(ms,
			fieldMut{fmt.Sprintf("a[%d]+G", i), func(r *ps.RawBlindSignature, p *ps.RawBlindCorrectProof) { r.A[i] = g1plus(r.A[i]) }},
			fieldMut{fmt.Sprintf("b[%d]+G", i), func(r *ps.RawBlindSignature, p *ps.RawBlindCorrectProof) { r.B[i] = g1plus(r.B[i]) }},
			fieldMut{fmt.Sprintf("d[%d]+G", i), func(r *ps.RawBlindSignature, p *ps.RawBlindCorrectProof) { p.D[i] = g1plus(p.D[i]) }},
			fieldMut{fmt.Sprintf("f[%d]+G", i), func(r *ps.RawBlindSignature, p *ps.RawBlindCorrectProof) { p.F[i] = g1plus(p.F[i]) }},
			fieldMut{fmt.Sprintf("x[%d]+1", i), func(r *ps.RawBlindSignature, p *ps.RawBlindCorrectProof) { p.X[i] = zrplus(p.X[i]) }},
			fieldMut{fmt.Sprintf("y[%d]+1", i), func(r *ps.RawBlindSignature, p *ps.RawBlindCorrectProof) { p.Y[i] = zrplus(p.Y[i]) }},
		)
	}
	// surplus / missing components: a request is exactly what the prover built, no longer, no shorter
	type vecs struct {
		name string
		get  func(r *ps.RawBlindSignature, p *ps.RawBlindCorrectProof) *[][]byte
	}
	for _, vc := range []vecs{
		{"a", func(r *ps.RawBlindSignature, p *ps.RawBlindCorrectProof) *[][]byte { return &r.A }},
		{"b", func(r *ps.RawBlindSignature, p *ps.RawBlindCorrectProof) *[][]byte { return &r.B }},
		{"d", func(r *ps.RawBlindSignature, p *ps.RawBlindCorrectProof) *[][]byte { return &p.D }},
		{"f", func(r *ps.RawBlindSignature, p *ps.RawBlindCorrectProof) *[][]byte { return &p.F }},
		{"x", func(r *ps.RawBlindSignature, p *ps.RawBlindCorrectProof) *[][]byte { return &p.X }},
		{"y", func(r *ps.RawBlindSignature, p *ps.RawBlindCorrectProof) *[][]byte { return &p.Y }},
	} {
		vc := vc
		ms = append(ms,
			fieldMut{"surplus-" + vc.name + "-copy-of-first", func(r *ps.RawBlindSignature, p *ps.RawBlindCorrectProof) {
				v := vc.get(r, p)
				*v = append(append([][]byte(nil), *v...), (*v)[0])
			}},
			fieldMut{"surplus-" + vc.name + "-copy-of-last-twice", func(r *ps.RawBlindSignature, p *ps.RawBlindCorrectProof) {
				v := vc.get(r, p)
				last := (*v)[len(*v)-1]
				*v = append(append([][]byte(nil), *v...), last, last)
			}},
			fieldMut{"missing-last-" + vc.name, func(r *ps.RawBlindSignature, p *ps.RawBlindCorrectProof) {
				v := vc.get(r, p)
				*v = append([][]byte(nil), (*v)[:len(*v)-1]...)
			}},
		)
	}
	ms = append(ms, fieldMut{"surplus-a-and-b", func(r *ps.RawBlindSignature, p *ps.RawBlindCorrectProof) {
		r.A = append(append([][]byte(nil), r.A...), r.A[0])
		r.B = append(append([][]byte(nil), r.B...), r.B[0])
	}})
	if n >= 2 {
		ms = append(ms,
			fieldMut{"swap-a[0]-a[1]", func(r *ps.RawBlindSignature, p *ps.RawBlindCorrectProof) { r.A[0], r.A[1] = r.A[1], r.A[0] }},
			fieldMut{"swap-b[0]-b[1]", func(r *ps.RawBlindSignature, p *ps.RawBlindCorrectProof) { r.B[0], r.B[1] = r.B[1], r.B[0] }},
			fieldMut{"swap-a[0]-b[0]", func(r *ps.RawBlindSignature, p *ps.RawBlindCorrectProof) { r.A[0], r.B[0] = r.B[0], r.A[0] }},
		)
	}
	return ms
}

func parseReq(b []byte) (ps.RawBlindSignature, ps.RawBlindCorrectProof, error) {
	var r ps.RawBlindSignature
	var p ps.RawBlindCorrectProof
	if _, err := asn1.Unmarshal(b, &r); err != nil {
		return r, p, err
	}
	_, err := asn1.Unmarshal(r.CorrectFormProof, &p)
	return r, p, err
}

func packReq(r ps.RawBlindSignature, p ps.RawBlindCorrectProof) []byte {
	pb, _ := asn1.Marshal(p)
	r.CorrectFormProof = pb
	b, _ := asn1.Marshal(r)
	return b
}

type pokMut struct {
	name string
	mut  func(d [][]byte, q *ps.RawPoKofSignaturePoCorrectForm)
}

func pokMutations(l int) []pokMut {
	ms := []pokMut{
		{"y+1", func(d [][]byte, q *ps.RawPoKofSignaturePoCorrectForm) { q.Y = zrplus(q.Y) }},
		{"Gamma+G", func(d [][]byte, q *ps.RawPoKofSignaturePoCorrectForm) { q.Gamma = g2plus(q.Gamma) }},
		{"Phi+G", func(d [][]byte, q *ps.RawPoKofSignaturePoCorrectForm) { q.Phi = g1plus(q.Phi) }},
		{"h^e+G", func(d [][]byte, q *ps.RawPoKofSignaturePoCorrectForm) { d[1] = g1plus(d[1]) }},
		{"h'^e+G", func(d [][]byte, q *ps.RawPoKofSignaturePoCorrectForm) { d[2] = g1plus(d[2]) }},
		{"nu+G", func(d [][]byte, q *ps.RawPoKofSignaturePoCorrectForm) { d[3] = g1plus(d[3]) }},
		{"kappa+G", func(d [][]byte, q *ps.RawPoKofSignaturePoCorrectForm) { d[4] = g2plus(d[4]) }},
	}
	for i := 0; i <= l; i++ {
		i := i
		ms = append(ms, pokMut{fmt.Sprintf("x[%d]+1", i), func(d [][]byte, q *ps.RawPoKofSignaturePoCorrectForm) { q.X[i] = zrplus(q.X[i]) }})
	}
	return ms
}

func parsePok(b []byte) ([][]byte, ps.RawPoKofSignaturePoCorrectForm, error) {
	var r ps.RawSigPok
	var q ps.RawPoKofSignaturePoCorrectForm
	if _, err := asn1.Unmarshal(b, &r); err != nil {
		return nil, q, err
	}
	if len(r.Data) != 5 {
		return nil, q, fmt.Errorf("unexpected proof layout")
	}
	_, err := asn1.Unmarshal(r.Data[0], &q)
	return r.Data, q, err
}

func packPok(d [][]byte, q ps.RawPoKofSignaturePoCorrectForm) []byte {
	qb, _ := asn1.Marshal(q)
	dd := append([][]byte{qb}, d[1:]...)
	b, _ := asn1.Marshal(ps.RawSigPok{Data: dd})
	return b
}

func psCase(n, t, l int) harness.Case {
	return harness.Case{ID: fmt.Sprintf("%sps/n%dt%dL%d", buildPrefix, n, t, l), Run: func(c *harness.C) {
		what := fmt.Sprintf("ps n=%d t=%d L=%d", n, t, l)
		c.Exec("[ps] " + what)
		var w, w2 *psWorld
		var err error
		if w, err = newPS(n, t, l); err == nil {
			w2, err = newPS(n, t, l)
		}
		if err != nil {
			c.Violation("setup", "c09-setup", err.Error(), nil)
			return
		}
		msg := make([][]byte, l)
		for i := range msg {
			msg[i] = []byte{byte(i), 'm'}
		}
		req, secret := w.pr.Blind(msg)
		reqBytes := req.Bytes()
		req2, _ := w.pr.Blind(msg) // another request (for proof substitution)
		signV := func(b []byte) (rejected bool) {
			defer func() {
				if r := recover(); r != nil {
					rejected = true
					c.Add("panics_as_rejection", 1)
				}
			}()
			_, err := w.signers[1].Sign(context.Background(), b)
			return err != nil
		}
		check := func(kind, name string, wantReject bool, f func() bool) {
			c.Add("evaluations", 1)
			r1 := f()
			r2 := f()
			rp := map[string]interface{}{"n": n, "t": t, "L": l, "object": kind, "perturbation": name}
			if r1 != r2 {
				c.Violation("same-verdict-again", "c09-ps-verdict-changes:"+kind, fmt.Sprintf("%s %s %s: first verdict rejected=%v, second rejected=%v", what, kind, name, r1, r2), rp)
			}
			if r1 != wantReject {
				if wantReject {
					c.Violation("altered-is-rejected", "c09-ps-accepts:"+kind+":"+name, fmt.Sprintf("%s: %s with %s was accepted", what, kind, name), rp)
				} else {
					c.Violation("genuine-is-accepted", "c09-ps-rejects-genuine:"+kind, fmt.Sprintf("%s: genuine %s rejected (%s)", what, kind, name), rp)
				}
			}
			c.Outcome(fmt.Sprintf("ps|%d|%d|%d|%s|%s", n, t, l, kind, name))
		}
		// --- signing request
		check("request", "genuine", false, func() bool { return signV(reqBytes) })
		for _, m := range reqMutations(l) {
			r, p, err := parseReq(reqBytes)
			if err != nil {
				c.Note("c09-request-layout", "request layout changed: field perturbations skipped")
				break
			}
			m.mut(&r, &p)
			b := packReq(r, p)
			check("request", m.name, true, func() bool { return signV(b) })
		}
		if r, _, err := parseReq(reqBytes); err == nil {
			if r2, p2, err := parseReq(req2.Bytes()); err == nil {
				_ = r2
				b := packReq(r, p2)
				check("request", "proof-of-another-request", true, func() bool { return signV(b) })
			}
		}
		// the same parsed object through the exported function: signing twice must agree
		{
			pp := ps.Setup(cv, l)
			sk, _ := ps.LocalKeyGen(pp)
			bs, _ := ps.Blind(&pp, cv, hashMsg(msg))
			c.Add("evaluations", 1)
			_, e1 := ps.SignBlindSignature(&pp, bs, sk)
			_, e2 := ps.SignBlindSignature(&pp, bs, sk)
			if (e1 == nil) != (e2 == nil) {
				c.Violation("same-verdict-again", "c09-ps-verdict-changes:SignBlindSignature-same-object", fmt.Sprintf("%s: SignBlindSignature on the same request object: first error=%v, second error=%v", what, e1, e2), map[string]interface{}{"L": l})
			} else if e1 != nil {
				c.Violation("genuine-is-accepted", "c09-ps-rejects-genuine:SignBlindSignature", fmt.Sprintf("%s: %v", what, e1), nil)
			}
		}
		// --- proof of knowledge
		wit := map[uint16]ps.SignatureWitness{}
		sigOf := map[uint16][]byte{}
		for _, id := range cryptolib.IDs(n) {
			sig, err := w.signers[id].Sign(context.Background(), reqBytes)
			if err != nil {
				c.Violation("genuine-is-accepted", "c09-ps-rejects-genuine:request", fmt.Sprintf("%s signer %d: %v", what, id, err), nil)
				return
			}
			sigOf[id] = sig
			wt, err := w.pr.UnBlind(id, sig, &secret)
			if err != nil {
				c.Violation("genuine-is-accepted", "c09-ps-rejects-genuine:unblind", fmt.Sprintf("%s signer %d: %v", what, id, err), nil)
				return
			}
			wit[id] = wt
		}
		verifyV := func(v *ps.Verifier, b []byte) func() bool {
			return func() (rejected bool) {
				defer func() {
					if r := recover(); r != nil {
						rejected = true
						c.Add("panics_as_rejection", 1)
					}
				}()
				return v.Verify(b) != nil
			}
		}
		sub := cryptolib.IDs(n)[:t]
		var ws []ps.SignatureWitness
		for _, id := range sub {
			ws = append(ws, wit[id])
		}
		pok := w.pr.ProveKnowledgeOfSignature(&secret, sub, ws)
		pokBytes := pok.Bytes()
		check("proof", "genuine", false, verifyV(w.v, pokBytes))
		// same parsed object twice through the exported method
		{
			pp := ps.Setup(cv, l)
			_ = pp
		}
		for _, m := range pokMutations(l) {
			d, q, err := parsePok(pokBytes)
			if err != nil {
				c.Note("c09-proof-layout", "proof layout changed: field perturbations skipped")
				break
			}
			dd := make([][]byte, len(d))
			for i := range d {
				dd[i] = append([]byte(nil), d[i]...)
			}
			m.mut(dd, &q)
			b := packPok(dd, q)
			check("proof", m.name, true, verifyV(w.v, b))
		}
		check("proof", "other-session-key", true, verifyV(w2.v, pokBytes))
		// proofs built through the exported prover primitive without any signature share at all
		{
			var tp ps.ThresholdPK
			var xy ps.XYs
			_, e1 := asn1.Unmarshal(w.tpk, &tp)
			_, e2 := asn1.Unmarshal(tp.TPK, &xy)
			X, e3 := cv.NewG2FromBytes(xy.X)
			if e1 != nil || e2 != nil || e3 != nil {
				c.Note("c09-tpk-layout", "threshold public key layout changed: forgeries without signature skipped")
			} else {
				pk := ps.PK{X: X}
				for _, yb := range xy.Ys {
					if Y, err := cv.NewG2FromBytes(yb); err == nil {
						pk.Y = append(pk.Y, Y)
					}
				}
				pp := ps.Setup(cv, l)
				inf := func() *math.G1 { p := cv.GenG1.Copy(); p.Sub(p); return p }
				rnd := func(seed string) *math.G1 { return cv.GenG1.Mul(cv.HashToZr([]byte(seed))) }
				forge := []struct {
					name      string
					h, hPrime *math.G1
				}{
					{"no-signature/all-infinity", inf(), inf()},
					{"no-signature/h-generator-hprime-infinity", cv.GenG1.Copy(), inf()},
					{"no-signature/h-infinity-hprime-random", inf(), rnd("hp")},
					{"no-signature/unrelated-points", rnd("h"), rnd("hp")},
					{"no-signature/hprime-equals-h", rnd("h"), rnd("h")},
				}
				for _, f := range forge {
					var fb []byte
					func() {
						defer func() { recover() }()
						fm := hashMsg(msg)
						for len(fm) < len(pk.Y) {
							fm = append(fm, cv.HashToZr([]byte{byte(len(fm)), 'f'}))
						}
						pok := ps.PoKofSig(&pp, pk, f.h, f.hPrime, fm)
						fb = pok.Bytes()
					}()
					if fb == nil {
						c.Add("forgeries_not_buildable", 1)
						continue // the primitive refused to build it
					}
					check("proof", f.name, true, verifyV(w.v, fb))
				}
			}
		}
		// witness combined under another signer's index
		if n > t {
			who := append([]uint16(nil), sub...)
			who[0] = cryptolib.IDs(n)[t] // a party that did not contribute this witness
			p2 := w.pr.ProveKnowledgeOfSignature(&secret, who, ws)
			check("proof", "witness-under-other-index", true, verifyV(w.v, p2.Bytes()))
		}
		if t >= 2 {
			who := append([]uint16(nil), sub...)
			who[0], who[1] = who[1], who[0]
			p2 := w.pr.ProveKnowledgeOfSignature(&secret, who, ws)
			check("proof", "transposed-signers", true, verifyV(w.v, p2.Bytes()))
		}
		if t >= 3 {
			p2 := w.pr.ProveKnowledgeOfSignature(&secret, sub[:t-1], ws[:t-1])
			check("proof", "fewer-than-t-witnesses", true, verifyV(w.v, p2.Bytes()))
		}
		// a witness of another request
		{
			reqB, secB := w.pr.Blind(msg)
			sigB, err := w.signers[sub[0]].Sign(context.Background(), reqB.Bytes())
			if err == nil {
				if wb, err := w.pr.UnBlind(sub[0], sigB, &secB); err == nil {
					ws2 := append([]ps.SignatureWitness{wb}, ws[1:]...)
					p2 := w.pr.ProveKnowledgeOfSignature(&secret, sub, ws2)
					check("proof", "witness-of-another-request", true, verifyV(w.v, p2.Bytes()))
				}
			}
		}
		// partial signature tampering is caught when unblinding
		{
			var rs ps.RawSignature
			if _, err := asn1.Unmarshal(sigOf[sub[0]], &rs); err == nil {
				rs.B = g1plus(rs.B)
				b, _ := asn1.Marshal(rs)
				check("partial-signature", "b+G", true, func() bool {
					_, err := w.pr.UnBlind(sub[0], b, &secret)
					return err != nil
				})
				check("partial-signature", "other-signers-key", true, func() bool {
					_, err := w.pr.UnBlind(sub[len(sub)-1], sigOf[sub[0]], &secret)
					return err != nil || len(sub) == 1
				})
			}
		}
		c.Sample("ps", map[string]interface{}{"n": n, "t": t, "L": l})
		_ = bytes.Equal
		_ = math.Curves
	}}
}

func hashMsg(msg [][]byte) []*math.Zr {
	out := make([]*math.Zr, len(msg))
	for i := range msg {
		out[i] = cv.HashToZr(msg[i])
	}
	return out
}

func gen(c *harness.C) []harness.Case {
	c.Note("rule", "for each configuration a genuine artefact is built on a real DKG output and every single-component perturbation / cross-session substitution of the catalogue is applied (BLS: message, each share, signer-to-share assignment, key, fewer than t; PS request: cm, u, every a[i] b[i] d[i] f[i] x[i] y[i], s, z, swaps, foreign proof; PS proof: every x[i], y, Gamma, Phi, h^e, h'^e, nu, kappa, other key, wrong index, transposition, fewer witnesses, foreign witness); every verdict is taken twice; distinct_nontrivial = distinct (scheme, configuration, object, perturbation)")
	var cases []harness.Case
	if os.Getenv("VERIF_FAMILY") == "forge" {
		return forgeCases(c)
	}
	if os.Getenv("VERIF_FAMILY") == "race" {
		return append([]harness.Case{concurrentPSCase()}, concurrentBLSCases()...)
	}
	type nt struct{ n, t int }
	blsC := []nt{{3, 2}, {3, 3}, {4, 3}}
	psC := [][3]int{{3, 2, 1}, {3, 3, 2}, {3, 2, 3}}
	if c.Thorough() {
		blsC = nil
		for n := 2; n <= 5; n++ {
			for t := 2; t <= n; t++ {
				blsC = append(blsC, nt{n, t})
			}
		}
		blsC = append(blsC, nt{6, 4})
		psC = nil
		for n := 2; n <= 4; n++ {
			for t := 2; t <= n; t++ {
				for l := 1; l <= 3; l++ {
					psC = append(psC, [3]int{n, t, l})
				}
			}
		}
	}
	for _, k := range blsC {
		if haveBLS {
			cases = append(cases, blsCase(k.n, k.t))
		}
	}
	if haveBLS {
		for _, nt := range [][2]int{{12, 9}, {20, 20}, {21, 21}, {25, 22}, {31, 31}, {40, 21}, {64, 33}} {
			cases = append(cases, blsLargeQuorumCase(nt[0], nt[1]))
		}
		// committees whose identifiers are not 1..n in ascending order
		idsets := [][]uint16{{5, 7, 9}, {11, 4, 6}, {2, 1, 3}}
		if c.Thorough() {
			idsets = append(idsets, []uint16{65535, 256, 255}, []uint16{3, 1, 2}, []uint16{40, 10, 30, 20})
		}
		for _, ids := range idsets {
			for t := 2; t <= len(ids); t++ {
				if !c.Thorough() && t != 2 {
					continue
				}
				cases = append(cases, blsCaseIDs(len(ids), t, ids))
			}
		}
	}
	for _, k := range psC {
		cases = append(cases, psCase(k[0], k[1], k[2]))
	}
	return cases
}

func TestCheck(t *testing.T) { harness.Main(t, "C09", gen) }
