//go:build psonly

package c09

import "verif/harness"

const haveBLS = false
const buildPrefix = "psown-"

func blsCase(n, t int) harness.Case                  { return harness.Case{} }
func blsLargeQuorumCase(n, t int) harness.Case       { return harness.Case{} }
func blsCaseIDs(n, t int, ids []uint16) harness.Case { return harness.Case{} }

func concurrentBLSCases() []harness.Case { return nil }
