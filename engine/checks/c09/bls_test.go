//go:build !psonly

package c09

import (
	"bytes"
	"crypto/rand"
	"crypto/sha256"
	"encoding/asn1"
	"fmt"
	"sort"
	"strings"
	"time"

	"github.com/IBM/TSS/mpc/bls"
	math "github.com/IBM/mathlib"
	"verif/cryptolib"
	"verif/explore"
	"verif/harness"
	"verif/shim/sched"
)

const haveBLS = true
const buildPrefix = ""

// ---------------------------------------------------------------------------------------------
// BLS

type blsWorld struct {
	n, t    int
	signers map[uint16]*bls.TBLS
	pk      []byte
	v       *bls.Verifier
}

func newBLS(n, t int) (*blsWorld, error) {
	shares, errs := cryptolib.DKG("bls", n, t, 1, nil, 20*time.Second)
	for _, e := range errs {
		if e != nil {
			return nil, e
		}
	}
	sg, err := cryptolib.BLSSigners(n, t, shares)
	if err != nil {
		return nil, err
	}
	pk, _ := sg[cryptolib.IDs(n)[0]].ThresholdPK()
	v := &bls.Verifier{}
	if err := v.Init(pk); err != nil {
		return nil, err
	}
	return &blsWorld{n, t, sg, pk, v}, nil
}

// verdict aggregates and verifies; rejected = error anywhere.
func (w *blsWorld) verdict(v *bls.Verifier, digest []byte, sigs [][]byte, who []uint16) (rejected bool) {
	defer func() {
		if r := recover(); r != nil {
			rejected = true
		}
	}()
	agg, err := v.AggregateSignatures(sigs, who)
	if err != nil {
		return true
	}
	return v.Verify(digest, agg) != nil
}

func blsCase(n, t int) harness.Case { return blsCaseIDs(n, t, nil) }

// blsCaseIDs: the same catalogue for a committee whose identifiers are not 1..n in ascending order.
func blsCaseIDs(n, t int, ids []uint16) harness.Case {
	name := fmt.Sprintf("bls/n%dt%d", n, t)
	if ids != nil {
		name += fmt.Sprintf("/ids%v", ids)
	}
	return harness.Case{ID: name, Run: func(c *harness.C) {
		what := fmt.Sprintf("bls n=%d t=%d", n, t)
		if ids != nil {
			what += fmt.Sprintf(" identifiers %v", ids)
			cryptolib.Parties = ids
			defer func() { cryptolib.Parties = nil }()
		}
		c.Exec("[bls] " + what)
		w, err := newBLS(n, t)
		if err != nil {
			c.Violation("setup", "c09-setup", err.Error(), nil)
			return
		}
		w2, err := newBLS(n, t) // a second, unrelated key
		if err != nil {
			c.Violation("setup", "c09-setup", err.Error(), nil)
			return
		}
		d := sha256.Sum256([]byte("c09"))
		digest := d[:]
		var genuine []byte // the (unique) threshold signature on digest under w's key
		check := func(name string, wantReject bool, v *bls.Verifier, dg []byte, sigs [][]byte, who []uint16) {
			c.Add("evaluations", 1)
			if wantReject && v == w.v && bytes.Equal(dg, digest) && genuine != nil {
				// a re-assignment whose Lagrange coefficients happen to coincide (e.g. points 1 and 3
				// of {1,2,3,4}) aggregates to exactly the genuine signature: accepting it is right
				func() {
					defer func() { recover() }()
					if agg, err := v.AggregateSignatures(sigs, who); err == nil && bytes.Equal(agg, genuine) {
						wantReject = false
						name += "(aggregates-to-genuine)"
					}
				}()
			}
			r1 := w.verdict(v, dg, sigs, who)
			r2 := w.verdict(v, dg, sigs, who)
			rp := map[string]interface{}{"n": n, "t": t, "perturbation": name, "signers": who}
			if r1 != r2 {
				c.Violation("same-verdict-again", "c09-bls-verdict-changes:"+name, fmt.Sprintf("%s %s signers %v: first verdict rejected=%v, second rejected=%v", what, name, who, r1, r2), rp)
			}
			if r1 != wantReject {
				if wantReject {
					c.Violation("altered-is-rejected", "c09-bls-accepts:"+name, fmt.Sprintf("%s: %s with signers %v verified", what, name, who), rp)
				} else {
					c.Violation("genuine-is-accepted", "c09-bls-rejects-genuine:"+name, fmt.Sprintf("%s: %s with signers %v rejected", what, name, who), rp)
				}
			}
			c.Outcome(fmt.Sprintf("bls|%d|%d|%v|%s|%v", n, t, ids, name, who))
		}
		for _, sub := range cryptolib.Subsets(cryptolib.IDs(n), t, n) {
			var sigs [][]byte
			for _, id := range sub {
				sg, _ := w.signers[id].Sign(nil, digest)
				sigs = append(sigs, sg)
			}
			if genuine == nil {
				genuine, _ = w.v.AggregateSignatures(sigs, sub)
			}
			check("genuine", false, w.v, digest, sigs, sub)
			// consistent permutation of both lists: positive control
			if len(sub) >= 2 {
				ps2 := append([]uint16{sub[len(sub)-1]}, sub[:len(sub)-1]...)
				ss2 := append([][]byte{sigs[len(sigs)-1]}, sigs[:len(sigs)-1]...)
				check("consistent-rotation", false, w.v, digest, ss2, ps2)
			}
			// message
			flip := append([]byte(nil), digest...)
			flip[0] ^= 1
			check("message-bit-flip", true, w.v, flip, sigs, sub)
			check("message-other", true, w.v, []byte("another message"), sigs, sub)
			check("message-empty", true, w.v, []byte{}, sigs, sub)
			// key
			check("other-key", true, w2.v, digest, sigs, sub)
			// each share
			for i, id := range sub {
				alt := make([][]byte, len(sigs))
				copy(alt, sigs)
				alt[i] = g1plus(sigs[i])
				check(fmt.Sprintf("share-plus-generator@%d", i), true, w.v, digest, alt, sub)
				o, _ := w.signers[id].Sign(nil, []byte("other"))
				alt2 := make([][]byte, len(sigs))
				copy(alt2, sigs)
				alt2[i] = o
				check(fmt.Sprintf("share-on-other-message@%d", i), true, w.v, digest, alt2, sub)
				// another party's share (one that is not in the subset, if any; else the neighbour's)
				var other uint16
				for _, x := range cryptolib.IDs(n) {
					in := false
					for _, y := range sub {
						if x == y {
							in = true
						}
					}
					if !in {
						other = x
						break
					}
				}
				if other != 0 {
					os, _ := w.signers[other].Sign(nil, digest)
					alt3 := make([][]byte, len(sigs))
					copy(alt3, sigs)
					alt3[i] = os
					check(fmt.Sprintf("other-partys-share@%d", i), true, w.v, digest, alt3, sub)
				}
				// share from the other key
				fs, _ := w2.signers[id].Sign(nil, digest)
				alt4 := make([][]byte, len(sigs))
				copy(alt4, sigs)
				alt4[i] = fs
				check(fmt.Sprintf("share-of-other-session@%d", i), true, w.v, digest, alt4, sub)
			}
			// signer-to-share assignment: every transposition and every shift of the signer list
			for i := 0; i < len(sub); i++ {
				for j := i + 1; j < len(sub); j++ {
					who := append([]uint16(nil), sub...)
					who[i], who[j] = who[j], who[i]
					check(fmt.Sprintf("transposed-signers@%d,%d", i, j), true, w.v, digest, sigs, who)
				}
			}
			for s := 1; s < len(sub); s++ {
				who := append(append([]uint16(nil), sub[s:]...), sub[:s]...)
				if len(sub) == 2 {
					continue // equals the transposition
				}
				check(fmt.Sprintf("shifted-signers@%d", s), true, w.v, digest, sigs, who)
			}
		}
		// digests of other shapes than a 32-byte hash: each is signed genuinely; every related digest
		// (same first 32 bytes, zero padding, one more / one less byte) must be rejected for those
		// shares, and the genuine pair must verify again afterwards (verifying has no side effects)
		{
			sub := cryptolib.IDs(n)[:t]
			p32 := sha256.Sum256([]byte("c09-prefix"))
			shapes := map[string][]byte{
				"37-bytes":      append(append([]byte(nil), p32[:]...), []byte("tag-1")...),
				"64-bytes":      append(append([]byte(nil), p32[:]...), p32[:]...),
				"5-bytes":       []byte("short"),
				"1-byte":        {7},
				"31-bytes":      p32[:31],
				"32-zero-bytes": make([]byte, 32),
			}
			var names []string
			for k := range shapes {
				names = append(names, k)
			}
			sort.Strings(names)
			for _, nm := range names {
				dg := shapes[nm]
				var sigs [][]byte
				for _, id := range sub {
					sg, _ := w.signers[id].Sign(nil, dg)
					sigs = append(sigs, sg)
				}
				saved := digest
				digest = dg // the Lagrange-coincidence rule of check compares with the genuine digest
				genuineSaved := genuine
				genuine = nil
				check("genuine/digest-"+nm, false, w.v, dg, sigs, sub)
				related := map[string][]byte{
					"last-byte-changed": append(append([]byte(nil), dg[:len(dg)-1]...), dg[len(dg)-1]^0x55),
					"zero-appended":     append(append([]byte(nil), dg...), 0),
					"byte-appended":     append(append([]byte(nil), dg...), 'x'),
					"last-byte-dropped": append([]byte(nil), dg[:len(dg)-1]...),
				}
				if len(dg) > 32 {
					related["truncated-to-32"] = append([]byte(nil), dg[:32]...)
					related["suffix-replaced"] = append(append([]byte(nil), dg[:32]...), []byte("tag-2")...)
				}
				if len(dg) < 32 {
					related["zero-padded-to-32"] = append(append([]byte(nil), dg...), make([]byte, 32-len(dg))...)
				}
				var rn []string
				for k := range related {
					rn = append(rn, k)
				}
				sort.Strings(rn)
				for _, k := range rn {
					check("digest-"+nm+"/"+k, true, w.v, related[k], sigs, sub)
					check("genuine-again/digest-"+nm+"/after-"+k, false, w.v, dg, sigs, sub)
				}
				digest, genuine = saved, genuineSaved
			}
		}
		// fewer than t shares
		for _, sub := range cryptolib.Subsets(cryptolib.IDs(n), 2, t-1) {
			var sigs [][]byte
			for _, id := range sub {
				sg, _ := w.signers[id].Sign(nil, digest)
				sigs = append(sigs, sg)
			}
			check("fewer-than-t", true, w.v, digest, sigs, sub)
		}
		if t >= 2 {
			// a single share presented as the threshold signature
			sg, _ := w.signers[cryptolib.IDs(n)[0]].Sign(nil, digest)
			c.Add("evaluations", 1)
			if w.v.Verify(digest, sg) == nil {
				c.Violation("altered-is-rejected", "c09-bls-accepts:single-share", what+": one partial signature verifies as threshold signature", nil)
			}
		}
		c.Sample("bls", map[string]interface{}{"n": n, "t": t})
	}}
}

// concurrentBLSCases: two threads aggregate + verify with one bls.Verifier (genuine / altered digest).
func concurrentBLSCases() []harness.Case {
	return []harness.Case{{ID: "concurrent-verify/bls", Run: func(c *harness.C) {
		c.Exec("[concurrent-verify] bls setup")
		w, err := newBLS(3, 2)
		if err != nil {
			c.Violation("setup", "c09-setup", err.Error(), nil)
			return
		}
		d := sha256.Sum256([]byte("c09-conc"))
		sub := []uint16{1, 2}
		var sigs [][]byte
		for _, id := range sub {
			sg, _ := w.signers[id].Sign(nil, d[:])
			sigs = append(sigs, sg)
		}
		other := sha256.Sum256([]byte("c09-conc-other"))
		c.NewRaceReports()
		var verdicts [2]bool
		var trace []string
		reported := map[string]bool{}
		e := &explore.Explorer{Stop: c.Expired}
		e.Run = func(r *explore.Recorder) {
			c.Exec(fmt.Sprintf("[concurrent-verify] bls %v", r.Prefix))
			rec := c.Bubble(func() {
				sc := sched.New()
				defer sc.Close()
				digests := [2][]byte{d[:], other[:]}
				for t := 0; t < 2; t++ {
					t := t
					sc.Go(fmt.Sprintf("V%d", t), func() {
						sched.Yield()
						verdicts[t] = w.verdict(w.v, digests[t], sigs, sub)
					})
				}
				sc.Run(r)
				sc.WaitAll()
				trace = sc.Trace
			})
			if rec != nil && !harness.IsLeakPanic(rec) {
				panic(rec)
			}
		}
		e.Visit = func(r *explore.Recorder) {
			c.Add("executions", 1)
			rp := map[string]interface{}{"concurrent": "bls", "choices": explore.Trim(r.Choices())}
			for _, rr := range c.NewRaceReports() {
				if rr.Frames[0] == "" || rr.Frames[1] == "" {
					continue
				}
				if !reported[rr.Signature] {
					reported[rr.Signature] = true
					c.Violation("same-verdict (verification has no side effects on shared state)", "c09-"+rr.Signature, fmt.Sprintf("two threads verifying with one bls.Verifier race between %s and %s", rr.Frames[0], rr.Frames[1]), rp)
				}
			}
			if (verdicts[0] || !verdicts[1]) && !reported["verdict"] {
				reported["verdict"] = true
				c.Violation("same-verdict", "c09-bls-concurrent-verdict-differs", fmt.Sprintf("genuine rejected=%v, other digest rejected=%v when verified at the same time with one verifier", verdicts[0], verdicts[1]), rp)
			}
			c.Outcome("concurrent-bls|" + strings.Join(trace, ";"))
		}
		if c.Replay != nil {
			return
		}
		e.Explore(nil, nil, 1)
	}}}
}

// blsLargeQuorumCase: quorums beyond what a full DKG affords. The shares are dealt with the
// library's own SSS (as a DKG party does), partial signatures are H(digest)^share, and the catalogue
// is reduced to: the genuine quorum is accepted (ascending, descending, strided subsets), one
// altered share / one share under another signer's index / fewer than t shares are rejected.
func blsLargeQuorumCase(n, t int) harness.Case {
	return harness.Case{ID: fmt.Sprintf("bls/large-quorum/n%dt%d", n, t), Run: func(c *harness.C) {
		what := fmt.Sprintf("bls n=%d t=%d (dealt)", n, t)
		c.Exec("[bls-large] " + what)
		sss := &bls.SSS{Threshold: t}
		poly, shares := sss.Gen(n, rand.Reader)
		var pp bls.PublicParams
		for i := 1; i <= n; i++ {
			pp.Parties = append(pp.Parties, i)
		}
		pp.ThresholdPK = cv.GenG2.Mul(poly[0]).Bytes()
		raw, err := asn1.Marshal(pp)
		if err != nil {
			panic(err)
		}
		var v bls.Verifier
		if err := v.Init(raw); err != nil {
			c.Violation("setup", "c09-setup", err.Error(), nil)
			return
		}
		d := sha256.Sum256([]byte("c09-large"))
		digest := d[:]
		H := cv.HashToG1(digest)
		subsets := [][]int{}
		first, last, strided := []int{}, []int{}, []int{}
		for i := 1; i <= t; i++ {
			first = append(first, i)
			last = append(last, n-t+i)
		}
		for i := 0; i < t; i++ {
			strided = append(strided, 1+(i*n)/t)
		}
		subsets = append(subsets, first, last, strided)
		verdict := func(sub []int, alter func(i int, sig *math.G1, who *uint16)) bool {
			var sigs [][]byte
			var who []uint16
			for k, i := range sub {
				sg := H.Mul(shares[i-1])
				w := uint16(i)
				if alter != nil {
					alter(k, sg, &w)
				}
				sigs = append(sigs, sg.Bytes())
				who = append(who, w)
			}
			defer func() { recover() }()
			agg, err := v.AggregateSignatures(sigs, who)
			if err != nil {
				return false
			}
			return v.Verify(digest, agg) == nil
		}
		rp := map[string]interface{}{"n": n, "t": t, "dealt": true}
		for si, sub := range subsets {
			rev := append([]int(nil), sub...)
			for i, j := 0, len(rev)-1; i < j; i, j = i+1, j-1 {
				rev[i], rev[j] = rev[j], rev[i]
			}
			for _, s := range [][]int{sub, rev} {
				c.Add("evaluations", 1)
				if !verdict(s, nil) {
					c.Violation("genuine-is-accepted", "c09-bls-rejects-genuine:large-quorum", fmt.Sprintf("%s: %d genuine shares combined under their own signer indices (subset no. %d, first index %d) are rejected", what, t, si, s[0]), rp)
					return
				}
			}
			c.Add("evaluations", 3)
			if verdict(sub, func(k int, sig *math.G1, _ *uint16) {
				if k == t/2 {
					sig.Add(cv.GenG1)
				}
			}) {
				c.Violation("altered-is-rejected", "c09-bls-accepts:large-quorum:share-altered", fmt.Sprintf("%s: a quorum with one altered share verifies", what), rp)
			}
			if verdict(sub, func(k int, _ *math.G1, who *uint16) {
				if k == 0 {
					// the first share under an index that is not in the subset
					for cand := 1; cand <= n; cand++ {
						used := false
						for _, x := range sub {
							if x == cand {
								used = true
							}
						}
						if !used {
							*who = uint16(cand)
							return
						}
					}
				}
			}) && t < n {
				c.Violation("altered-is-rejected", "c09-bls-accepts:large-quorum:share-under-other-index", fmt.Sprintf("%s: a quorum in which one share is presented under another signer's index verifies", what), rp)
			}
			if t >= 2 && verdict(sub[:t-1], nil) {
				c.Violation("altered-is-rejected", "c09-bls-accepts:large-quorum:fewer-than-t", fmt.Sprintf("%s: %d shares verify", what, t-1), rp)
			}
			c.Outcome(fmt.Sprintf("bls-large|%d|%d|%d", n, t, si))
		}
		c.Add("executions", 1)
	}}
}
