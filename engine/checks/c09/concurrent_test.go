package c09

import (
	"context"
	"encoding/json"
	"fmt"
	"strings"
	"time"

	"github.com/IBM/TSS/mpc/ps"
	"verif/explore"
	"verif/harness"
	"verif/shim/sched"
)

// Concurrent verification (engine E3, -race build): an application verifies on several goroutines
// with ONE verifier object. Two threads verify a genuine and an altered proof at once; each
// verdict must be the sequential one and the race detector - which sees only the program's own
// synchronisation - must stay silent.

func concurrentPSCase() harness.Case {
	return harness.Case{ID: "concurrent-verify/ps", Run: func(c *harness.C) {
		c.Exec("[concurrent-verify] ps setup")
		w, err := newPS(3, 2, 1)
		if err != nil {
			c.Violation("setup", "c09-setup", err.Error(), nil)
			return
		}
		msg := [][]byte{[]byte("m")}
		req, secret := w.pr.Blind(msg)
		var ws []ps.SignatureWitness
		sub := []uint16{1, 2}
		for _, id := range sub {
			sig, err := w.signers[id].Sign(context.Background(), req.Bytes())
			if err != nil {
				c.Violation("setup", "c09-setup", err.Error(), nil)
				return
			}
			wit, err := w.pr.UnBlind(id, sig, &secret)
			if err != nil {
				c.Violation("setup", "c09-setup", err.Error(), nil)
				return
			}
			ws = append(ws, wit)
		}
		pok := w.pr.ProveKnowledgeOfSignature(&secret, sub, ws)
		genuine := pok.Bytes()
		d, q, err := parsePok(genuine)
		if err != nil {
			c.Note("c09-proof-layout", "proof layout changed: concurrent verification skipped")
			return
		}
		dd := make([][]byte, len(d))
		for i := range d {
			dd[i] = append([]byte(nil), d[i]...)
		}
		dd[2] = g1plus(dd[2]) // h'^e
		altered := packPok(dd, q)
		c.NewRaceReports()
		var trace []string
		var verdicts [2]bool // rejected?
		run := func(r *explore.Recorder) {
			rec := c.Bubble(func() {
				sc := sched.New()
				defer sc.Close()
				sc.Quantum, sc.Horizon = time.Second, 3
				inputs := [2][]byte{genuine, altered}
				for t := 0; t < 2; t++ {
					t := t
					sc.Go(fmt.Sprintf("V%d", t), func() {
						sched.Yield()
						verdicts[t] = func() (rej bool) {
							defer func() {
								if recover() != nil {
									rej = true
								}
							}()
							return w.v.Verify(inputs[t]) != nil
						}()
					})
				}
				sc.Run(r)
				sc.WaitAll()
				trace = sc.Trace
			})
			if rec != nil && !harness.IsLeakPanic(rec) {
				panic(rec)
			}
		}
		reported := map[string]bool{}
		e := &explore.Explorer{Stop: c.Expired}
		e.Run = func(r *explore.Recorder) {
			c.Exec(fmt.Sprintf("[concurrent-verify] ps %v", r.Prefix))
			run(r)
		}
		e.Visit = func(r *explore.Recorder) {
			c.Add("executions", 1)
			c.Add("transitions", len(trace))
			rp := map[string]interface{}{"concurrent": "ps", "choices": explore.Trim(r.Choices())}
			for _, rr := range c.NewRaceReports() {
				if rr.Frames[0] == "" || rr.Frames[1] == "" {
					c.Add("race_reports_with_harness_frames", 1)
					continue
				}
				if !reported[rr.Signature] {
					reported[rr.Signature] = true
					c.Violation("same-verdict (verification has no side effects on shared state)", "c09-"+rr.Signature, fmt.Sprintf("two threads verifying with one ps.Verifier race between %s and %s", rr.Frames[0], rr.Frames[1]), rp)
				}
			}
			if (verdicts[0] || !verdicts[1]) && !reported["verdict"] {
				reported["verdict"] = true
				c.Violation("same-verdict", "c09-ps-concurrent-verdict-differs", fmt.Sprintf("schedule %v: genuine proof rejected=%v, altered proof rejected=%v when verified at the same time with one verifier", explore.Trim(r.Choices()), verdicts[0], verdicts[1]), rp)
			}
			c.Outcome("concurrent-ps|" + strings.Join(trace, ";"))
		}
		if c.Replay != nil {
			var rp struct {
				Choices []int `json:"choices"`
			}
			if json.Unmarshal(c.Replay, &rp) == nil {
				e.Explore(rp.Choices, nil, -1)
			}
			return
		}
		e.Explore(nil, nil, 1)
	}}
}
