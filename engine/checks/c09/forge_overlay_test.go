//go:build verifoverlay

package c09

import (
	"context"
	"fmt"
	"strings"

	"github.com/IBM/TSS/mpc/ps"
	math "github.com/IBM/mathlib"
	"verif/cryptolib"
	"verif/harness"
)

// Requests built by ps.VerifBlindChosen - a copy of the library's Blind generated from the current
// source by the overlay, in which the last message component m' is chosen by the requester instead
// of being derived from the commitment. Commitment, h, ciphertexts and the well-formedness proof
// are consistent for the chosen m'. A signer must refuse every such request whose m' is not the
// one the commitment determines (it is the value that binds h to the message).
func forgeCases(c *harness.C) []harness.Case {
	var out []harness.Case
	for _, k := range [][3]int{{3, 2, 1}, {3, 3, 2}} {
		n, t, l := k[0], k[1], k[2]
		out = append(out, harness.Case{ID: fmt.Sprintf("forge/ps/n%dt%dL%d", n, t, l), Run: func(c *harness.C) {
			what := fmt.Sprintf("ps n=%d t=%d L=%d", n, t, l)
			c.Exec("[forge] " + what)
			w, err := newPS(n, t, l)
			if err != nil {
				c.Violation("setup", "c09-setup", err.Error(), nil)
				return
			}
			pp := ps.Setup(cv, l)
			var msg [][]byte
			for i := 0; i < l; i++ {
				msg = append(msg, []byte{byte(i), 'm'})
			}
			m := hashMsg(msg)
			chosen := map[string]*math.Zr{
				"zero":   cv.NewZrFromInt(0),
				"one":    cv.NewZrFromInt(1),
				"random": cv.HashToZr([]byte("chosen m'")),
			}
			for _, nm := range []string{"zero", "one", "random"} {
				ps.VerifChosenMPrime = chosen[nm]
				var req []byte
				func() {
					defer func() { recover() }()
					σ, _ := ps.VerifBlindChosen(&pp, cv, m)
					req = σ.Bytes()
				}()
				if req == nil {
					c.Add("forgeries_not_buildable", 1)
					continue
				}
				for _, id := range cryptolib.IDs(n) {
					c.Add("evaluations", 1)
					accepted := func() (ok bool) {
						defer func() {
							if r := recover(); r != nil {
								ok = false
							}
						}()
						_, err := w.signers[id].Sign(context.Background(), req)
						return err == nil
					}
					a1, a2 := accepted(), accepted()
					rp := map[string]interface{}{"n": n, "t": t, "L": l, "object": "request", "perturbation": "chosen-mprime-" + nm}
					if a1 != a2 {
						c.Violation("same-verdict-again", "c09-ps-verdict-changes:request", fmt.Sprintf("%s: request with chosen m' (%s), signer %d: verdict changes", what, nm, id), rp)
					}
					if a1 {
						c.Violation("altered-is-rejected", "c09-ps-accepts:request:chosen-mprime", fmt.Sprintf("%s: signer %d signed a request that is consistent for a last message component chosen by the requester (%s) instead of the one determined by the commitment", what, id, nm), rp)
					}
				}
				c.Outcome(fmt.Sprintf("forge|%d|%d|%d|%s", n, t, l, nm))
			}
			ps.VerifChosenMPrime = nil
			// the ciphertexts are altered BEFORE the proof is computed, so the challenge covers the
			// altered values and every response is honest: only the verification equations
			// themselves can reject such a request
			type tamper struct {
				name string
				f    func(a, b []*math.G1)
			}
			tampers := []tamper{{"control", nil}}
			for i := 0; i <= l; i++ {
				i := i
				tampers = append(tampers,
					tamper{fmt.Sprintf("b[%d]-moved", i), func(a, b []*math.G1) {
						if i < len(b) {
							b[i].Add(cv.GenG1)
						}
					}},
					tamper{fmt.Sprintf("a[%d]-moved", i), func(a, b []*math.G1) {
						if i < len(a) {
							a[i].Add(cv.GenG1)
						}
					}},
					tamper{fmt.Sprintf("a[%d]-and-b[%d]-moved", i, i), func(a, b []*math.G1) {
						if i < len(a) && i < len(b) {
							a[i].Add(cv.GenG1)
							b[i].Add(cv.GenG1)
						}
					}})
			}
			// two components moved in opposite directions (their sum / product is unchanged: what a
			// verifier that checks one combined equation would still accept)
			for i := 0; i <= l; i++ {
				for j := i + 1; j <= l; j++ {
					i, j := i, j
					tampers = append(tampers,
						tamper{fmt.Sprintf("a[%d]-up-a[%d]-down", i, j), func(a, b []*math.G1) {
							if j < len(a) {
								a[i].Add(cv.GenG1)
								a[j].Sub(cv.GenG1)
							}
						}},
						tamper{fmt.Sprintf("b[%d]-up-b[%d]-down", i, j), func(a, b []*math.G1) {
							if j < len(b) {
								b[i].Add(cv.GenG1)
								b[j].Sub(cv.GenG1)
							}
						}},
						tamper{fmt.Sprintf("a[%d]-a[%d]-swapped", i, j), func(a, b []*math.G1) {
							if j < len(a) {
								a[i], a[j] = a[j], a[i]
							}
						}},
						tamper{fmt.Sprintf("b[%d]-b[%d]-swapped", i, j), func(a, b []*math.G1) {
							if j < len(b) {
								b[i], b[j] = b[j], b[i]
							}
						}})
				}
			}
			for _, tp := range tampers {
				ps.VerifTamper = tp.f
				var req []byte
				func() {
					defer func() { recover() }()
					σ, _ := ps.VerifBlindChosen(&pp, cv, m)
					req = σ.Bytes()
				}()
				ps.VerifTamper = nil
				if req == nil {
					c.Add("forgeries_not_buildable", 1)
					continue
				}
				for _, id := range cryptolib.IDs(n) {
					c.Add("evaluations", 1)
					_, err := func() (r []byte, err error) {
						defer func() {
							if rec := recover(); rec != nil {
								err = fmt.Errorf("panic: %v", rec)
							}
						}()
						return w.signers[id].Sign(context.Background(), req)
					}()
					rp := map[string]interface{}{"n": n, "t": t, "L": l, "object": "request", "perturbation": "ciphertext-altered-before-proof-" + tp.name}
					if tp.f == nil {
						if err != nil {
							// the generated copy no longer produces what the signer accepts: the
							// forged requests of this case prove nothing (recorded, not a verdict)
							c.Add("control_rejected", 1)
						}
						continue
					}
					if err == nil {
						c.Violation("altered-is-rejected", "c09-ps-accepts:request:ciphertext-altered-before-proof", fmt.Sprintf("%s: signer %d signed a request whose ciphertext was altered before the proof was computed over it (%s): the proof's responses are honest, the challenge covers the altered value, yet the verification equations let it pass", what, id, tp.name), rp)
					}
				}
				c.Outcome(fmt.Sprintf("forge-tamper|%d|%d|%d|%s", n, t, l, tp.name))
			}
			c.Add("executions", 1)
		}})
	}
	out = append(out, oracleBindingCase())
	return out
}

// oracleBindingCase: the Fiat-Shamir challenge of both proofs must depend on every value the prover
// chooses (commitments of the proof and the statement values it supplies). The two random-oracle
// functions are reached through pass-through wrappers generated by the overlay; each prover-chosen
// argument (and each element of a vector argument) is moved by a generator in turn: the digest must
// change. Fixed public parameters (g, g0, gs, g2) are not varied.
func oracleBindingCase() harness.Case {
	return harness.Case{ID: "forge/ps/challenge-binds-every-prover-value", Run: func(c *harness.C) {
		c.Exec("[forge] challenge binding")
		g1 := func(seed string) *math.G1 { return cv.GenG1.Mul(cv.HashToZr([]byte(seed))) }
		g2 := func(seed string) *math.G2 { return cv.GenG2.Mul(cv.HashToZr([]byte(seed))) }
		rp := map[string]interface{}{"object": "random-oracle"}
		// --- proof of knowledge of a signature
		for n := 1; n <= 3; n++ {
			type pokArgs struct {
				Γ         *math.G2
				Φ, ν, hε  *math.G1
				g2g, X, κ *math.G2
				Y         []*math.G2
			}
			mk := func() pokArgs {
				a := pokArgs{Γ: g2("Γ"), Φ: g1("Φ"), ν: g1("ν"), hε: g1("hε"), g2g: g2("g2"), X: g2("X"), κ: g2("κ")}
				for i := 0; i < n; i++ {
					a.Y = append(a.Y, g2(fmt.Sprint("Y", i)))
				}
				return a
			}
			call := func(a pokArgs) string {
				return string(ps.VerifOraclePoK(a.Γ, a.Φ, a.ν, a.hε, a.g2g, a.X, a.κ, a.Y))
			}
			base := call(mk())
			muts := map[string]func(a *pokArgs){
				"Γ (commitment)": func(a *pokArgs) { a.Γ.Add(cv.GenG2) },
				"Φ (commitment)": func(a *pokArgs) { a.Φ.Add(cv.GenG1) },
				"ν":              func(a *pokArgs) { a.ν.Add(cv.GenG1) },
				"h^ε":            func(a *pokArgs) { a.hε.Add(cv.GenG1) },
				"κ":              func(a *pokArgs) { a.κ.Add(cv.GenG2) },
				"X (public key)": func(a *pokArgs) { a.X.Add(cv.GenG2) },
			}
			for i := 0; i < n; i++ {
				i := i
				muts[fmt.Sprintf("Y[%d] (public key)", i)] = func(a *pokArgs) { a.Y[i].Add(cv.GenG2) }
			}
			for name, m := range muts {
				a := mk()
				m(&a)
				c.Add("evaluations", 1)
				if call(a) == base {
					c.Violation("altered-is-rejected (challenge binds the proof)", "c09-ps-pok-challenge-ignores:"+strings.SplitN(name, " ", 2)[0], fmt.Sprintf("the Fiat-Shamir challenge of the proof of knowledge of a signature (n=%d) does not change when %s changes: a proof can be completed after the challenge is known", n, name), rp)
				}
			}
			c.Outcome(fmt.Sprint("oracle-pok|", n))
		}
		// --- well-formedness proof of a blinded request
		for n := 1; n <= 3; n++ {
			type blArgs struct {
				d, f, a, b, gs     []*math.G1
				s, cm, g, g0, h, u *math.G1
			}
			mk := func() blArgs {
				x := blArgs{s: g1("s"), cm: g1("cm"), g: g1("g"), g0: g1("g0"), h: g1("h"), u: g1("u")}
				for i := 0; i < n; i++ {
					x.d = append(x.d, g1(fmt.Sprint("d", i)))
					x.f = append(x.f, g1(fmt.Sprint("f", i)))
					x.a = append(x.a, g1(fmt.Sprint("a", i)))
					x.b = append(x.b, g1(fmt.Sprint("b", i)))
					x.gs = append(x.gs, g1(fmt.Sprint("gs", i)))
				}
				return x
			}
			call := func(x blArgs) string {
				return string(ps.VerifOracleBlinding(n, x.d, x.f, x.s, x.a, x.b, x.cm, x.g, x.g0, x.h, x.u, x.gs))
			}
			base := call(mk())
			muts := map[string]func(x *blArgs){
				"s (commitment)": func(x *blArgs) { x.s.Add(cv.GenG1) },
				"cm":             func(x *blArgs) { x.cm.Add(cv.GenG1) },
				"h":              func(x *blArgs) { x.h.Add(cv.GenG1) },
				"u":              func(x *blArgs) { x.u.Add(cv.GenG1) },
			}
			for i := 0; i < n; i++ {
				i := i
				muts[fmt.Sprintf("d[%d] (commitment)", i)] = func(x *blArgs) { x.d[i].Add(cv.GenG1) }
				muts[fmt.Sprintf("f[%d] (commitment)", i)] = func(x *blArgs) { x.f[i].Add(cv.GenG1) }
				muts[fmt.Sprintf("a[%d] (ciphertext)", i)] = func(x *blArgs) { x.a[i].Add(cv.GenG1) }
				muts[fmt.Sprintf("b[%d] (ciphertext)", i)] = func(x *blArgs) { x.b[i].Add(cv.GenG1) }
			}
			for name, m := range muts {
				x := mk()
				m(&x)
				c.Add("evaluations", 1)
				if call(x) == base {
					c.Violation("altered-is-rejected (challenge binds the proof)", "c09-ps-request-challenge-ignores:"+strings.SplitN(name, " ", 2)[0], fmt.Sprintf("the Fiat-Shamir challenge of the request's well-formedness proof (n=%d) does not change when %s changes", n, name), rp)
				}
			}
			c.Outcome(fmt.Sprint("oracle-blinding|", n))
		}
		c.Add("executions", 1)
	}}
}
