//go:build verifoverlay

package c09

import (
	"context"
	"fmt"

	"github.com/IBM/TSS/mpc/ps"
	math "github.com/IBM/mathlib"
	"verif/cryptolib"
	"verif/harness"
)

// Requests built by ps.VerifBlindChosen - a copy of the library's Blind generated from the current
// source by the overlay, in which the last message component m' is chosen by the requester instead
// of being derived from the commitment. Commitment, h, ciphertexts and the well-formedness proof
// are consistent for the chosen m'. A signer must refuse every such request whose m' is not the
// one the commitment determines (it is the value that binds h to the message).
func forgeCases(c *harness.C) []harness.Case {
	var out []harness.Case
	for _, k := range [][3]int{{3, 2, 1}, {3, 3, 2}} {
		n, t, l := k[0], k[1], k[2]
		out = append(out, harness.Case{ID: fmt.Sprintf("forge/ps/n%dt%dL%d", n, t, l), Run: func(c *harness.C) {
			what := fmt.Sprintf("ps n=%d t=%d L=%d", n, t, l)
			c.Exec("[forge] " + what)
			w, err := newPS(n, t, l)
			if err != nil {
				c.Violation("setup", "c09-setup", err.Error(), nil)
				return
			}
			pp := ps.Setup(cv, l)
			var msg [][]byte
			for i := 0; i < l; i++ {
				msg = append(msg, []byte{byte(i), 'm'})
			}
			m := hashMsg(msg)
			chosen := map[string]*math.Zr{
				"zero":   cv.NewZrFromInt(0),
				"one":    cv.NewZrFromInt(1),
				"random": cv.HashToZr([]byte("chosen m'")),
			}
			for _, nm := range []string{"zero", "one", "random"} {
				ps.VerifChosenMPrime = chosen[nm]
				var req []byte
				func() {
					defer func() { recover() }()
					σ, _ := ps.VerifBlindChosen(&pp, cv, m)
					req = σ.Bytes()
				}()
				if req == nil {
					c.Add("forgeries_not_buildable", 1)
					continue
				}
				for _, id := range cryptolib.IDs(n) {
					c.Add("evaluations", 1)
					accepted := func() (ok bool) {
						defer func() {
							if r := recover(); r != nil {
								ok = false
							}
						}()
						_, err := w.signers[id].Sign(context.Background(), req)
						return err == nil
					}
					a1, a2 := accepted(), accepted()
					rp := map[string]interface{}{"n": n, "t": t, "L": l, "object": "request", "perturbation": "chosen-mprime-" + nm}
					if a1 != a2 {
						c.Violation("same-verdict-again", "c09-ps-verdict-changes:request", fmt.Sprintf("%s: request with chosen m' (%s), signer %d: verdict changes", what, nm, id), rp)
					}
					if a1 {
						c.Violation("altered-is-rejected", "c09-ps-accepts:request:chosen-mprime", fmt.Sprintf("%s: signer %d signed a request that is consistent for a last message component chosen by the requester (%s) instead of the one determined by the commitment", what, id, nm), rp)
					}
				}
				c.Outcome(fmt.Sprintf("forge|%d|%d|%d|%s", n, t, l, nm))
			}
			// control: the honest value is accepted through the same generated function
			{
				honest, _ := w.pr.Blind(msg)
				_ = honest
			}
			c.Add("executions", 1)
		}})
	}
	return out
}
