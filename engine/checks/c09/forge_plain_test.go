//go:build !verifoverlay

package c09

import "verif/harness"

func forgeCases(c *harness.C) []harness.Case {
	c.Note("forge", "built without the psforge overlay: chosen-m' requests not run")
	return nil
}
