package c15

import (
	"bytes"
	"encoding/json"
	"fmt"
	"os"
	"reflect"
	"sort"
	"strings"
	"sync"
	"testing"
	"time"

	"github.com/IBM/TSS/msg"
	tss "github.com/IBM/TSS/types"
	"verif/dump"
	"verif/harness"
	"verif/world"
)

const (
	maxTopics = 2
	sweep     = time.Second
	perSender = 100 // limitPerSender of msgbox.go (constant)
)

// op of a history
type op struct {
	K string `json:"k"` // recv | burst | send | tick | idle
	S uint16 `json:"s,omitempty"`
	T string `json:"t,omitempty"`
	N int    `json:"n,omitempty"`
}

func (o op) String() string {
	switch o.K {
	case "recv":
		return fmt.Sprintf("recv(%d,%s)", o.S, o.T)
	case "burst":
		return fmt.Sprintf("burst(%d,%s,%d)", o.S, o.T, o.N)
	case "send":
		return "send(" + o.T + ")"
	case "idle":
		return fmt.Sprintf("idle(%d)", o.N)
	}
	return o.K
}

func topicBytes(t string) []byte {
	b := make([]byte, 32)
	copy(b, t)
	return b
}

type handler struct {
	mu  sync.Mutex
	log []string
}

func (h *handler) HandleMessage(m *tss.IncMessage) {
	h.mu.Lock()
	h.log = append(h.log, string(m.Data))
	h.mu.Unlock()
}

// ref is the reference model: what is currently buffered (not started, not expired).
type ref struct {
	buffered map[string]map[uint16][]string // topic -> sender -> message ids accepted by the model
	started  map[string]bool
	lastUse  map[string]time.Duration // topic -> virtual time of last accepted receive
	handed   map[string]int
}

type sim struct {
	c        *harness.C
	expire   time.Duration
	box      *msg.Box
	h        *handler
	tick     chan time.Time
	ref      *ref
	hist     []op
	next     int
	start    time.Time
	bad      func(clause, sig, detail string)
	expect   map[string]bool // message ids that must be handed over by the next send of their topic
	topicOf  map[string]string
	possible map[uint16]map[string]int // sender -> topic -> messages received since the topic last started
	stale    map[string]bool
	lastSend map[string]int
	epoch    int
}

func newSim(c *harness.C, expire time.Duration) *sim {
	s := &sim{c: c, expire: expire, h: &handler{}, tick: make(chan time.Time), start: time.Now(),
		ref:    &ref{buffered: map[string]map[uint16][]string{}, started: map[string]bool{}, lastUse: map[string]time.Duration{}, handed: map[string]int{}},
		expect: map[string]bool{}, topicOf: map[string]string{}, possible: map[uint16]map[string]int{}, stale: map[string]bool{}, lastSend: map[string]int{}}
	s.box = &msg.Box{Logger: world.NopLogger{}, MaxInFlightTopicsBySender: maxTopics, GCSweep: sweep, GCExpire: expire,
		NewTicker:      func(time.Duration) *time.Ticker { return &time.Ticker{C: s.tick} },
		ForwardSend:    func(uint8, []byte, []byte, ...tss.UniversalID) {},
		MessageHandler: s.h}
	// first use starts the clock goroutine
	s.box.Send(uint8(tss.MsgTypeMPC), topicBytes("init"), nil)
	return s
}

func (s *sim) now() time.Duration { return time.Since(s.start) }

// activeTopics of a sender in the reference model: buffered, not started, not expired.
func (s *sim) activeTopics(sender uint16) map[string]bool {
	out := map[string]bool{}
	for t, by := range s.ref.buffered {
		if s.ref.started[t] {
			continue
		}
		// lazy view: data that has expired by the clock may not have been collected yet (collection
		// is driven by Send), so it still counts; the release horizon checks that it goes away
		if len(by[sender]) > 0 {
			out[t] = true
		}
	}
	return out
}

func (s *sim) recv(sender uint16, topic string) {
	id := fmt.Sprintf("m%d", s.next)
	s.next++
	s.topicOf[id] = topic
	// model decision BEFORE the call. The limits are enforced "give or take one", so the box may
	// hold more than the model demands; the model therefore charges the sender with every topic and
	// message it has received since the topic last started (accepted or not), and demands
	// acceptance only when even that upper bound is within the limits.
	if s.possible[sender] == nil {
		s.possible[sender] = map[string]int{}
	}
	poss := s.possible[sender]
	within := true
	if _, known := poss[topic]; !known && len(poss) >= maxTopics {
		within = false // a new topic beyond the limit
	}
	if len(poss) > maxTopics {
		within = false // the sender already exceeds the topic limit
	}
	expired := false // lazy view, see activeTopics
	if poss[topic] >= perSender {
		within = false
	}
	if !s.ref.started[topic] {
		poss[topic]++
	}
	before := len(s.h.log)
	s.box.HandleMessage(&tss.IncMessage{Data: []byte(id), Source: sender, MsgType: uint8(tss.MsgTypeMPC), Topic: topicBytes(topic)})
	if s.ref.started[topic] && s.epoch-s.lastSend[topic] > int(s.expire/sweep) {
		// no send on this topic for longer than the expiry period: its started entry may have been
		// released (late traffic of a finished session is then buffered and expires); either
		// behaviour is fine, and nothing is expected of this message - but if it was buffered, the
		// sender is charged with this topic from now on, so the upper bound must count it
		poss[topic]++
		s.topicOf[id] = topic
		s.stale[id] = true
		return
	}
	if s.ref.started[topic] {
		// started topic: must be forwarded at once
		if len(s.h.log) != before+1 || s.h.log[before] != id {
			s.bad("forward-after-start", "c15-started-topic-not-forwarded", fmt.Sprintf("message for started topic %s was not handed over immediately", topic))
		}
		return
	}
	if lu, ok := s.ref.lastUse[topic]; ok && s.now()-lu >= s.expire {
		// the topic had been idle for the expiry period: what was buffered may have been discarded
		for _, ids := range s.ref.buffered[topic] {
			for _, old := range ids {
				s.stale[old] = true
			}
		}
	}
	if within {
		if expired {
			s.ref.buffered[topic] = map[uint16][]string{}
		}
		if s.ref.buffered[topic] == nil {
			s.ref.buffered[topic] = map[uint16][]string{}
		}
		s.ref.buffered[topic][sender] = append(s.ref.buffered[topic][sender], id)
		s.ref.lastUse[topic] = s.now()
		s.expect[id] = true
	}
}

func (s *sim) send(topic string) {
	before := len(s.h.log)
	s.box.Send(uint8(tss.MsgTypeMPC), topicBytes(topic), nil)
	got := map[string]int{}
	for _, id := range s.h.log[before:] {
		got[id]++
	}
	// every message the model accepted for this topic (and that has not expired) must be handed over now
	if !s.ref.started[topic] {
		expired := s.now()-s.ref.lastUse[topic] >= s.expire
		for sender, ids := range s.ref.buffered[topic] {
			for _, id := range ids {
				if expired || s.stale[id] {
					continue // may legitimately have been discarded
				}
				if got[id] != 1 {
					s.bad("within-limits-accepted", "c15-within-limit-message-not-handed-over", fmt.Sprintf("message %s of sender %d for topic %s was within both limits when received but was handed over %d times by send(%s)", id, sender, topic, got[id], topic))
				}
			}
		}
	}
	for id, n := range got {
		if s.stale[id] {
			continue
		}
		if n > 1 {
			s.bad("no-duplicates", "c15-duplicate-handover", fmt.Sprintf("message %s handed over %d times", id, n))
		}
		if s.topicOf[id] != topic {
			s.bad("right-topic", "c15-wrong-topic-handover", fmt.Sprintf("message %s of topic %s handed over by send(%s)", id, s.topicOf[id], topic))
		}
	}
	s.ref.started[topic] = true
	for _, poss := range s.possible {
		delete(poss, topic)
	}
	s.lastSend[topic] = s.epoch
	delete(s.ref.buffered, topic)
}

func (s *sim) doTick() {
	time.Sleep(sweep)
	s.tick <- time.Time{}
	s.epoch++
}

func (s *sim) apply(o op) {
	switch o.K {
	case "recv":
		s.recv(o.S, o.T)
	case "burst":
		for i := 0; i < o.N; i++ {
			s.recv(o.S, o.T)
		}
	case "send":
		s.send(o.T)
	case "tick":
		s.doTick()
	case "idle":
		for i := 0; i < o.N; i++ {
			s.doTick()
		}
	}
	s.hist = append(s.hist, o)
	s.bounds()
}

// bounds: clause (2) on the reflection dump
func (s *sim) bounds() {
	pm, ok := dump.Field(s.box, "pendingMessages")
	if !ok {
		s.c.Note("c15-dump", "pendingMessages not reachable: bound clause skipped")
		return
	}
	it := pm.MapRange()
	for it.Next() {
		sm := it.Value()
		if sm.IsNil() {
			continue
		}
		cnts, ok := dump.FieldV(sm, "messageCountPerSender")
		if !ok {
			continue
		}
		ci := cnts.MapRange()
		for ci.Next() {
			if n, ok := asInt(ci.Value()); ok && n > perSender+1 {
				s.bad("per-sender-bound", "c15-too-many-buffered-messages", fmt.Sprintf("%d messages buffered for one sender and topic", n))
			}
		}
	}
	// the same two bounds on what is actually held, whatever the counters say: messages per sender
	// and topic, and topics in which a sender has something buffered
	held := map[uint64]int{}
	it = pm.MapRange()
	for it.Next() {
		sm := it.Value()
		if sm.IsNil() {
			continue
		}
		msgs, ok := dump.FieldV(sm, "messages")
		if !ok || msgs.Kind() != reflect.Slice {
			continue
		}
		per := map[uint64]int{}
		for i := 0; i < msgs.Len(); i++ {
			if src, ok := dump.FieldV(msgs.Index(i), "Source"); ok {
				if n, ok := asInt(src); ok {
					per[uint64(n)]++
				}
			}
		}
		for sd, n := range per {
			held[sd]++
			if n > perSender+1 {
				s.bad("per-sender-bound", "c15-too-many-buffered-messages", fmt.Sprintf("%d messages of sender %d are held for one topic (limit %d)", n, sd, perSender))
			}
		}
	}
	for sd, n := range held {
		if n > maxTopics+1 {
			s.bad("topics-bound", "c15-too-many-topics-buffered", fmt.Sprintf("messages of sender %d are held for %d topics that have not started (limit %d)", sd, n, maxTopics))
		}
	}
	if tf, ok := dump.Field(s.box, "totalInFlightTopicsBySender"); ok {
		ti := tf.MapRange()
		for ti.Next() {
			if ti.Value().Len() > maxTopics+1 {
				s.bad("topics-bound", "c15-too-many-topics-tracked", fmt.Sprintf("%d topics tracked for sender %d (limit %d)", ti.Value().Len(), ti.Key().Uint(), maxTopics))
			}
		}
	}
}

func asInt(v reflect.Value) (int, bool) {
	switch v.Kind() {
	case reflect.Int, reflect.Int8, reflect.Int16, reflect.Int32, reflect.Int64:
		return int(v.Int()), true
	case reflect.Uint, reflect.Uint8, reflect.Uint16, reflect.Uint32, reflect.Uint64:
		return int(v.Uint()), true
	}
	return 0, false
}

// key: canonical dump for deduplication (relative times)
func (s *sim) key() string {
	var sb strings.Builder
	sb.WriteString(dump.Fields(s.box, "startedSending", "totalInFlightTopicsBySender", "currentGCEpochNum", "lastGC"))
	pm, ok := dump.Field(s.box, "pendingMessages")
	if ok {
		var ks []string
		it := pm.MapRange()
		for it.Next() {
			sm := it.Value()
			e := fmt.Sprintf("%x:", it.Key().String()[:2])
			if !sm.IsNil() {
				if cv, ok := dump.FieldV(sm, "messageCountPerSender"); ok {
					e += dump.ValueV(cv)
				}
				if lu, ok := dump.FieldV(sm, "lastUsed"); ok {
					if ti, ok2 := dump.Iface(lu); ok2 {
						if t, ok3 := ti.(time.Time); ok3 {
							e += fmt.Sprintf("age=%d", int(time.Since(t)/time.Second))
						}
					}
				}
			}
			ks = append(ks, e)
		}
		sort.Strings(ks)
		sb.WriteString(strings.Join(ks, ","))
	}
	// model state matters for the oracle's future
	var rs []string
	for t, by := range s.ref.buffered {
		for sd, ids := range by {
			rs = append(rs, fmt.Sprintf("%s/%d/%d/%d", t, sd, len(ids), int((s.now()-s.ref.lastUse[t])/time.Second)))
		}
	}
	sort.Strings(rs)
	sb.WriteString("|" + strings.Join(rs, ","))
	return sb.String()
}

// release: clause (4). After the history, run a horizon of 3*expire epochs in which another topic
// is sent on in every epoch; then nothing may be retained for topics that started or expired.
func (s *sim) release(shed bool) {
	epochs := int(3 * s.expire / sweep)
	// shed variant: every sender that is certainly over its per-topic allowance on a topic that has
	// not started keeps sending to that topic in every epoch; this traffic must be shed and must not
	// keep anything alive
	type st struct {
		s uint16
		t string
	}
	var over []st
	if shed {
		for sender, by := range s.possible {
			for t, n := range by {
				if n > perSender+1 && !s.ref.started[t] {
					over = append(over, st{sender, t})
				}
			}
		}
		sort.Slice(over, func(i, j int) bool { return over[i].s < over[j].s || over[i].s == over[j].s && over[i].t < over[j].t })
		if len(over) == 0 {
			return
		}
	}
	for i := 0; i < epochs; i++ {
		s.doTick()
		for _, o := range over {
			s.box.HandleMessage(&tss.IncMessage{Data: []byte("shed"), Source: o.s, MsgType: uint8(tss.MsgTypeMPC), Topic: topicBytes(o.t)})
		}
		s.box.Send(uint8(tss.MsgTypeMPC), topicBytes("keepalive"), nil)
	}
	if shed {
		// black-box oracle: what was buffered before the horizon has expired (nothing that was
		// accepted refreshed it; whatever the box accepted after it had discarded the topic is new
		// data). Start each such topic now: none of the old messages may come out.
		before := len(s.h.log)
		for _, o := range over {
			s.box.Send(uint8(tss.MsgTypeMPC), topicBytes(o.t), nil)
		}
		old := 0
		for _, id := range s.h.log[before:] {
			if id != "shed" {
				old++
			}
		}
		if old > 0 {
			s.bad("resources-released", "c15-buffer-never-discarded:under-shed-traffic", fmt.Sprintf("%d messages buffered before a horizon of %d epochs were still held after it, although the only traffic for their topic meanwhile (%v: sender, topic) was over the per-sender allowance and had to be shed without effect", old, epochs, over))
		}
		return
	}
	retained := func(field string) []string {
		var out []string
		for _, k := range dump.MapKeys(s.box, field) {
			out = append(out, k)
		}
		return out
	}
	name := func(k string) string {
		// keys are dumped as quoted printable prefixes or hex
		for _, t := range []string{"A", "B", "C", "D", "keepalive", "init"} {
			if strings.Contains(k, fmt.Sprintf("%x", []byte(t))) || strings.HasPrefix(strings.Trim(k, "\"x"), t) {
				return t
			}
		}
		return k
	}
	for _, k := range retained("pendingMessages") {
		if t := name(k); t != "keepalive" {
			s.bad("resources-released", "c15-buffer-never-discarded", fmt.Sprintf("after %d further epochs messages for topic %s are still buffered", epochs, t))
		}
	}
	if tf, ok := dump.Field(s.box, "totalInFlightTopicsBySender"); ok {
		ti := tf.MapRange()
		for ti.Next() {
			if ti.Value().Len() > 0 {
				s.bad("resources-released", "c15-sender-topic-set-never-released", fmt.Sprintf("after %d further epochs sender %d is still charged with %d topics", epochs, ti.Key().Uint(), ti.Value().Len()))
			}
		}
	}
	for _, k := range retained("startedSending") {
		if t := name(k); t != "keepalive" {
			s.bad("resources-released", "c15-started-entry-never-released", fmt.Sprintf("after %d further epochs the started entry of topic %s is still kept", epochs, t))
		}
	}
}

func alphabet(thorough bool) []op {
	var ops []op
	topics := []string{"A", "B", "C"}
	if thorough {
		topics = append(topics, "D")
	}
	for _, s := range []uint16{1, 2} {
		for _, t := range topics {
			ops = append(ops, op{K: "recv", S: s, T: t})
		}
	}
	for _, n := range []int{99, 101, 102} {
		ops = append(ops, op{K: "burst", S: 1, T: "A", N: n})
	}
	if thorough {
		ops = append(ops, op{K: "burst", S: 1, T: "A", N: 250}, op{K: "burst", S: 2, T: "B", N: 100})
	}
	for _, t := range topics {
		ops = append(ops, op{K: "send", T: t})
	}
	ops = append(ops, op{K: "tick"}, op{K: "idle", N: 3}, op{K: "idle", N: 5})
	return ops
}

type replay struct {
	Expire int  `json:"expire_s"`
	Hist   []op `json:"hist"`
	Final  bool `json:"final"`
	Shed   bool `json:"shed,omitempty"`
}

// runHist replays a history on a fresh box. It returns the canonical key.
func runHist(c *harness.C, expire time.Duration, hist []op, final bool, reported map[string]bool) (key string) {
	return runHistX(c, expire, hist, final, false, reported)
}

func runHistX(c *harness.C, expire time.Duration, hist []op, final, shed bool, reported map[string]bool) (key string) {
	c.Exec(fmt.Sprintf("[c15] e%d %v final=%v shed=%v", int(expire/time.Second), hist, final, shed))
	rec := c.Bubble(func() {
		s := newSim(c, expire)
		s.bad = func(clause, sig, detail string) {
			if reported[sig] {
				return
			}
			reported[sig] = true
			var hs []string
			for _, o := range s.hist {
				hs = append(hs, o.String())
			}
			c.Violation(clause, sig, fmt.Sprintf("expire=%v history [%s]: %s", expire, strings.Join(hs, " "), detail), replay{int(expire / time.Second), hist, final, shed})
		}
		for _, o := range hist {
			s.apply(o)
		}
		key = s.key()
		if final {
			s.release(shed)
		}
		s.box.Stop()
	})
	if rec != nil && !harness.IsLeakPanic(rec) {
		panic(rec)
	}
	return key
}

func bfsCase(expire time.Duration, first op, depth int, thorough bool) harness.Case {
	return harness.Case{ID: fmt.Sprintf("e%d/%s/d%d", int(expire/time.Second), first, depth), Run: func(c *harness.C) {
		reported := map[string]bool{}
		if c.Replay != nil {
			var rp replay
			if json.Unmarshal(c.Replay, &rp) == nil {
				runHistX(c, time.Duration(rp.Expire)*time.Second, rp.Hist, rp.Final, rp.Shed, reported)
			}
			return
		}
		ops := alphabet(thorough)
		seen := map[string]bool{}
		frontier := [][]op{{first}}
		k0 := runHist(c, expire, frontier[0], false, reported)
		seen[k0] = true
		c.State(fmt.Sprint(expire) + "|" + k0)
		for d := 1; d < depth && len(frontier) > 0; d++ {
			var next [][]op
			for _, h := range frontier {
				for _, o := range ops {
					if c.Expired() {
						return
					}
					nh := append(append([]op(nil), h...), o)
					k := runHist(c, expire, nh, false, reported)
					c.Add("transitions", 1)
					c.Add("evaluations", 1)
					if !seen[k] {
						seen[k] = true
						c.State(fmt.Sprint(expire) + "|" + k)
						next = append(next, nh)
					}
				}
			}
			frontier = next
			// clause (4) from every state of the last completed level of depth <= 3
			if d <= 2 {
				for _, h := range frontier {
					runHist(c, expire, h, true, reported)
					c.Add("release_checks", 1)
					for _, o := range h {
						if o.K == "burst" && o.N > perSender+1 {
							runHistX(c, expire, h, true, true, reported)
							c.Add("release_checks_under_shed_traffic", 1)
							break
						}
					}
					var hs []string
					for _, o := range h {
						hs = append(hs, o.String())
					}
					if c.Outcome(fmt.Sprint(expire) + "|" + strings.Join(hs, " ")) {
						c.Sample("c15-history", map[string]interface{}{"expire": expire.String(), "history": hs})
					}
				}
			}
		}
		c.Add("executions", len(seen))
	}}
}

// cycleCase: long generated cycles recv(s,T_i); send(T_i); tick for i = 1..50: a sender that is
// always within the limits must never be throttled.
func cycleCase(expire time.Duration, prefix []op) harness.Case {
	var ps []string
	for _, o := range prefix {
		ps = append(ps, o.String())
	}
	return harness.Case{ID: fmt.Sprintf("e%d/cycle/%s", int(expire/time.Second), strings.Join(ps, "_")), Run: func(c *harness.C) {
		reported := map[string]bool{}
		h := append([]op(nil), prefix...)
		for i := 0; i < 50; i++ {
			t := fmt.Sprintf("T%02d", i)
			h = append(h, op{K: "recv", S: 1, T: t}, op{K: "send", T: t}, op{K: "tick"})
		}
		runHist(c, expire, h, false, reported)
		c.Add("executions", 1)
		c.Add("transitions", len(h))
		c.Outcome(fmt.Sprint(expire) + "|cycle|" + strings.Join(ps, " "))
	}}
}

// sharingCase: several senders open topics (each within its own limit); another sender then sends on
// all of those topics. Its topic count must stay within the limit (give or take one) whoever
// opened the topics; afterwards everything is started and the bookkeeping must be released.
func sharingCase(expire time.Duration, openers int) harness.Case {
	return harness.Case{ID: fmt.Sprintf("e%d/sharing/%d-openers", int(expire/time.Second), openers), Run: func(c *harness.C) {
		reported := map[string]bool{}
		var h []op
		var topics []string
		for s := 0; s < openers; s++ {
			for j := 0; j < maxTopics; j++ {
				t := fmt.Sprintf("T%02d", s*maxTopics+j)
				topics = append(topics, t)
				h = append(h, op{K: "recv", S: uint16(s + 2), T: t})
			}
		}
		for _, t := range topics {
			h = append(h, op{K: "recv", S: 1, T: t})
		}
		for _, t := range topics {
			h = append(h, op{K: "recv", S: 1, T: t})
		}
		for _, t := range topics {
			h = append(h, op{K: "send", T: t})
		}
		runHist(c, expire, h, true, reported)
		c.Add("executions", 1)
		c.Add("transitions", len(h))
		c.Outcome(fmt.Sprintf("%v|sharing|%d", expire, openers))
	}}
}

// peerKeepsAliveCase: topics that the local party started and then left alone, while a peer keeps
// sending for them in every epoch: the local party's own sends keep a started topic alive, a peer's
// traffic does not - after the expiry period the started entries are gone.
func peerKeepsAliveCase(expire time.Duration) harness.Case {
	return harness.Case{ID: fmt.Sprintf("e%d/peer-traffic-on-finished-topics", int(expire/time.Second)), Run: func(c *harness.C) {
		c.Exec(fmt.Sprintf("[c15] e%d peer traffic on finished topics", int(expire/time.Second)))
		rec := c.Bubble(func() {
			s := newSim(c, expire)
			reported := map[string]bool{}
			s.bad = func(clause, sig, detail string) {
				if !reported[sig] {
					reported[sig] = true
					c.Violation(clause, sig, fmt.Sprintf("expire=%v: %s", expire, detail), map[string]interface{}{"peer_traffic": true, "expire_s": int(expire / time.Second)})
				}
			}
			for _, t := range []string{"A", "B", "C"} {
				s.box.Send(uint8(tss.MsgTypeMPC), topicBytes(t), nil)
			}
			epochs := int(4 * expire / sweep)
			for i := 0; i < epochs; i++ {
				s.doTick()
				for _, t := range []string{"A", "B", "C"} {
					for _, sd := range []uint16{1, 2} {
						s.box.HandleMessage(&tss.IncMessage{Data: []byte("late"), Source: sd, MsgType: uint8(tss.MsgTypeMPC), Topic: topicBytes(t)})
					}
				}
				s.box.Send(uint8(tss.MsgTypeMPC), topicBytes("keepalive"), nil)
			}
			for _, k := range dump.MapKeys(s.box, "startedSending") {
				for _, t := range []string{"A", "B", "C"} {
					if strings.Contains(k, fmt.Sprintf("%x", []byte(t))) || strings.HasPrefix(strings.Trim(k, "\"x"), t) {
						s.bad("resources-released", "c15-started-entry-kept-alive-by-peer-traffic", fmt.Sprintf("the local party sent on topic %s once and then left it alone for %d epochs, peers kept sending for it in every epoch: its started entry is still kept", t, epochs))
					}
				}
			}
			s.box.Stop()
		})
		if rec != nil && !harness.IsLeakPanic(rec) {
			panic(rec)
		}
		c.Add("executions", 1)
		c.Outcome(fmt.Sprintf("%v|peer-keeps-alive", expire))
	}}
}

// malformedTopicCase: floods of messages whose topic is not a 32-byte digest (every length from 0 to
// 33 and a few longer ones, more copies than the per-sender limit): shed without failing, and
// nothing of it is held or charged to the sender afterwards.
func malformedTopicCase(expire time.Duration) harness.Case {
	return harness.Case{ID: fmt.Sprintf("e%d/malformed-topic-floods", int(expire/time.Second)), Run: func(c *harness.C) {
		c.Exec(fmt.Sprintf("[c15] e%d malformed topic floods", int(expire/time.Second)))
		rec := c.Bubble(func() {
			s := newSim(c, expire)
			reported := map[string]bool{}
			s.bad = func(clause, sig, detail string) {
				if !reported[sig] {
					reported[sig] = true
					c.Violation(clause, sig, fmt.Sprintf("expire=%v: %s", expire, detail), map[string]interface{}{"malformed_topics": true, "expire_s": int(expire / time.Second)})
				}
			}
			lens := []int{}
			for l := 0; l <= 33; l++ {
				if l != 32 {
					lens = append(lens, l)
				}
			}
			lens = append(lens, 40, 64, 100)
			for _, l := range lens {
				tp := bytes.Repeat([]byte{byte(l + 1)}, l)
				for k := 0; k < perSender+5; k++ {
					s.box.HandleMessage(&tss.IncMessage{Data: []byte("x"), Source: 1, MsgType: uint8(tss.MsgTypeMPC), Topic: tp})
				}
				s.box.HandleMessage(&tss.IncMessage{Data: []byte("y"), Source: 2, MsgType: uint8(tss.MsgTypeMPC), Topic: tp})
			}
			for _, k := range dump.MapKeys(s.box, "pendingMessages") {
				s.bad("malformed-topics-shed", "c15-malformed-topic-buffered", fmt.Sprintf("messages whose topic is not 32 bytes long are held in the buffer (key %s)", k))
			}
			if tf, ok := dump.Field(s.box, "totalInFlightTopicsBySender"); ok {
				ti := tf.MapRange()
				for ti.Next() {
					if ti.Value().Len() > 0 {
						s.bad("malformed-topics-shed", "c15-malformed-topic-charged", fmt.Sprintf("sender %d is charged with %d topics after sending only malformed ones", ti.Key().Uint(), ti.Value().Len()))
					}
				}
			}
			// a well-formed message afterwards is buffered and handed over as usual
			s.recv(1, "A")
			s.send("A")
			s.box.Stop()
		})
		if rec != nil && !harness.IsLeakPanic(rec) {
			panic(rec)
		}
		c.Add("executions", 1)
		c.Outcome(fmt.Sprintf("%v|malformed-topic-floods", expire))
	}}
}

// histCase: one fixed history (floods, topics that resemble one another).
func histCase(expire time.Duration, name string, h []op) harness.Case {
	return harness.Case{ID: fmt.Sprintf("e%d/%s", int(expire/time.Second), name), Run: func(c *harness.C) {
		reported := map[string]bool{}
		runHist(c, expire, h, true, reported)
		c.Add("executions", 1)
		c.Add("transitions", len(h))
		c.Outcome(fmt.Sprintf("%v|%s", expire, name))
	}}
}

func gen(c *harness.C) []harness.Case {
	c.Note("rule", "sequential histories on the real msg.Box in a bubble (virtual wall clock, harness ticker as epoch clock, limits: 2 topics per sender, 100 messages per sender and topic, GCSweep 1s, GCExpire 2s/4s); BFS over the operation alphabet with deduplication on the reflection dump; a map-based reference model decides which messages are within the limits; from every state of depth <= 3 a release horizon of 3*GCExpire epochs is run; distinct_nontrivial = distinct histories of the release checks and cycles")
	depth := 5
	if c.Thorough() {
		depth = 7
	}
	if c.Replay != nil {
		var pt struct {
			Peer   bool `json:"peer_traffic"`
			Expire int  `json:"expire_s"`
		}
		if json.Unmarshal(c.Replay, &pt) == nil && pt.Peer {
			return []harness.Case{peerKeepsAliveCase(time.Duration(pt.Expire) * time.Second)}
		}
		var mt struct {
			Mal    bool `json:"malformed_topics"`
			Expire int  `json:"expire_s"`
		}
		if json.Unmarshal(c.Replay, &mt) == nil && mt.Mal {
			return []harness.Case{malformedTopicCase(time.Duration(mt.Expire) * time.Second)}
		}
		return []harness.Case{bfsCase(2*time.Second, op{K: "tick"}, 1, false)}[:1]
	}
	var cases []harness.Case
	for _, e := range []time.Duration{2 * time.Second, 4 * time.Second} {
		for _, first := range alphabet(c.Thorough()) {
			cases = append(cases, bfsCase(e, first, depth, c.Thorough()))
		}
		for _, n := range []int{2, 3, 5} {
			cases = append(cases, sharingCase(e, n))
		}
		cases = append(cases, peerKeepsAliveCase(e), malformedTopicCase(e))
		// floods far beyond the limit (counters of any width must not come round again)
		floods := []int{255, 256, 257, 358, 513, 1000}
		if c.Thorough() {
			floods = append(floods, 65535, 65536, 65537, 65638, 70000)
		}
		for _, n := range floods {
			cases = append(cases, histCase(e, fmt.Sprintf("flood/%d", n), []op{{K: "burst", S: 1, T: "A", N: n}, {K: "recv", S: 2, T: "A"}, {K: "send", T: "A"}}))
		}
		// a sender keeps two topics open, the local party starts one of them, the sender opens the
		// next ones, and so on: starting a topic gives back that topic's slot, not the whole allowance
		{
			var h []op
			tp := func(i int) string { return fmt.Sprintf("R%02d", i) }
			next := 0
			for ; next < maxTopics; next++ {
				h = append(h, op{K: "recv", S: 1, T: tp(next)})
			}
			for round := 0; round < 6; round++ {
				h = append(h, op{K: "send", T: tp(2 * round)})
				for j := 0; j < maxTopics+1; j++ {
					h = append(h, op{K: "recv", S: 1, T: tp(next)})
					next++
				}
			}
			cases = append(cases, histCase(e, "start-one-open-more", h))
		}
		// topics that agree in their first / last bytes are different topics
		for _, pat := range []string{"SAMEPREFIX-%d", "SAMEPREFIXSAMEPREFIXSAMEPREFIX-%d", "%d-SAMESUFFIXSAMESUFFIXSAMESUFFIX"} {
			var h []op
			for i := 0; i < 6; i++ {
				h = append(h, op{K: "recv", S: 1, T: fmt.Sprintf(pat, i)})
			}
			for i := 0; i < 6; i++ {
				h = append(h, op{K: "recv", S: 1, T: fmt.Sprintf(pat, i)})
			}
			h = append(h, op{K: "send", T: fmt.Sprintf(pat, 0)}, op{K: "recv", S: 1, T: fmt.Sprintf(pat, 1)}, op{K: "send", T: fmt.Sprintf(pat, 1)})
			cases = append(cases, histCase(e, "similar-topics/"+fmt.Sprintf(pat, 0), h))
		}
		for _, p := range [][]op{nil, {{K: "recv", S: 1, T: "A"}}, {{K: "recv", S: 1, T: "A"}, {K: "recv", S: 1, T: "B"}}, {{K: "idle", N: 5}}, {{K: "send", T: "A"}, {K: "idle", N: 5}}} {
			cases = append(cases, cycleCase(e, p))
		}
	}
	return cases
}

func TestCheck(t *testing.T) {
	harness.Main(t, "C15", func(c *harness.C) []harness.Case {
		cs := gen(c)
		if c.Replay != nil {
			cs[0].ID = os.Getenv("VERIF_ONLY")
		}
		return cs
	})
}
