//go:build !psonly

package c10

import (
	"crypto/sha256"
	"time"

	"github.com/IBM/TSS/mpc/bls"
	tss "github.com/IBM/TSS/types"
	"verif/backend/blsb"
	"verif/cryptolib"
	"verif/harness"
	"verif/world"
)

const haveBLS = true
const buildPrefix = ""

var backendsLinked = []string{"bls", "ps"}

func blsFactories() (tss.KeyGenFactory, tss.SignerFactory) {
	return blsb.KeyGenFactory, blsb.SignerFactory
}

func blsArtefacts() (pk []byte, share []byte, sig []byte) {
	shares, _ := cryptolib.DKG("bls", 3, 2, 1, nil, 20*time.Second)
	sg, _ := cryptolib.BLSSigners(3, 2, shares)
	pk, _ = sg[1].ThresholdPK()
	d := sha256.Sum256([]byte("c10"))
	sig, _ = sg[1].Sign(nil, d[:])
	return pk, shares[1], sig
}

var blsCache struct {
	ok          bool
	pk, sh, sig []byte
}

func blsArtefactsCached() ([]byte, []byte, []byte) {
	if !blsCache.ok {
		blsCache.pk, blsCache.sh, blsCache.sig = blsArtefacts()
		blsCache.ok = true
	}
	return blsCache.pk, blsCache.sh, blsCache.sig
}

func blsDirectCases(quick bool) []harness.Case {
	var cases []harness.Case
	// BLS
	cases = append(cases, directCase("bls.Verifier.Init", quick, func(c *harness.C) []art {
		pk, _, _ := blsArtefacts()
		return []art{{"public-params", pk}}
	}, func(a art, v []byte) {
		var vf bls.Verifier
		if vf.Init(v) == nil {
			d := sha256.Sum256([]byte("c10"))
			vf.Verify(d[:], []byte{1, 2, 3})
		}
	}))
	cases = append(cases, directCase("bls.Verifier.Verify+Aggregate", quick, func(c *harness.C) []art {
		_, _, sig := blsArtefacts()
		return []art{{"partial-signature", sig}}
	}, func(a art, v []byte) {
		pk, _, _ := blsArtefactsCached()
		var vf bls.Verifier
		vf.Init(pk)
		d := sha256.Sum256([]byte("c10"))
		vf.Verify(d[:], v)
		vf.AggregateSignatures([][]byte{v, a.data}, []uint16{1, 2})
	}))
	cases = append(cases, directCase("bls.TBLS.SetShareData", quick, func(c *harness.C) []art {
		_, sh, _ := blsArtefacts()
		return []art{{"stored-data", sh}}
	}, func(a art, v []byte) {
		s := &bls.TBLS{Logger: world.NopLogger{}, Party: 1}
		s.Init(cryptolib.IDs(3), 2, nil)
		if s.SetShareData(v) == nil {
			s.ThresholdPK()
			d := sha256.Sum256([]byte("c10"))
			s.Sign(nil, d[:])
		}
	}))
	return cases
}
