package c10

import (
	"context"
	"crypto/hmac"
	"crypto/sha256"
	"encoding/json"
	"fmt"
	"os"
	"runtime/debug"
	"strings"
	"testing"
	"time"

	"github.com/IBM/TSS/mpc/ps"
	"verif/backend/psb"
	"verif/cryptolib"
	"verif/explore"
	"verif/harness"
	"verif/mutate"
	"verif/scen"
	"verif/world"
)

const deadline = 4 * time.Second

var members = []uint16{1, 2, 3}

const (
	outsider = 4  // configured, does not take part (5 and 6 are two more of the kind)
	unknown  = 77 // not configured
)

var allNodes = []uint16{1, 2, 3, outsider, 5, 6}

// ---------------------------------------------------------------------------------------------
// (A) dispatcher level, on live sessions

type sess struct {
	Mode    string `json:"mode"`
	Backend string `json:"backend"`
}

func (s sess) String() string { return s.Mode + "/" + s.Backend }

func stack(s sess) *scen.Stack {
	st := &scen.Stack{Mode: s.Mode, Threshold: 2, Membership: scen.Identity(allNodes)}
	switch s.Backend {
	case "ps":
		st.KGF, st.SF = psb.KeyGenFactory(1), psb.SignerFactory(1)
	default:
		st.KGF, st.SF = blsFactories()
	}
	st.Pick = func([]byte, int) []uint16 { return members }
	return st
}

// honest runs a fault-free session and returns, per message class, the first packet delivered to
// party 1, and the number of steps.
func honest(c *harness.C, s sess) (map[string]*world.Packet, int) {
	reps := map[string]*world.Packet{}
	steps := 0
	rec := c.Bubble(func() {
		w := world.New(allNodes)
		st := stack(s)
		for _, id := range allNodes {
			st.Build(w, id)
		}
		w.OnDeliver = func(p *world.Packet) {
			if p.To != 1 {
				return
			}
			k := fmt.Sprintf("t%d/%s", p.Type, strings.SplitN(world.DataClass(p.Type, p.Data), " ", 2)[0])
			if strings.HasPrefix(k, "t2/ack") {
				k = "t2/ack"
			}
			if strings.HasPrefix(k, "t1/s") {
				k = k[:5]
			}
			if _, ok := reps[k]; !ok {
				reps[k] = p
			}
		}
		rs := scen.NewResults()
		for _, id := range members {
			scen.StartKeyGen(w, w.Parties[id], rs, fmt.Sprint(id), 3, 3, deadline)
		}
		w.Loop(&explore.Recorder{}, deadline)
		steps = len(w.Trace)
		w.Stop()
	})
	if rec != nil && !harness.IsLeakPanic(rec) {
		panic(rec)
	}
	return reps, steps
}

type inj struct {
	desc   string
	typ    uint8
	topic  []byte
	data   []byte
	source uint16
}

type sessReplay struct {
	Sess   sess   `json:"sess"`
	State  int    `json:"state_step"`
	Source uint16 `json:"source"`
	Class  string `json:"class"`
	Kind   string `json:"kind"`
}

// topicVariants for a live topic
func topicVariants(live []byte) [][]byte {
	unk := sha256.Sum256([]byte("no such topic"))
	out := [][]byte{nil, {}, {1}, {1, 2, 3}, {1, 2, 3, 4}, {1, 2, 3, 4, 5, 6, 7}, {1, 2, 3, 4, 5, 6, 7, 8}, live[:31], append(append([]byte(nil), live...), 9), unk[:]}
	if len(live) >= 8 {
		out = append(out, live[:8], live[:4])
	}
	return out
}

// injections of one class and kind
func injections(rep *world.Packet, kind string, source uint16, seed int64, quick bool) []inj {
	var out []inj
	mk := func(desc string, typ uint8, topic, data []byte) {
		out = append(out, inj{desc, typ, topic, data, source})
	}
	switch kind {
	case "truncate", "extend", "substitute", "asn1-remove", "asn1-duplicate":
		for _, v := range mutate.All(rep.Data, seed, quick) {
			if v.Kind == kind {
				mk(v.Kind+" "+v.Desc, rep.Type, rep.Topic, v.Data)
			}
		}
		if kind == "asn1-remove" || kind == "asn1-duplicate" {
			// MPC payloads are framed: [255][tag][ASN.1]; mutate the inner structure too
			if rep.Type == 2 && len(rep.Data) > 2 && rep.Data[0] == 255 {
				for _, v := range mutate.ASN1Variants(rep.Data[2:]) {
					if v.Kind == kind {
						mk(v.Kind+" inner "+v.Desc, rep.Type, rep.Topic, append(append([]byte(nil), rep.Data[:2]...), v.Data...))
					}
				}
			}
		}
	case "own-tag":
		// well-formed synchroniser messages that carry the tag of the node that really sends them
		// (a configured member that does not take part, or a participant): every message type, the
		// original view and some others, each sent once and repeatedly
		if rep.Type != 1 || len(rep.Data) < 33 {
			return nil
		}
		srcs := []uint16{source}
		if source == outsider {
			srcs = []uint16{outsider, 5, 6} // every configured member that does not take part
		}
		views := [][]byte{rep.Data[33:], nil, {1, 0, 2, 0, 3, 0, 4, 0}, {1, 0, 2, 0}}
		for mt := byte(1); mt <= 3; mt++ {
			for vi, v := range views {
				for _, src := range srcs {
					h := hmac.New(sha256.New, rep.Topic)
					h.Write([]byte{byte(src), byte(src >> 8)})
					d := append(append([]byte{mt}, h.Sum(nil)...), v...)
					for rep2 := 0; rep2 < 2; rep2++ {
						out = append(out, inj{fmt.Sprintf("own-tag type %d view#%d from %d copy %d", mt, vi, src, rep2), rep.Type, rep.Topic, d, src})
					}
				}
			}
		}
	case "topic":
		for i, t := range topicVariants(rep.Topic) {
			mk(fmt.Sprintf("topic variant %d (len %d)", i, len(t)), rep.Type, t, rep.Data)
			mk(fmt.Sprintf("topic variant %d (len %d), empty data", i, len(t)), rep.Type, t, nil)
		}
	case "topic-flood":
		// the same malformed-topic message over and over: more copies than any per-sender limit
		// (limits are where the rarely taken branches are)
		for i, t := range topicVariants(rep.Topic) {
			for k := 0; k < 104; k++ {
				mk(fmt.Sprintf("topic variant %d (len %d), copy %d", i, len(t), k), rep.Type, t, rep.Data)
			}
		}
	case "msgtype":
		for _, mt := range []uint8{0, 1, 2, 3, 255} {
			mk(fmt.Sprintf("msgtype %d", mt), mt, rep.Topic, rep.Data)
			mk(fmt.Sprintf("msgtype %d, empty data", mt), mt, rep.Topic, nil)
			mk(fmt.Sprintf("msgtype %d, one byte", mt), mt, rep.Topic, []byte{rep.Data[0]})
		}
	}
	return out
}

var kinds = []string{"truncate", "extend", "substitute", "asn1-remove", "asn1-duplicate", "topic", "topic-flood", "msgtype", "own-tag"}

// sessionRun brings a session to the given step, fires the injections at party 1, finishes.
func sessionRun(c *harness.C, s sess, stateStep int, injs []inj) (returned, succeeded int) {
	rec := c.Bubble(func() {
		all := allNodes
		w := world.New(all)
		st := stack(s)
		for _, id := range all {
			st.Build(w, id)
		}
		rs := scen.NewResults()
		start := func() {
			for _, id := range members {
				scen.StartKeyGen(w, w.Parties[id], rs, fmt.Sprint(id), 3, 3, deadline)
			}
		}
		if stateStep >= 0 {
			start()
			w.StepLimit = stateStep
			w.Loop(&explore.Recorder{}, deadline)
			w.StepLimit = 0
		}
		w.Settle()
		for _, in := range injs {
			p := &world.Packet{From: in.source, To: 1, Type: in.typ, Topic: in.topic, Data: in.data}
			w.Net.Inject(p)
			w.Deliver(p)
			w.Settle()
		}
		if stateStep < 0 {
			start() // state "idle": the session starts after the junk arrived
		}
		w.Loop(&explore.Recorder{}, deadline+time.Second)
		for _, id := range members {
			r := rs.Get(fmt.Sprint(id))
			if r != nil && r.Returned {
				returned++
				if r.Err == nil {
					succeeded++
				}
			}
		}
		w.Advance(5 * time.Second)
		w.Stop()
	})
	if rec != nil && !harness.IsLeakPanic(rec) {
		panic(rec)
	}
	return
}

func sessionCase(s sess, state int, stateName string, source uint16, srcName, class, kind string, quick bool) harness.Case {
	id := fmt.Sprintf("%ssession/%s/%s/%s/%s/%s", buildPrefix, s, stateName, srcName, class, kind)
	return harness.Case{ID: id, Run: func(c *harness.C) {
		reps, _ := honest(c, s)
		rep := reps[class]
		if rep == nil {
			c.Add("class_not_observed", 1)
			return
		}
		injs := injections(rep, kind, source, c.Seed, quick)
		if len(injs) == 0 {
			return
		}
		c.Exec(fmt.Sprintf("[%s/%s] class=%s state=%s source=%s %d inputs", s.Mode, kind, class, stateName, srcName, len(injs)))
		ret, ok := sessionRun(c, s, state, injs)
		c.Add("evaluations", len(injs))
		c.Add("executions", 1)
		rp := sessReplay{s, state, source, class, kind}
		if ret != len(members) {
			c.Violation("no-hang", fmt.Sprintf("c10-session-hangs:%s/%s/%s/%s", s, class, kind, srcName), fmt.Sprintf("%s: after %d %s inputs of class %s from %s in state %s only %d of %d KeyGen calls returned by the deadline", s, len(injs), kind, class, srcName, stateName, ret, len(members)), rp)
		}
		// (a configured member that announces itself with its own valid tag is a candidate participant:
		// the synchroniser then legitimately reports too many members, so for kind own-tag only
		// "no crash, no hang" is demanded)
		if srcName != "participant" && kind != "own-tag" && ok != len(members) {
			c.Violation("service-continues", fmt.Sprintf("c10-session-disturbed:%s/%s/%s/%s", s, class, kind, srcName), fmt.Sprintf("%s: %d %s inputs of class %s from %s (not a participant) in state %s made the honest session fail (%d of %d succeeded)", s, len(injs), kind, class, srcName, stateName, ok, len(members)), rp)
		}
		c.Outcome(id)
		c.Sample("session", map[string]interface{}{"case": id, "inputs": len(injs), "first": injs[0].desc, "returned": ret, "succeeded": ok})
	}}
}

// ---------------------------------------------------------------------------------------------
// (B) direct entry points with recover (precise attribution)

type art struct {
	name string
	data []byte
}

func directCase(name string, quick bool, build func(c *harness.C) []art, call func(a art, v []byte)) harness.Case {
	return harness.Case{ID: "direct/" + name, Run: func(c *harness.C) {
		c.Exec("[direct/" + name + "]")
		arts := build(c)
		reported := map[string]bool{}
		for _, a := range arts {
			for _, v := range mutate.All(a.data, c.Seed, quick) {
				v := v
				func() {
					c.Add("evaluations", 1)
					defer func() {
						if r := recover(); r != nil {
							frame := "?"
							for _, l := range strings.Split(string(debug.Stack()), "\n") {
								if strings.HasPrefix(l, "github.com/IBM/TSS/") {
									frame = strings.TrimPrefix(l, "github.com/IBM/TSS/")
									if i := strings.LastIndex(frame, "("); i > 0 {
										frame = frame[:i]
									}
									break
								}
							}
							sig := fmt.Sprintf("c10-panic:%s/%s:%s:%s", name, a.name, frame, v.Kind)
							if !reported[sig] {
								reported[sig] = true
								c.Violation("no-panic", sig, fmt.Sprintf("%s on artefact %s: panic on %s (%s): %v", name, a.name, v.Kind, v.Desc, r), map[string]interface{}{"entry": name, "artefact": a.name, "kind": v.Kind, "desc": v.Desc})
							}
						}
					}()
					call(a, v.Data)
				}()
			}
			c.Outcome("direct|" + name + "|" + a.name)
		}
		c.Sample("direct", map[string]interface{}{"entry": name, "artefacts": len(arts)})
	}}
}

type psArts struct {
	tpk, share, req, sig, pok []byte
	secret                    ps.UnblindingSecret
}

func psArtefacts(l int) psArts {
	shares, _ := cryptolib.DKG("ps", 3, 2, l, nil, 30*time.Second)
	sg, _ := cryptolib.PSSigners(3, 2, l, shares)
	tpk, _ := sg[1].ThresholdPK()
	pr := &ps.Prover{Logger: world.NopLogger{}}
	pr.Init(cryptolib.Curve, l, tpk, cryptolib.IDs(3))
	msg := make([][]byte, l)
	for i := range msg {
		msg[i] = []byte{byte(i)}
	}
	req, secret := pr.Blind(msg)
	var ws []ps.SignatureWitness
	var sig1 []byte
	for _, id := range []uint16{1, 2} {
		s, _ := sg[id].Sign(context.Background(), req.Bytes())
		if id == 1 {
			sig1 = s
		}
		w, _ := pr.UnBlind(id, s, &secret)
		ws = append(ws, w)
	}
	pok := pr.ProveKnowledgeOfSignature(&secret, []uint16{1, 2}, ws)
	return psArts{tpk, shares[1], req.Bytes(), sig1, pok.Bytes(), secret}
}

func directCases(quick bool) []harness.Case {
	var cases []harness.Case
	cases = append(cases, blsDirectCases(quick)...)
	for _, be := range backendsLinked {
		be := be
		cases = append(cases, directCase(buildPrefix+be+".ClassifyMsg+OnMsg", quick, func(c *harness.C) []art {
			// the three message kinds of a real run, as sent by party 2
			var arts []art
			seen := map[byte]bool{}
			cryptolib.DKG(be, 3, 2, 1, func(from uint16, msg []byte, bc bool, to uint16) []byte {
				if from == 2 && len(msg) > 0 && !seen[msg[0]] {
					seen[msg[0]] = true
					arts = append(arts, art{fmt.Sprintf("msg-tag-%d", msg[0]), append([]byte(nil), msg...)})
				}
				return msg
			}, 20*time.Second)
			return arts
		}, func(a art, v []byte) {
			for _, initFirst := range []bool{false, true} {
				x := cryptolib.NewKG(be, 1, 1)
				if initFirst {
					x.Init(cryptolib.IDs(3), 2, func([]byte, bool, uint16) {})
				}
				x.ClassifyMsg(v)
				x.OnMsg(v, 2, len(v) > 0 && v[0] != 1)
				x.OnMsg(v, 2, true)
			}
		}))
	}
	// PS
	for _, l := range []int{1, 2} {
		l := l
		cases = append(cases, directCase(fmt.Sprintf(buildPrefix+"ps.TPS.Sign/L%d", l), quick, func(c *harness.C) []art {
			a := psArtefactsCached(l)
			return []art{{"request", a.req}}
		}, func(a art, v []byte) {
			x := psArtefactsCached(l)
			s := &ps.TPS{Logger: world.NopLogger{}, Party: 1, Curve: cryptolib.Curve, MessageLength: l}
			s.Init(cryptolib.IDs(3), 2, nil)
			s.SetShareData(x.share)
			s.Sign(context.Background(), v)
		}))
		cases = append(cases, directCase(fmt.Sprintf(buildPrefix+"ps.TPS.Sign-inner-proof/L%d", l), quick, func(c *harness.C) []art {
			a := psArtefactsCached(l)
			var r ps.RawBlindSignature
			if _, err := asn1Unmarshal(a.req, &r); err != nil {
				return nil
			}
			return []art{{"correct-form-proof", r.CorrectFormProof}}
		}, func(a art, v []byte) {
			x := psArtefactsCached(l)
			var r ps.RawBlindSignature
			if _, err := asn1Unmarshal(x.req, &r); err != nil {
				return
			}
			r.CorrectFormProof = v
			b, _ := asn1Marshal(r)
			s := &ps.TPS{Logger: world.NopLogger{}, Party: 1, Curve: cryptolib.Curve, MessageLength: l}
			s.Init(cryptolib.IDs(3), 2, nil)
			s.SetShareData(x.share)
			s.Sign(context.Background(), b)
		}))
		cases = append(cases, directCase(fmt.Sprintf(buildPrefix+"ps.Verifier.Verify/L%d", l), quick, func(c *harness.C) []art {
			a := psArtefactsCached(l)
			arts := []art{{"proof", a.pok}}
			var r ps.RawSigPok
			if _, err := asn1Unmarshal(a.pok, &r); err == nil && len(r.Data) > 0 {
				arts = append(arts, art{"proof-inner", r.Data[0]})
			}
			return arts
		}, func(a art, v []byte) {
			x := psArtefactsCached(l)
			var vf ps.Verifier
			vf.Init(cryptolib.Curve, l, x.tpk)
			if a.name == "proof-inner" {
				var r ps.RawSigPok
				asn1Unmarshal(x.pok, &r)
				r.Data[0] = v
				b, _ := asn1Marshal(r)
				vf.Verify(b)
				return
			}
			vf.Verify(v)
		}))
		cases = append(cases, directCase(fmt.Sprintf(buildPrefix+"ps.Verifier.Init+Prover.Init/L%d", l), quick, func(c *harness.C) []art {
			a := psArtefactsCached(l)
			return []art{{"threshold-pk", a.tpk}}
		}, func(a art, v []byte) {
			x := psArtefactsCached(l)
			var vf ps.Verifier
			if vf.Init(cryptolib.Curve, l, v) == nil {
				vf.Verify(x.pok)
			}
			pr := &ps.Prover{Logger: world.NopLogger{}}
			if pr.Init(cryptolib.Curve, l, v, cryptolib.IDs(3)) == nil {
				pr.UnBlind(1, x.sig, &x.secret)
			}
		}))
		cases = append(cases, directCase(fmt.Sprintf(buildPrefix+"ps.Prover.UnBlind/L%d", l), quick, func(c *harness.C) []art {
			a := psArtefactsCached(l)
			return []art{{"partial-signature", a.sig}}
		}, func(a art, v []byte) {
			x := psArtefactsCached(l)
			pr := &ps.Prover{Logger: world.NopLogger{}}
			pr.Init(cryptolib.Curve, l, x.tpk, cryptolib.IDs(3))
			pr.UnBlind(1, v, &x.secret)
		}))
		cases = append(cases, directCase(fmt.Sprintf(buildPrefix+"ps.TPS.SetShareData/L%d", l), quick, func(c *harness.C) []art {
			a := psArtefactsCached(l)
			return []art{{"stored-data", a.share}}
		}, func(a art, v []byte) {
			x := psArtefactsCached(l)
			s := &ps.TPS{Logger: world.NopLogger{}, Party: 1, Curve: cryptolib.Curve, MessageLength: l}
			s.Init(cryptolib.IDs(3), 2, nil)
			if s.SetShareData(v) == nil {
				s.Sign(context.Background(), x.req)
				s.ThresholdPK()
			}
		}))
	}
	return cases
}

var psCache = map[int]*psArts{}

func psArtefactsCached(l int) psArts {
	if psCache[l] == nil {
		a := psArtefacts(l)
		psCache[l] = &a
	}
	return *psCache[l]
}

// ---------------------------------------------------------------------------------------------

func gen(c *harness.C) []harness.Case {
	c.Note("rule", "structure-aware enumeration: every message class the library itself emitted in an honest run (synchroniser membership/query/response, MPC share/commit/reveal, acknowledgement) x {every truncation length, extension, byte substitutions, ASN.1 element removal/duplication, topic variants, message-type variants} x source {participant, configured non-participant, unknown, self} x session state {idle, synchronising, protocol phases, finished}, fired at the real dispatcher of a live session (loud: Scheme, silent: message box) which is then driven to its end; plus the same catalogue against the direct entry points of the BLS/PS backends, signing-request and verification functions; distinct_nontrivial = distinct (entry, state, source, class, kind) batches")
	quick := !c.Thorough()
	if r := c.Replay; r != nil {
		var rp sessReplay
		if json.Unmarshal(r, &rp) == nil && rp.Class != "" {
			names := map[uint16]string{2: "participant", outsider: "non-participant", unknown: "unknown", 1: "self"}
			k := sessionCase(rp.Sess, rp.State, fmt.Sprint("step", rp.State), rp.Source, names[rp.Source], rp.Class, rp.Kind, quick)
			k.ID = os.Getenv("VERIF_ONLY")
			return []harness.Case{k}
		}
	}
	var cases []harness.Case
	sessions := []sess{{"loud", "bls"}, {"silent", "bls"}, {"loud", "ps"}}
	if c.Thorough() {
		sessions = append(sessions, sess{"silent", "ps"})
	}
	if !haveBLS {
		sessions = []sess{{"loud", "ps"}}
		if c.Thorough() {
			sessions = append(sessions, sess{"silent", "ps"})
		}
	}
	classes := []string{"t1/s1", "t1/s2", "t1/s3", "t2/m1", "t2/m2", "t2/m3", "t2/ack"}
	srcs := []struct {
		id   uint16
		name string
	}{{2, "participant"}, {outsider, "non-participant"}, {unknown, "unknown"}}
	for _, s := range sessions {
		_, steps := honest(c, s)
		states := []struct {
			step int
			name string
		}{{-1, "idle"}, {steps / 8, "synchronising"}, {steps / 3, "phase-a"}, {steps / 2, "phase-b"}, {steps * 3 / 4, "phase-c"}, {steps + 50, "finished"}}
		for _, stt := range states {
			for _, src := range srcs {
				if quick && src.name == "unknown" && stt.name != "phase-a" {
					continue
				}
				for _, cl := range classes {
					if s.Mode == "silent" && strings.HasPrefix(cl, "t1/") {
						continue // the silent synchroniser exchanges nothing
					}
					for _, k := range kinds {
						cases = append(cases, sessionCase(s, stt.step, stt.name, src.id, src.name, cl, k, quick))
					}
				}
			}
		}
	}
	cases = append(cases, directCases(quick)...)
	return cases
}

func TestCheck(t *testing.T) { harness.Main(t, "C10", gen) }
