package c10

import "encoding/asn1"

func asn1Unmarshal(b []byte, v interface{}) ([]byte, error) { return asn1.Unmarshal(b, v) }
func asn1Marshal(v interface{}) ([]byte, error)             { return asn1.Marshal(v) }
