//go:build psonly

package c10

import (
	tss "github.com/IBM/TSS/types"
	"verif/harness"
)

// PS-only build: mpc/ps compiled against the mathlib version of its own go.mod; mpc/bls not linked
const haveBLS = false
const buildPrefix = "psown-"

var backendsLinked = []string{"ps"}

func blsFactories() (tss.KeyGenFactory, tss.SignerFactory) { panic("BLS not linked") }

func blsDirectCases(quick bool) []harness.Case { return nil }
