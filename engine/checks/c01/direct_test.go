package c01

import (
	"fmt"
	"strings"
	"time"

	"verif/cryptolib"
	"verif/harness"
)

// Direct part: the real bls.TBLS instances wired to one another without the orchestration layer,
// so that the transport's freedom is not narrowed by what reliable broadcast happens to enforce:
// every set of at most `maxDelayed` messages is delayed behind everything else, each
// sender->receiver link staying FIFO (a delayed message holds back its successors on the same
// link). The same oracle as for the full stack applies to the outcome.
func linkDelayCase(n, t, maxDelayed, shard, shards int) harness.Case {
	k := cfg{mode: "direct", n: n, t: t}
	return harness.Case{ID: fmt.Sprintf("direct/bls-n%dt%d/delayed<=%d/shard%d", n, t, maxDelayed, shard), Run: func(c *harness.C) {
		all := cryptolib.AllMsgIDs(n, []byte{1, 2, 3})
		sets := [][]cryptolib.MsgID{nil}
		for i := range all {
			sets = append(sets, []cryptolib.MsgID{all[i]})
		}
		if maxDelayed >= 2 {
			for i := range all {
				for j := i + 1; j < len(all); j++ {
					sets = append(sets, []cryptolib.MsgID{all[i], all[j]})
				}
			}
		}
		for i, set := range sets {
			if i%shards != shard {
				continue
			}
			if c.Expired() {
				c.Cap("time")
				return
			}
			c.Exec(fmt.Sprintf("[direct] n=%d t=%d delayed %v", n, t, set))
			dl := map[cryptolib.MsgID]bool{}
			for _, m := range set {
				dl[m] = true
			}
			var shares map[uint16][]byte
			var errs map[uint16]error
			var trace []string
			rec := c.Bubble(func() {
				shares, errs, trace = cryptolib.DKGAsyncOpt("bls", n, t, 1, dl, 20*time.Second, true)
			})
			if rec != nil && !harness.IsLeakPanic(rec) {
				panic(rec)
			}
			c.Add("executions", 1)
			c.Add("transitions", len(trace))
			o := &outcome{}
			for _, id := range k.members() {
				o.shares = append(o.shares, shares[id])
				o.errs = append(o.errs, errs[id])
				o.returned = append(o.returned, errs[id] == nil || errs[id].Error() != "never returned")
			}
			check(c, k, o, false, i, map[string]interface{}{"direct": true, "n": n, "t": t, "delayed": fmt.Sprint(set)})
			c.Outcome(fmt.Sprintf("direct|%d|%d|%s", n, t, strings.Join(trace, ";")))
		}
	}}
}

func directCases(thorough bool) []harness.Case {
	var out []harness.Case
	type p struct{ n, t, d int }
	plans := []p{{3, 2, 2}, {3, 3, 2}, {4, 3, 1}}
	if thorough {
		plans = append(plans, p{4, 2, 2}, p{4, 3, 2}, p{4, 4, 2}, p{5, 3, 1})
	}
	for _, pl := range plans {
		sh := 4
		for k := 0; k < sh; k++ {
			out = append(out, linkDelayCase(pl.n, pl.t, pl.d, k, sh))
		}
	}
	return out
}
