package c01

import (
	"bytes"
	"crypto/sha256"
	"encoding/json"
	"fmt"
	"strings"
	"testing"
	"time"

	"github.com/IBM/TSS/mpc/bls"
	tss "github.com/IBM/TSS/types"
	"verif/backend/blsb"
	"verif/backend/s"
	"verif/explore"
	"verif/harness"
	"verif/scen"
	"verif/world"
)

const deadline = 20 * time.Second // virtual

type cfg struct {
	mode  string
	n, t  int
	idset []uint16 // identifiers (node = party) if not 1..n
	pick  string   // silent mode: order in which the application's member picker lists the nodes ("", "desc", "rot")
}

func (c cfg) String() string {
	if c.pick != "" {
		return fmt.Sprintf("%s-n%dt%d-ids%v-pick-%s", c.mode, c.n, c.t, c.members(), c.pick)
	}
	if c.idset != nil {
		return fmt.Sprintf("%s-n%dt%d-ids%v", c.mode, c.n, c.t, c.idset)
	}
	return fmt.Sprintf("%s-n%dt%d", c.mode, c.n, c.t)
}

func (c cfg) members() []uint16 {
	if c.idset != nil {
		return c.idset
	}
	return ids(c.n)
}

func ids(n int) []uint16 {
	out := make([]uint16, n)
	for i := range out {
		out[i] = uint16(i + 1)
	}
	return out
}

type outcome struct {
	shares   [][]byte
	errs     []error
	returned []bool
	trace    []string
	timedOut bool
	leak     bool
}

// runDKG executes one DKG of configuration k under recorder r.
func runDKG(c *harness.C, k cfg, r *explore.Recorder) *outcome {
	o := &outcome{}
	rec := c.Bubble(func() {
		members := k.members()
		w := world.New(members)
		st := &scen.Stack{Mode: k.mode, KGF: blsb.KeyGenFactory, SF: blsb.SignerFactory, Threshold: k.t - 1, Membership: scen.Identity(members)}
		if k.pick != "" {
			order := append([]uint16(nil), members...)
			switch k.pick {
			case "desc":
				for i, j := 0, len(order)-1; i < j; i, j = i+1, j-1 {
					order[i], order[j] = order[j], order[i]
				}
			case "rot":
				order = append(order[len(order)-1:], order[:len(order)-1]...)
			}
			st.Pick = func([]byte, int) []uint16 { return order }
		}
		for _, id := range members {
			st.Build(w, id)
		}
		rs := scen.NewResults()
		started := make([]bool, k.n)
		w.Extra = func() []world.Event {
			var ev []world.Event
			for i, id := range members {
				if started[i] {
					continue
				}
				i, id := i, id
				ev = append(ev, world.Event{Label: fmt.Sprintf("start %d", id), Do: func() {
					started[i] = true
					scen.StartKeyGen(w, w.Parties[id], rs, fmt.Sprint(id), k.n, k.t, deadline)
				}})
			}
			return ev
		}
		o.timedOut = w.Loop(r, deadline+time.Second)
		for _, id := range members {
			res := rs.Get(fmt.Sprint(id))
			if res == nil {
				o.shares = append(o.shares, nil)
				o.errs = append(o.errs, fmt.Errorf("never started"))
				o.returned = append(o.returned, false)
				continue
			}
			o.shares = append(o.shares, res.Data)
			o.errs = append(o.errs, res.Err)
			o.returned = append(o.returned, res.Returned)
		}
		o.trace = w.Trace
		w.Stop()
	})
	if rec != nil {
		if harness.IsLeakPanic(rec) {
			o.leak = true
		} else {
			panic(rec)
		}
	}
	return o
}

var digests = func() [][]byte {
	d32 := sha256.Sum256([]byte("verif"))
	z := sha256.Sum256([]byte("zero"))
	z[0] = 0
	return [][]byte{{}, {7}, d32[:], z[:], bytes.Repeat([]byte{0xab}, 64), bytes.Repeat([]byte{0x5c}, 1024)}
}()

// subsets of {0..n-1} of size >= min, as index lists.
func subsets(n, min int) [][]int {
	var out [][]int
	for m := 1; m < 1<<n; m++ {
		var s []int
		for i := 0; i < n; i++ {
			if m>>i&1 == 1 {
				s = append(s, i)
			}
		}
		if len(s) >= min {
			out = append(out, s)
		}
	}
	return out
}

// check applies the oracle; full = all subsets x all digests, otherwise one rotating pair.
func check(c *harness.C, k cfg, o *outcome, full bool, rot int, replay interface{}) bool {
	ok := true
	bad := func(clause, sig, detail string) {
		ok = false
		c.Violation(clause, sig, detail, replay)
	}
	for i := range o.shares {
		if !o.returned[i] {
			bad("keygen-returns", "keygen-never-returned", fmt.Sprintf("%v: party %d never returned", k, k.members()[i]))
			return false
		}
		if o.errs[i] != nil {
			bad("keygen-succeeds", "keygen-error", fmt.Sprintf("%v: party %d: %v", k, k.members()[i], o.errs[i]))
			return false
		}
	}
	members := k.members()
	signers := make([]*bls.TBLS, k.n)
	var pk0 []byte
	for i, id := range members {
		s := &bls.TBLS{Logger: world.NopLogger{}, Party: id}
		s.Init(members, k.t, nil)
		if err := s.SetShareData(o.shares[i]); err != nil {
			bad("share-usable", "share-unusable", fmt.Sprintf("%v: party %d: %v", k, id, err))
			return false
		}
		pk, err := s.ThresholdPK()
		if err != nil {
			bad("share-usable", "pk-error", fmt.Sprintf("%v: party %d: %v", k, id, err))
			return false
		}
		if i == 0 {
			pk0 = pk
		} else if !bytes.Equal(pk, pk0) {
			bad("public-material-identical", "public-material-differs", fmt.Sprintf("%v: party %d reports different public material than party 1", k, id))
			return false
		}
		signers[i] = s
	}
	var v bls.Verifier
	if err := v.Init(pk0); err != nil {
		bad("public-material-usable", "verifier-init", fmt.Sprintf("%v: %v", k, err))
		return false
	}
	subs := subsets(k.n, k.t)
	type pair struct {
		s []int
		d []byte
	}
	var pairs []pair
	if full {
		for _, s := range subs {
			for _, d := range digests {
				pairs = append(pairs, pair{s, d})
			}
		}
	} else {
		pairs = []pair{{subs[rot%len(subs)], digests[rot%len(digests)]}}
	}
	for _, p := range pairs {
		var sigs [][]byte
		var who []uint16
		for _, i := range p.s {
			sg, err := signers[i].Sign(nil, p.d)
			if err != nil {
				bad("partial-sign", "partial-sign-error", fmt.Sprintf("%v: %v", k, err))
				return false
			}
			sigs = append(sigs, sg)
			who = append(who, members[i])
		}
		agg, err := v.AggregateSignatures(sigs, who)
		if err != nil {
			bad("aggregate", "aggregate-error", fmt.Sprintf("%v subset %v: %v", k, who, err))
			return false
		}
		if err := v.Verify(p.d, agg); err != nil {
			bad("threshold-signature-verifies", "subset-signature-rejected", fmt.Sprintf("%v subset %v digest len %d: %v", k, who, len(p.d), err))
			return false
		}
		c.Add("verifications", 1)
	}
	return ok
}

type replayInfo struct {
	Cfg     string `json:"cfg"`
	Choices []int  `json:"choices"`
}

func dfsCase(k cfg, bound int, pos, alt int, isRoot bool) harness.Case {
	id := fmt.Sprintf("dkg/%v/d%d/root", k, bound)
	if !isRoot {
		id = fmt.Sprintf("dkg/%v/d%d/task/%d:%d", k, bound, pos, alt)
	}
	return harness.Case{ID: id, Run: func(c *harness.C) {
		rot := pos*7 + alt
		e := &explore.Explorer{
			Run:  nil,
			Stop: c.Expired,
		}
		var last *outcome
		e.Run = func(r *explore.Recorder) {
			c.Exec(fmt.Sprintf("%v %v", k, r.Prefix))
			last = runDKG(c, k, r)
		}
		e.Visit = func(r *explore.Recorder) {
			c.Add("executions", 1)
			c.Add("transitions", len(last.trace))
			full := isRoot && len(r.Prefix) == 0
			rot++
			key := k.String() + "|" + strings.Join(last.trace, ";")
			nontrivial := r.Deviations() > 0 || full
			if c.Outcome(key) && nontrivial {
				c.Add("distinct_traces", 1)
			}
			// per-party delivery histories = states
			hist := map[string][]string{}
			for _, s := range last.trace {
				if i := strings.Index(s, ">"); i > 0 && !strings.HasPrefix(s, "late") {
					to := strings.SplitN(s[i+1:], " ", 2)[0]
					hist[to] = append(hist[to], s)
					c.State(k.String() + "|" + to + "|" + strings.Join(hist[to], ";"))
				}
			}
			rp := replayInfo{Cfg: k.String(), Choices: explore.Trim(r.Choices())}
			if check(c, k, last, full, rot, rp) {
				c.Sample("schedule", map[string]interface{}{"cfg": k.String(), "choices": rp.Choices, "steps": len(last.trace), "tail": tail(last.trace, 6)})
			}
			if last.leak {
				c.Add("leaked_goroutine_executions", 1)
			}
		}
		if isRoot {
			e.Explore(nil, nil, 0)
			return
		}
		// find the parent's labels by running the root once (cheap) so divergence is detectable
		root := &explore.Recorder{}
		runDKG(c, k, root)
		e.Explore(explore.TaskPrefix(pos, alt), root.Labels(), bound-1)
		if e.NondetPrefixes > 0 {
			c.Add("nondeterministic_prefixes", e.NondetPrefixes)
			c.Cap("nondeterministic-prefix")
		}
	}}
}

func tail(s []string, n int) []string {
	if len(s) > n {
		return s[len(s)-n:]
	}
	return s
}

// ---------------------------------------------------------------------------------------------
// (d) orchestrated signing among an authorised set (backend S)

type scfg struct {
	Mode    string   `json:"mode"`
	N       int      `json:"n"`
	Signers []uint16 `json:"signers"`
}

func (k scfg) String() string { return fmt.Sprintf("%s-n%d-signers%v", k.Mode, k.N, k.Signers) }

type signOut struct {
	res   map[uint16]*scen.Result
	trace []string
}

func runSign(c *harness.C, k scfg, digest []byte, r *explore.Recorder) *signOut {
	o := &signOut{res: map[uint16]*scen.Result{}}
	rec := c.Bubble(func() {
		members := ids(k.N)
		w := world.New(members)
		lg := s.NewLog()
		po := func(n uint16) uint16 { return n }
		st := &scen.Stack{Mode: k.Mode, Threshold: len(k.Signers) - 1, Membership: scen.Identity(members),
			KGF: func(id uint16) tss.KeyGenerator { return s.New(id, po, lg) },
			SF:  func(id uint16) tss.Signer { return s.New(id, po, lg) }}
		st.Pick = func([]byte, int) []uint16 { return k.Signers }
		for _, id := range members {
			st.Build(w, id)
		}
		rs := scen.NewResults()
		started := map[uint16]bool{}
		w.Extra = func() []world.Event {
			var ev []world.Event
			for _, id := range k.Signers {
				if started[id] {
					continue
				}
				id := id
				ev = append(ev, world.Event{Label: fmt.Sprintf("start %d", id), Do: func() {
					started[id] = true
					b, _ := json.Marshal(s.Stored{Parties: members, Thr: len(k.Signers) - 1, Key: s.DKGKey(members), Self: id})
					w.Parties[id].Mpc.SetStoredData(b)
					scen.StartSign(w, w.Parties[id], rs, fmt.Sprint(id), digest, "c01-sign-topic", deadline)
				}})
			}
			return ev
		}
		w.Loop(r, deadline+time.Second)
		for _, id := range k.Signers {
			o.res[id] = rs.Get(fmt.Sprint(id))
		}
		o.trace = w.Trace
		w.Stop()
	})
	if rec != nil && !harness.IsLeakPanic(rec) {
		panic(rec)
	}
	return o
}

type signReplay struct {
	Cfg     scfg  `json:"sign_cfg"`
	Digest  int   `json:"digest"`
	Choices []int `json:"choices"`
}

func signCase(k scfg, bound int) harness.Case {
	return harness.Case{ID: fmt.Sprintf("sign/%v/d%d", k, bound), Run: func(c *harness.C) {
		for di, dg := range digests {
			if len(dg) > 64 {
				continue
			}
			di, dg := di, dg
			var last *signOut
			e := &explore.Explorer{Stop: c.Expired}
			e.Run = func(r *explore.Recorder) {
				c.Exec(fmt.Sprintf("[sign] %v digest#%d %v", k, di, r.Prefix))
				last = runSign(c, k, dg, r)
			}
			e.Visit = func(r *explore.Recorder) {
				c.Add("executions", 1)
				c.Add("transitions", len(last.trace))
				rp := signReplay{k, di, explore.Trim(r.Choices())}
				members := ids(k.N)
				var first []byte
				for _, id := range k.Signers {
					res := last.res[id]
					if res == nil || !res.Returned {
						c.Violation("sign-returns", "sign-never-returned:"+k.Mode, fmt.Sprintf("%v digest#%d: signer %d never returned", k, di, id), rp)
						return
					}
					if res.Err != nil {
						c.Violation("sign-succeeds", "sign-error:"+k.Mode, fmt.Sprintf("%v digest#%d (len %d): signer %d: %v", k, di, len(dg), id, res.Err), rp)
						return
					}
					if !s.VerifySig(s.DKGKey(members), dg, k.Signers, res.Data) {
						c.Violation("signature-verifies", "sign-wrong-signature:"+k.Mode, fmt.Sprintf("%v digest#%d: signer %d returned a signature that does not verify for the requested digest", k, di, id), rp)
						return
					}
					if first == nil {
						first = res.Data
					} else if !bytes.Equal(first, res.Data) {
						c.Violation("signature-verifies", "sign-differs:"+k.Mode, fmt.Sprintf("%v digest#%d: participants returned different signatures", k, di), rp)
						return
					}
				}
				if c.Outcome("sign|"+k.String()+"|"+fmt.Sprint(di)+"|"+strings.Join(last.trace, ";")) && r.Deviations() > 0 {
					c.Sample("sign-schedule", map[string]interface{}{"cfg": k.String(), "digest_len": len(dg), "choices": rp.Choices, "steps": len(last.trace)})
				}
			}
			b := bound
			if di != 2 {
				b = 0 // schedules are explored for one digest, the others on the default schedule
			}
			e.Explore(nil, nil, b)
		}
	}}
}

func signerSets(n, size int) [][]uint16 {
	var out [][]uint16
	for m := 0; m < 1<<n; m++ {
		var sset []uint16
		for i := 0; i < n; i++ {
			if m>>i&1 == 1 {
				sset = append(sset, uint16(i+1))
			}
		}
		if len(sset) == size {
			out = append(out, sset)
		}
	}
	return out
}

func gen(c *harness.C) []harness.Case {
	var cases []harness.Case
	for _, m := range []string{"loud", "silent"} {
		for _, ns := range [][2]int{{3, 2}, {3, 3}, {4, 3}, {4, 2}} {
			if !c.Thorough() && ns[0] == 4 && ns[1] == 2 && m == "silent" {
				continue
			}
			for _, set := range signerSets(ns[0], ns[1]) {
				b := 0
				if ns[0] == 3 || c.Thorough() {
					b = 1
				}
				cases = append(cases, signCase(scfg{m, ns[0], set}, b))
			}
		}
	}
	type plan struct {
		k     cfg
		bound int
	}
	var plans []plan
	if c.Thorough() {
		for n := 2; n <= 5; n++ {
			for t := 2; t <= n; t++ {
				for _, m := range []string{"loud", "silent"} {
					b := 1
					if n == 3 && t == 2 {
						b = 2
					}
					if n == 2 {
						b = 3
					}
					plans = append(plans, plan{cfg{mode: m, n: n, t: t}, b})
				}
			}
		}
		plans = append(plans, plan{cfg{mode: "loud", n: 6, t: 4}, 0}, plan{cfg{mode: "silent", n: 6, t: 5}, 0}, plan{cfg{mode: "loud", n: 6, t: 6}, 0}, plan{cfg{mode: "loud", n: 7, t: 4}, 0})
	} else {
		for _, m := range []string{"loud", "silent"} {
			plans = append(plans, plan{cfg{mode: m, n: 3, t: 2}, 2})
		}
		plans = append(plans, plan{cfg{mode: "loud", n: 2, t: 2}, 3}, plan{cfg{mode: "silent", n: 2, t: 2}, 3}, plan{cfg{mode: "loud", n: 3, t: 3}, 1}, plan{cfg{mode: "silent", n: 3, t: 3}, 1})
		for _, k := range []cfg{{mode: "loud", n: 4, t: 3}, {mode: "silent", n: 4, t: 3}, {mode: "loud", n: 4, t: 2}, {mode: "loud", n: 5, t: 3}, {mode: "loud", n: 5, t: 4}, {mode: "silent", n: 6, t: 5}} {
			plans = append(plans, plan{k, 0})
		}
	}
	// silent mode: the application's member picker lists the nodes in another order than ascending
	for _, pk := range []string{"desc", "rot"} {
		plans = append(plans, plan{cfg{mode: "silent", n: 3, t: 2, pick: pk}, 1}, plan{cfg{mode: "silent", n: 4, t: 3, pick: pk, idset: []uint16{2, 5, 7, 9}}, 0})
	}
	// identifiers that are not 1..n (node id = party id): sparse, shifted, unsorted gaps
	for _, m := range []string{"loud", "silent"} {
		plans = append(plans, plan{cfg{mode: m, n: 3, t: 2, idset: []uint16{2, 5, 7}}, 1}, plan{cfg{mode: m, n: 3, t: 3, idset: []uint16{4, 9, 10}}, 0})
		if m == "loud" || c.Thorough() {
			plans = append(plans, plan{cfg{mode: m, n: 4, t: 3, idset: []uint16{2, 3, 4, 5}}, 0}, plan{cfg{mode: m, n: 4, t: 2, idset: []uint16{10, 20, 30, 40}}, 0})
		}
	}
	// identifier 0 and the top of the range are identifiers like any other
	for _, m := range []string{"loud", "silent"} {
		plans = append(plans, plan{cfg{mode: m, n: 3, t: 2, idset: []uint16{0, 1, 2}}, 0}, plan{cfg{mode: m, n: 3, t: 2, idset: []uint16{0, 256, 65535}}, 0})
	}
	cases = append(cases, directCases(c.Thorough())...)
	for _, p := range plans {
		cases = append(cases, dfsCase(p.k, p.bound, 0, 0, true))
		if p.bound > 0 {
			root := &explore.Recorder{}
			runDKG(c, p.k, root)
			for _, t := range explore.RootTasks(root) {
				cases = append(cases, dfsCase(p.k, p.bound, t[0], t[1], false))
			}
		}
	}
	return cases
}

func TestCheck(t *testing.T) { harness.Main(t, "C01", gen) }
