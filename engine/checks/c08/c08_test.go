package c08

import (
	"bytes"
	"context"
	"encoding/json"
	"fmt"
	"strings"
	"testing"
	"time"

	"github.com/IBM/TSS/mpc/ps"
	"verif/backend/psb"
	"verif/cryptolib"
	"verif/explore"
	"verif/harness"
	"verif/scen"
	"verif/world"
)

var entries = map[string][]byte{
	"empty": {}, "one": {7}, "h32": bytes.Repeat([]byte{0xa5}, 32), "kb": bytes.Repeat([]byte{0x3c}, 1024), "zero": {0},
}

// vectors of a given length: all entries equal, all distinct-ish, and mixes from the alphabet
func vectors(l int, thorough bool) [][]string {
	names := []string{"empty", "one", "h32", "kb", "zero"}
	var out [][]string
	for _, n := range names {
		v := make([]string, l)
		for i := range v {
			v[i] = n
		}
		out = append(out, v) // all entries equal
	}
	if l > 1 {
		for s := 0; s < len(names); s++ {
			v := make([]string, l)
			for i := range v {
				v[i] = names[(s+i)%len(names)]
			}
			out = append(out, v)
		}
	}
	if thorough && l == 2 {
		for _, a := range names {
			for _, b := range names {
				out = append(out, []string{a, b})
			}
		}
	}
	return out
}

func msgOf(v []string) [][]byte {
	out := make([][]byte, len(v))
	for i, n := range v {
		out[i] = entries[n]
	}
	return out
}

type cell struct {
	n, t, l int
	ids     []uint16 // party identifiers if not 1..n
}

func (k cell) String() string {
	if k.ids != nil {
		return fmt.Sprintf("n%dt%dL%d-ids%v", k.n, k.t, k.l, k.ids)
	}
	return fmt.Sprintf("n%dt%dL%d", k.n, k.t, k.l)
}

// complete runs blind / sign / unblind / prove / verify for every vector and subset on shares.
func complete(c *harness.C, what string, k cell, shares map[uint16][]byte, vecs [][]string, rp interface{}) bool {
	bad := func(clause, sig, detail string) bool {
		c.Violation(clause, sig, what+" "+k.String()+": "+detail, rp)
		return false
	}
	var res bool
	func() {
		defer func() {
			if r := recover(); r != nil {
				res = bad("no-panic", "c08-panic", fmt.Sprint("panic: ", r))
			}
		}()
		signers, err := cryptolib.PSSigners(k.n, k.t, k.l, shares)
		if err != nil {
			res = bad("share-usable", "c08-share-unusable", err.Error())
			return
		}
		// the orchestrator loads the share into a fresh signer BEFORE it initialises it, and once
		// more afterwards (threshold.Scheme: SetShareData, Init, SetShareData). That order must work
		// and produce a signer as good as the one the Init-first order produces.
		alt := map[uint16]*ps.TPS{}
		for _, id := range cryptolib.IDs(k.n) {
			sg := &ps.TPS{Logger: world.NopLogger{}, Party: id, Curve: cryptolib.Curve, MessageLength: k.l}
			if err := sg.SetShareData(shares[id]); err != nil {
				res = bad("share-usable", "c08-share-unusable:load-before-init", fmt.Sprintf("party %d: loading the stored share into a signer that has not been initialised yet: %v", id, err))
				return
			}
			sg.Init(cryptolib.IDs(k.n), k.t, nil)
			if err := sg.SetShareData(shares[id]); err != nil {
				res = bad("share-usable", "c08-share-unusable:load-init-load", fmt.Sprintf("party %d: %v", id, err))
				return
			}
			alt[id] = sg
		}
		var pk0 []byte
		for _, id := range cryptolib.IDs(k.n) {
			pk, err := signers[id].ThresholdPK()
			if err != nil {
				res = bad("public-material", "c08-pk-error", err.Error())
				return
			}
			if pk0 == nil {
				pk0 = pk
			} else if !bytes.Equal(pk, pk0) {
				res = bad("identical-public-material", "c08-public-material-differs", fmt.Sprintf("party %d differs", id))
				return
			}
		}
		pr, v := &ps.Prover{}, &ps.Verifier{}
		pr.Logger = world.NopLogger{}
		if err := pr.Init(cryptolib.Curve, k.l, pk0, cryptolib.IDs(k.n)); err != nil {
			res = bad("prover-init", "c08-prover-init", err.Error())
			return
		}
		if err := v.Init(cryptolib.Curve, k.l, pk0); err != nil {
			res = bad("verifier-init", "c08-verifier-init", err.Error())
			return
		}
		// the same Prover and Verifier objects follow another committee's key and come back (a
		// committee that re-keys): every initialisation starts from a clean slate
		{
			oshares, oerrs := cryptolib.DKG("ps", 2, 2, k.l, nil, 20*time.Second)
			if oerrs[1] == nil && oerrs[2] == nil {
				if osg, err := cryptolib.PSSigners(2, 2, k.l, oshares); err == nil {
					opk, _ := osg[1].ThresholdPK()
					if err := pr.Init(cryptolib.Curve, k.l, opk, cryptolib.IDs(2)); err != nil {
						res = bad("prover-init", "c08-prover-init:re-initialised", fmt.Sprintf("second initialisation of the prover object (another committee's key): %v", err))
						return
					}
					if err := v.Init(cryptolib.Curve, k.l, opk); err != nil {
						res = bad("verifier-init", "c08-verifier-init:re-initialised", fmt.Sprintf("second initialisation of the verifier object (another committee's key): %v", err))
						return
					}
					if err := pr.Init(cryptolib.Curve, k.l, pk0, cryptolib.IDs(k.n)); err != nil {
						res = bad("prover-init", "c08-prover-init:re-initialised", fmt.Sprintf("third initialisation of the prover object (back to the first key): %v", err))
						return
					}
					if err := v.Init(cryptolib.Curve, k.l, pk0); err != nil {
						res = bad("verifier-init", "c08-verifier-init:re-initialised", fmt.Sprintf("third initialisation of the verifier object (back to the first key): %v", err))
						return
					}
				}
			}
		}
		for _, vec := range vecs {
			req, secret := pr.Blind(msgOf(vec))
			wit := map[uint16]ps.SignatureWitness{}
			for _, id := range cryptolib.IDs(k.n) {
				sig, err := signers[id].Sign(context.Background(), req.Bytes())
				if err != nil {
					res = bad("signer-signs", "c08-sign-fails", fmt.Sprintf("vector %v signer %d: %v", vec, id, err))
					return
				}
				w, err := pr.UnBlind(id, sig, &secret)
				if err != nil {
					res = bad("witness-valid", "c08-unblind-fails", fmt.Sprintf("vector %v signer %d: %v", vec, id, err))
					return
				}
				wit[id] = w
				if sig2, err := alt[id].Sign(context.Background(), req.Bytes()); err != nil {
					res = bad("signer-signs", "c08-sign-fails:load-init-load", fmt.Sprintf("vector %v signer %d (share loaded before and after Init): %v", vec, id, err))
					return
				} else if _, err := pr.UnBlind(id, sig2, &secret); err != nil {
					res = bad("witness-valid", "c08-unblind-fails:load-init-load", fmt.Sprintf("vector %v signer %d (share loaded before and after Init): %v", vec, id, err))
					return
				}
			}
			for _, sub := range cryptolib.Subsets(cryptolib.IDs(k.n), k.t, k.n) {
				var ws []ps.SignatureWitness
				for _, id := range sub {
					ws = append(ws, wit[id])
				}
				pok := pr.ProveKnowledgeOfSignature(&secret, sub, ws)
				c.Add("evaluations", 1)
				if err := v.Verify(pok.Bytes()); err != nil {
					res = bad("proof-verifies", "c08-proof-rejected", fmt.Sprintf("vector %v subset %v: %v", vec, sub, err))
					return
				}
				c.Outcome(fmt.Sprintf("%s|%v|%v|%v", what, k, vec, sub))
				// the same set listed in another order (witnesses permuted consistently)
				if len(sub) >= 2 {
					for _, perm := range [][]int{reverseIdx(len(sub)), rotateIdx(len(sub))} {
						var s2 []uint16
						var w2 []ps.SignatureWitness
						for _, i := range perm {
							s2 = append(s2, sub[i])
							w2 = append(w2, ws[i])
						}
						pok2 := pr.ProveKnowledgeOfSignature(&secret, s2, w2)
						c.Add("evaluations", 1)
						if err := v.Verify(pok2.Bytes()); err != nil {
							res = bad("proof-verifies", "c08-proof-rejected:signer-order", fmt.Sprintf("vector %v signers listed as %v: %v", vec, s2, err))
							return
						}
					}
				}
			}
		}
		res = true
	}()
	return res
}

func reverseIdx(n int) []int {
	out := make([]int, n)
	for i := range out {
		out[i] = n - 1 - i
	}
	return out
}

func rotateIdx(n int) []int {
	out := make([]int, n)
	for i := range out {
		out[i] = (i + 1) % n
	}
	return out
}

func syncCase(k cell, thorough bool) harness.Case {
	return harness.Case{ID: "sync/" + k.String(), Run: func(c *harness.C) {
		c.Exec("[sync] " + k.String())
		cryptolib.Parties = k.ids
		defer func() { cryptolib.Parties = nil }()
		reps := 1
		if k.n >= 5 {
			reps = 6 // fresh polynomials: the sums of n shares differ in size from run to run
		}
		var shares map[uint16][]byte
		var errs map[uint16]error
		for i := 0; i < reps; i++ {
			shares, errs = cryptolib.DKG("ps", k.n, k.t, k.l, nil, 30*time.Second)
			c.Add("executions", 1)
			bad := false
			for _, e := range errs {
				if e != nil {
					bad = true
				}
			}
			if bad {
				break
			}
		}
		for id, e := range errs {
			if e != nil {
				c.Violation("dkg-completes", "c08-dkg-fails", fmt.Sprintf("%v: party %d: %v", k, id, e), map[string]interface{}{"cell": k.String()})
				return
			}
		}
		if complete(c, "sync", k, shares, vectors(k.l, thorough), map[string]interface{}{"cell": k.String()}) {
			c.Sample("c08", map[string]interface{}{"cell": k.String(), "vectors": len(vectors(k.l, thorough))})
		}
	}}
}

// full stack DKG (loud) for n=3,t=2,L=1 under delivery schedules
func runStack(c *harness.C, r world.Chooser) (map[uint16][]byte, map[uint16]error, []string) {
	shares := map[uint16][]byte{}
	errs := map[uint16]error{}
	var trace []string
	rec := c.Bubble(func() {
		members := cryptolib.IDs(3)
		w := world.New(members)
		st := &scen.Stack{Mode: "loud", KGF: psb.KeyGenFactory(1), SF: psb.SignerFactory(1), Threshold: 1, Membership: scen.Identity(members)}
		for _, id := range members {
			st.Build(w, id)
		}
		rs := scen.NewResults()
		for _, id := range members {
			scen.StartKeyGen(w, w.Parties[id], rs, fmt.Sprint(id), 3, 2, 20*time.Second)
		}
		w.Loop(r, 21*time.Second)
		for _, id := range members {
			res := rs.Get(fmt.Sprint(id))
			shares[id], errs[id] = res.Data, res.Err
			if !res.Returned {
				errs[id] = fmt.Errorf("never returned")
			}
		}
		trace = w.Trace
		w.Stop()
	})
	if rec != nil && !harness.IsLeakPanic(rec) {
		panic(rec)
	}
	return shares, errs, trace
}

func stackCase(pos, alt int, isRoot bool) harness.Case {
	id := "stack/n3t2L1/root"
	if !isRoot {
		id = fmt.Sprintf("stack/n3t2L1/task/%d:%d", pos, alt)
	}
	return harness.Case{ID: id, Run: func(c *harness.C) {
		k := cell{n: 3, t: 2, l: 1}
		var shares map[uint16][]byte
		var errs map[uint16]error
		var trace []string
		e := &explore.Explorer{Stop: c.Expired}
		e.Run = func(r *explore.Recorder) {
			c.Exec(fmt.Sprintf("[stack] %v", r.Prefix))
			shares, errs, trace = runStack(c, r)
		}
		e.Visit = func(r *explore.Recorder) {
			c.Add("executions", 1)
			c.Add("transitions", len(trace))
			rp := map[string]interface{}{"choices": explore.Trim(r.Choices())}
			for id, err := range errs {
				if err != nil {
					c.Violation("dkg-completes", "c08-stack-dkg-fails", fmt.Sprintf("schedule %v party %d: %v", explore.Trim(r.Choices()), id, err), rp)
					return
				}
			}
			vecs := [][]string{{"h32"}}
			if isRoot {
				vecs = vectors(1, true)
			}
			complete(c, "stack", k, shares, vecs, rp)
			c.State("stack|" + strings.Join(trace, ";"))
		}
		if c.Replay != nil {
			return
		}
		if isRoot {
			e.Explore(nil, nil, 0)
			return
		}
		e.Explore(explore.TaskPrefix(pos, alt), nil, 0)
	}}
}

// asyncCase: DKG among real ps.TPS instances wired directly over a network that does not preserve
// order: every set of at most `maxDelayed` maximally delayed messages (shard k of shards).
func asyncCase(k cell, maxDelayed, shard, shards int) harness.Case {
	return harness.Case{ID: fmt.Sprintf("async/%v/delayed<=%d/shard%d", k, maxDelayed, shard), Run: func(c *harness.C) {
		all := cryptolib.AllMsgIDs(k.n, []byte{1, 2, 3})
		var sets [][]cryptolib.MsgID
		sets = append(sets, nil)
		for i := range all {
			sets = append(sets, []cryptolib.MsgID{all[i]})
		}
		if maxDelayed >= 2 {
			for i := range all {
				for j := i + 1; j < len(all); j++ {
					sets = append(sets, []cryptolib.MsgID{all[i], all[j]})
				}
			}
		}
		if c.Replay != nil {
			var rp struct {
				Delayed []cryptolib.MsgID `json:"delayed"`
			}
			if json.Unmarshal(c.Replay, &rp) != nil {
				return
			}
			sets = [][]cryptolib.MsgID{rp.Delayed}
			shard, shards = 0, 1
		}
		// each set is run twice: as a set of delayed messages, and (single messages, and pairs made
		// of a duplicated and a delayed message) with its first message delivered twice
		type variant struct {
			set []cryptolib.MsgID
			dup bool
		}
		var vars []variant
		for _, set := range sets {
			vars = append(vars, variant{set, false})
			if len(set) >= 1 && c.Replay == nil {
				vars = append(vars, variant{set, true})
			}
		}
		if c.Replay != nil {
			var rp struct {
				Dup bool `json:"first_duplicated"`
			}
			if json.Unmarshal(c.Replay, &rp) == nil && rp.Dup {
				vars[0].dup = true
			}
		}
		for i, vr := range vars {
			set := vr.set
			if i%shards != shard {
				continue
			}
			if c.Expired() {
				c.Cap("time")
				return
			}
			c.Exec(fmt.Sprintf("[async] %v delayed %v first duplicated %v", k, set, vr.dup))
			dl := map[cryptolib.MsgID]bool{}
			for j, m := range set {
				if vr.dup && j == 0 {
					continue
				}
				dl[m] = true
			}
			cryptolib.AsyncDup = nil
			if vr.dup {
				cryptolib.AsyncDup = map[cryptolib.MsgID]bool{set[0]: true}
			}
			var shares map[uint16][]byte
			var errs map[uint16]error
			var trace []string
			rec := c.Bubble(func() {
				shares, errs, trace = cryptolib.DKGAsync("ps", k.n, k.t, k.l, dl, 20*time.Second)
			})
			if rec != nil && !harness.IsLeakPanic(rec) {
				panic(rec)
			}
			c.Add("executions", 1)
			c.Add("transitions", len(trace))
			c.State("async|" + k.String() + "|" + strings.Join(trace, ";"))
			cryptolib.AsyncDup = nil
			rp := map[string]interface{}{"cell": k.String(), "delayed": set, "first_duplicated": vr.dup}
			failed := false
			for _, id := range cryptolib.IDs(k.n) {
				if err := errs[id]; err != nil {
					c.Violation("dkg-completes", "c08-async-dkg-fails", fmt.Sprintf("%v, messages %v overtaken by everything else: party %d: %v", k, set, id, err), rp)
					failed = true
					break
				}
			}
			if failed {
				continue
			}
			vecs := [][]string{{"h32"}}
			if len(set) == 0 {
				vecs = vectors(k.l, false)
			}
			for len(vecs[0]) < k.l {
				vecs[0] = append(vecs[0], "h32")
			}
			if complete(c, "async", k, shares, vecs, rp) && c.Outcome("async|"+k.String()+"|"+strings.Join(trace, ";")) && len(set) > 0 {
				c.Sample("c08-async", map[string]interface{}{"cell": k.String(), "delayed": fmt.Sprint(set), "deliveries": len(trace)})
			}
		}
	}}
}

func gen(c *harness.C) []harness.Case {
	c.Note("rule", "for every (n,t) and message length L: DKG among real ps.TPS instances, then for every message vector of the alphabet (empty, 1 byte, 32 bytes, 1 kB, all entries equal, rotations) every signer signs the blinded request, every partial signature unblinds under the signer's key, and for every subset of size >= t the proof of knowledge verifies; plus full-stack DKG for (3,2,L=1) under the default and every 1-deviation schedule; distinct_nontrivial = distinct (route, cell, vector, subset)")
	var cells []cell
	if c.Thorough() {
		for n := 2; n <= 4; n++ {
			for t := 2; t <= n; t++ {
				for l := 1; l <= 6; l++ {
					if n == 4 && l > 4 {
						continue
					}
					cells = append(cells, cell{n: n, t: t, l: l})
				}
			}
		}
		cells = append(cells, cell{n: 5, t: 3, l: 1}, cell{n: 5, t: 3, l: 2}, cell{n: 6, t: 4, l: 1}, cell{n: 7, t: 4, l: 1}, cell{n: 8, t: 2, l: 1}, cell{n: 8, t: 5, l: 1}, cell{n: 9, t: 5, l: 1})
		cells = append(cells, cell{n: 7, t: 7, l: 1}, cell{n: 8, t: 7, l: 1}, cell{n: 8, t: 8, l: 1}, cell{n: 9, t: 9, l: 1}, cell{n: 10, t: 10, l: 1}, cell{n: 10, t: 8, l: 2})
		cells = append(cells, cell{n: 3, t: 2, l: 1, ids: []uint16{1, 2, 4}}, cell{n: 3, t: 2, l: 2, ids: []uint16{2, 5, 9}}, cell{n: 4, t: 3, l: 1, ids: []uint16{10, 20, 30, 40}}, cell{n: 3, t: 3, l: 1, ids: []uint16{0, 256, 65535}}, cell{n: 5, t: 3, l: 1, ids: []uint16{3, 1000, 1001, 40000, 65535}})
	} else {
		for _, nt := range [][2]int{{2, 2}, {3, 2}, {3, 3}} {
			for l := 1; l <= 3; l++ {
				cells = append(cells, cell{n: nt[0], t: nt[1], l: l})
			}
		}
		cells = append(cells, cell{n: 4, t: 3, l: 1}, cell{n: 5, t: 3, l: 1}, cell{n: 6, t: 4, l: 1}, cell{n: 8, t: 2, l: 1}, cell{n: 8, t: 5, l: 1})
		// party identifiers that are not their positions
		cells = append(cells, cell{n: 3, t: 2, l: 1, ids: []uint16{1, 2, 4}}, cell{n: 3, t: 2, l: 2, ids: []uint16{2, 5, 9}}, cell{n: 4, t: 3, l: 1, ids: []uint16{10, 20, 30, 40}}, cell{n: 3, t: 3, l: 1, ids: []uint16{0, 256, 65535}})
		// high thresholds: sums of many share terms (representation limits of unreduced scalars)
		cells = append(cells, cell{n: 7, t: 7, l: 1}, cell{n: 8, t: 7, l: 1}, cell{n: 8, t: 8, l: 1}, cell{n: 9, t: 9, l: 1})
	}
	var cases []harness.Case
	cases = append(cases, sameRequestCase(1), sameRequestCase(2), sameRequestCase(3))
	for _, k := range cells {
		cases = append(cases, syncCase(k, c.Thorough()))
	}
	// backend-level DKG over a network that reorders (the orchestrator is not involved)
	const ashards = 8
	acells := []struct {
		k cell
		d int
	}{{cell{n: 3, t: 2, l: 1}, 2}, {cell{n: 3, t: 3, l: 2}, 1}}
	if c.Thorough() {
		acells = append(acells, struct {
			k cell
			d int
		}{cell{n: 4, t: 3, l: 1}, 2}, struct {
			k cell
			d int
		}{cell{n: 3, t: 3, l: 2}, 2}, struct {
			k cell
			d int
		}{cell{n: 4, t: 2, l: 1}, 1})
	}
	for _, a := range acells {
		for sh := 0; sh < ashards; sh++ {
			cases = append(cases, asyncCase(a.k, a.d, sh, ashards))
		}
	}
	cases = append(cases, stackCase(0, 0, true))
	root := &explore.Recorder{}
	runStack(c, root)
	for _, t := range explore.RootTasks(root) {
		cases = append(cases, stackCase(t[0], t[1], false))
	}
	return cases
}

func TestCheck(t *testing.T) { harness.Main(t, "C08", gen) }
