package c08

import (
	"bytes"
	"fmt"

	"github.com/IBM/TSS/mpc/ps"
	math "github.com/IBM/mathlib"
	"verif/cryptolib"
	"verif/harness"
)

// sameRequestCase: one request object (as the exported Blind returns it) is handed to several
// issuers and to the same issuer again through the exported SignBlindSignature: every call signs,
// and signing does not alter the request (its bytes are the same before and after every call).
func sameRequestCase(l int) harness.Case {
	return harness.Case{ID: fmt.Sprintf("local/same-request-object/L%d", l), Run: func(c *harness.C) {
		c.Exec(fmt.Sprintf("[local] same request object, L=%d", l))
		cv := cryptolib.Curve
		pp := ps.Setup(cv, l)
		var m []*math.Zr
		for i := 0; i < l; i++ {
			m = append(m, cv.HashToZr([]byte{byte(i), 'm'}))
		}
		req, _ := ps.Blind(&pp, cv, m)
		before := req.Bytes()
		rp := map[string]interface{}{"local": true, "L": l}
		for issuer := 0; issuer < 3; issuer++ {
			sk, _ := ps.LocalKeyGen(pp)
			for again := 0; again < 2; again++ {
				c.Add("evaluations", 1)
				var err error
				func() {
					defer func() {
						if r := recover(); r != nil {
							err = fmt.Errorf("panic: %v", r)
						}
					}()
					_, err = ps.SignBlindSignature(&pp, req, sk)
				}()
				if err != nil {
					c.Violation("signer-signs", "c08-sign-fails:same-request-object", fmt.Sprintf("L=%d: issuer no. %d, call no. %d on the same request object: %v", l, issuer+1, again+1, err), rp)
					return
				}
				if !bytes.Equal(req.Bytes(), before) {
					c.Violation("signer-signs", "c08-request-altered-by-signing", fmt.Sprintf("L=%d: the request object was altered by SignBlindSignature (issuer no. %d, call no. %d)", l, issuer+1, again+1), rp)
					return
				}
			}
		}
		c.Add("executions", 1)
		c.Outcome(fmt.Sprintf("local|same-request|%d", l))
	}}
}
