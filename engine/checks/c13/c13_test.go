package c13

import (
	"bytes"
	"context"
	"crypto/hmac"
	"crypto/sha256"
	"fmt"
	"reflect"
	"sort"
	"strings"
	"sync"
	"testing"
	"testing/synctest"
	"time"
	"unsafe"

	discovery "github.com/IBM/TSS/disc"
	"github.com/IBM/TSS/mpc/bls"
	"github.com/IBM/TSS/mpc/ps"
	"github.com/IBM/TSS/threshold"
	tss "github.com/IBM/TSS/types"
	math "github.com/IBM/mathlib"
	"verif/backend/blsb"
	"verif/backend/psb"
	"verif/backend/s"
	"verif/dump"
	"verif/explore"
	"verif/harness"
	"verif/scen"
	"verif/world"
)

// boundary identifiers
var B = []uint16{0, 1, 254, 255, 256, 257, 511, 512, 32767, 32768, 65279, 65280, 65534, 65535}

var dkgTopic = func() []byte { h := sha256.Sum256([]byte(tss.DkgTopicName)); return h[:] }()

// ---------------------------------------------------------------------------------------------
// (a) acknowledgement encoding through the public seams of two real Schemes

type instSync struct{ members []uint16 }

func (i *instSync) Synchronize(_ context.Context, f func([]uint16), _ []byte, _ int, _ time.Duration) error {
	f(i.members)
	return nil
}
func (i *instSync) HandleMessage(uint16, []byte) {}

type passive struct{ entered chan struct{} }

func (p *passive) ClassifyMsg(b []byte) (uint8, bool, error)      { return s.Classify(b) }
func (p *passive) Init([]uint16, int, func([]byte, bool, uint16)) {}
func (p *passive) OnMsg([]byte, uint16, bool)                     {}
func (p *passive) KeyGen(ctx context.Context) ([]byte, error) {
	close(p.entered)
	<-ctx.Done()
	return nil, ctx.Err()
}

type capRBC struct {
	got func(m tss.RBCMessage, from uint16)
}

func (c *capRBC) Receive(m tss.RBCMessage, from uint16) { c.got(m, from) }

type ackPair struct {
	bcast  tss.BroadcastFunc // party 1's acknowledgement encoder (real Scheme closure)
	sent   *[]byte           // last payload party 1 handed to Send
	feed   func(data []byte) // deliver bytes from party 1 to party 2's HandleMessage
	last   *tss.RBCMessage
	cancel func()
}

func newAckPair() *ackPair {
	ap := &ackPair{}
	ctx, cancel := context.WithCancel(context.Background())
	var wg sync.WaitGroup
	var sent []byte
	var last tss.RBCMessage
	ap.sent, ap.last = &sent, &last
	mem := func() map[tss.UniversalID]tss.PartyID { return map[tss.UniversalID]tss.PartyID{1: 1, 2: 2} }
	var schemes [2]*threshold.Scheme
	for i := 0; i < 2; i++ {
		i := i
		be := &passive{entered: make(chan struct{})}
		send := func(msgType uint8, topic []byte, msg []byte, to ...uint16) {
			if i == 0 && msgType == uint8(tss.MsgTypeMPC) {
				sent = append([]byte(nil), msg...)
			}
		}
		sc := threshold.LoudScheme(uint16(i+1), world.NopLogger{}, func(uint16) tss.KeyGenerator { return be }, nil, 1, send, mem).(*threshold.Scheme)
		sc.SyncFactory = func([]uint16, func([]byte), func([]byte, uint16)) tss.Synchronizer {
			return &instSync{members: []uint16{1, 2}}
		}
		sc.RBF = func(b tss.BroadcastFunc, f tss.ForwardFunc, n int) tss.ReliableBroadcast {
			if i == 0 {
				ap.bcast = b
			}
			return &capRBC{got: func(m tss.RBCMessage, from uint16) {
				if i == 1 {
					last = m
				}
			}}
		}
		schemes[i] = sc
		wg.Add(1)
		go func() { defer wg.Done(); sc.KeyGen(ctx, 2, 2) }()
		<-be.entered
	}
	ap.feed = func(data []byte) {
		schemes[1].HandleMessage(&tss.IncMessage{Data: data, Source: 1, MsgType: uint8(tss.MsgTypeMPC), Topic: append([]byte(nil), dkgTopic...)})
	}
	ap.cancel = func() { cancel(); wg.Wait() }
	return ap
}

func ackCase(rounds []uint8, lo, hi int) harness.Case {
	id := fmt.Sprintf("ack/r%d-%d/s%d-%d", rounds[0], rounds[len(rounds)-1], lo, hi)
	return harness.Case{ID: id, Run: func(c *harness.C) {
		c.Exec("[ack-codec] " + id)
		ap := newAckPair()
		defer ap.cancel()
		if ap.bcast == nil {
			c.Violation("harness", "c13-ack-seam-missing", "RBF was never invoked for party 1", nil)
			return
		}
		d32 := sha256.Sum256([]byte("d"))
		digests := []string{string(d32[:]), strings.Repeat("\x00", 32)}
		bad := 0
		for _, r := range rounds {
			for sdr := lo; sdr < hi; sdr++ {
				for di, d := range digests {
					*ap.sent = nil
					*ap.last = nil
					ap.bcast(d, uint16(sdr), r)
					if *ap.sent == nil {
						c.Violation("ack-encoded", "c13-ack-not-sent", "acknowledgement was not sent", nil)
						return
					}
					ap.feed(*ap.sent)
					c.Add("evaluations", 1)
					if *ap.last == nil {
						bad++
						if bad == 1 {
							c.Violation("ack-decoded", "c13-ack-dropped", fmt.Sprintf("acknowledgement (sender %d, round %d, digest #%d) was not decoded by the peer", sdr, r, di), map[string]interface{}{"sender": sdr, "round": r})
						}
						continue
					}
					gd, gs, gr := (*ap.last).Ack()
					if string(gd) != d || gs != uint16(sdr) || gr != r {
						bad++
						cl := "other"
						if gs != uint16(sdr) && gs == uint16(sdr)&0xff {
							cl = "sender-high-byte-lost"
						}
						if bad == 1 || sdr == 256 {
							c.Violation("ack-round-trip", "c13-ack-roundtrip:"+cl, fmt.Sprintf("acknowledgement (sender %d, round %d) decoded as (sender %d, round %d, digest equal=%v)", sdr, r, gs, gr, string(gd) == d), map[string]interface{}{"sender": sdr, "round": r})
						}
					}
					if sdr%4099 == 0 {
						c.Outcome(fmt.Sprintf("ack|%d|%d|%d", sdr, r, di))
					}
				}
			}
		}
		c.Add("ack_roundtrip_failures", bad)
		c.Sample("ack-codec", map[string]interface{}{"rounds": rounds, "senders": []int{lo, hi}, "digests": "sha256 value, 32 zero bytes", "failures": bad})
	}}
}

// ---------------------------------------------------------------------------------------------
// (b) synchroniser encoding: bare disc.Member sessions

type memberParty struct{ m *discovery.Member }

func (p *memberParty) HandleMessage(m *tss.IncMessage)                      { p.m.HandleMessage(m.Source, m.Data) }
func (p *memberParty) Sign(context.Context, []byte, string) ([]byte, error) { return nil, nil }
func (p *memberParty) KeyGen(context.Context, int, int) ([]byte, error)     { return nil, nil }
func (p *memberParty) SetStoredData([]byte)                                 {}
func (p *memberParty) ThresholdPK() ([]byte, error)                         { return nil, nil }

type syncOut struct {
	lists map[uint16][]uint16
	errs  map[uint16]error
	trace []string
}

// runSync synchronises all ids (expected = len(ids)) on one topic.
func runSync(c *harness.C, ids []uint16, r world.Chooser) *syncOut {
	o := &syncOut{lists: map[uint16][]uint16{}, errs: map[uint16]error{}}
	topic := sha256.Sum256([]byte("c13-topic"))
	rec := c.Bubble(func() {
		w := world.New(ids)
		var mu sync.Mutex
		for _, id := range ids {
			id := id
			w.AddParty(id, func(send func(uint8, []byte, []byte, ...uint16)) tss.MpcParty {
				var others []uint16
				for _, o := range ids {
					if o != id {
						others = append(others, o)
					}
				}
				m := &discovery.Member{Membership: ids, Logger: world.NopLogger{}, ID: id,
					Broadcast: func(msg []byte) { send(1, topic[:], msg, others...) },
					Send:      func(msg []byte, to uint16) { send(1, topic[:], msg, to) }}
				return &memberParty{m: m}
			})
		}
		for _, id := range ids {
			id := id
			mp := w.Parties[id].Mpc.(*memberParty)
			w.Go(func() {
				ctx, cancel := context.WithTimeout(context.Background(), 3*time.Second)
				defer cancel()
				err := mp.m.Synchronize(ctx, func(l []uint16) {
					mu.Lock()
					o.lists[id] = append([]uint16(nil), l...)
					mu.Unlock()
				}, topic[:], len(ids), threshold.SyncInterval)
				mu.Lock()
				o.errs[id] = err
				mu.Unlock()
			})
		}
		w.Loop(r, 4*time.Second)
		o.trace = w.Trace
		w.Stop()
	})
	if rec != nil && !harness.IsLeakPanic(rec) {
		panic(rec)
	}
	return o
}

func rename(trace []string, ids []uint16) []string {
	// order-preserving renaming ids -> 1..n on the "a>b" and "aN" tokens
	m := map[string]string{}
	sorted := append([]uint16(nil), ids...)
	sort.Slice(sorted, func(i, j int) bool { return sorted[i] < sorted[j] })
	for i, id := range sorted {
		m[fmt.Sprint(id)] = fmt.Sprint(i + 1)
	}
	out := make([]string, len(trace))
	topics := map[string]string{}
	for i, t := range trace {
		f := strings.Fields(t)
		// topic tags depend on the member list: number them by first appearance
		for j, tok := range f {
			if j > 0 && (f[j-1] == "t1" || f[j-1] == "t2") {
				if _, ok := topics[tok]; !ok {
					topics[tok] = fmt.Sprintf("T%d", len(topics))
				}
				f[j] = topics[tok]
			}
		}
		for j, tok := range f {
			if k := strings.Index(tok, ">"); k > 0 {
				a, b := tok[:k], tok[k+1:]
				if x, ok := m[a]; ok {
					a = x
				}
				if x, ok := m[b]; ok {
					b = x
				}
				f[j] = a + ">" + b
			} else if strings.HasPrefix(tok, "a") && len(tok) > 1 {
				if x, ok := m[tok[1:]]; ok {
					f[j] = "a" + x
				}
			} else if strings.HasPrefix(tok, "start") {
				continue
			} else if j > 0 && f[j-1] == "start" {
				if x, ok := m[tok]; ok {
					f[j] = x
				}
			}
		}
		out[i] = strings.Join(f, " ")
	}
	return out
}

func syncOracle(c *harness.C, ids []uint16, o *syncOut, ref []string, what string) {
	want := append([]uint16(nil), ids...)
	sort.Slice(want, func(i, j int) bool { return want[i] < want[j] })
	for _, id := range ids {
		if o.errs[id] != nil {
			c.Violation("sync-completes", "c13-sync-fails:"+idClass(ids), fmt.Sprintf("%s: members %v: %d: %v", what, ids, id, o.errs[id]), map[string]interface{}{"ids": ids})
			return
		}
		if fmt.Sprint(o.lists[id]) != fmt.Sprint(want) {
			c.Violation("sync-list", "c13-sync-wrong-list:"+idClass(ids), fmt.Sprintf("%s: members %v: %d obtained %v", what, ids, id, o.lists[id]), map[string]interface{}{"ids": ids})
			return
		}
	}
	if ref != nil {
		got := rename(o.trace, ids)
		if strings.Join(got, ";") != strings.Join(ref, ";") {
			c.Violation("differential", "c13-sync-trace-differs:"+idClass(ids), fmt.Sprintf("%s: members %v: class trace differs from the small-identifier session", what, ids), map[string]interface{}{"ids": ids})
		}
	}
}

// idClass: does any identifier need the high byte?
func idClass(ids []uint16) string {
	for _, id := range ids {
		if id > 255 {
			return "id>255"
		}
	}
	return "id<=255"
}

func syncSweepCase(lo, hi int) harness.Case {
	id := fmt.Sprintf("sync/pairs/%d-%d", lo, hi)
	return harness.Case{ID: id, Run: func(c *harness.C) {
		c.Exec("[sync-codec] " + id)
		ref := rename(runSync(c, []uint16{1, 2}, &explore.Recorder{}).trace, []uint16{1, 2})
		for x := lo; x < hi; x++ {
			if c.Expired() {
				return
			}
			y := uint16(x) + 1 // partner: the successor (wraps to 0)
			ids := []uint16{uint16(x), y}
			sort.Slice(ids, func(i, j int) bool { return ids[i] < ids[j] })
			o := runSync(c, ids, &explore.Recorder{})
			c.Add("executions", 1)
			c.Add("transitions", len(o.trace))
			syncOracle(c, ids, o, ref, "bare sync")
			if x%997 == 0 {
				c.Outcome(fmt.Sprintf("sync|%v", ids))
				c.Sample("sync-pair", map[string]interface{}{"ids": ids, "steps": len(o.trace)})
			}
		}
	}}
}

func triples(quick bool) [][]uint16 {
	var out [][]uint16
	for i := 0; i < len(B); i++ {
		for j := i + 1; j < len(B); j++ {
			for k := j + 1; k < len(B); k++ {
				out = append(out, []uint16{B[i], B[j], B[k]})
			}
		}
	}
	if quick {
		var cover [][]uint16
		for i, t := range out {
			if i%12 == 0 {
				cover = append(cover, t)
			}
		}
		return cover
	}
	return out
}

func pairs() [][]uint16 {
	var out [][]uint16
	for i := 0; i < len(B); i++ {
		for j := i + 1; j < len(B); j++ {
			out = append(out, []uint16{B[i], B[j]})
		}
	}
	return out
}

func syncSetsCase(name string, sets [][]uint16) harness.Case {
	return harness.Case{ID: "sync/sets/" + name, Run: func(c *harness.C) {
		refs := map[int][]string{}
		for _, ids := range sets {
			if c.Expired() {
				return
			}
			n := len(ids)
			if refs[n] == nil {
				small := make([]uint16, n)
				for i := range small {
					small[i] = uint16(i + 1)
				}
				refs[n] = rename(runSync(c, small, &explore.Recorder{}).trace, small)
			}
			c.Exec(fmt.Sprintf("[sync-sets] %v", ids))
			o := runSync(c, ids, &explore.Recorder{})
			c.Add("executions", 1)
			c.Add("transitions", len(o.trace))
			syncOracle(c, ids, o, refs[n], "bare sync")
			c.Outcome(fmt.Sprintf("syncset|%v", ids))
		}
	}}
}

// ---------------------------------------------------------------------------------------------
// (e) full-stack sessions with large identifiers: BLS DKG (+ stored data / public parameters
// round trip and threshold verification) and backend-S DKG + Sign, loud and silent.

type sessOut struct {
	shares map[uint16][]byte
	errs   map[uint16]error
	sigs   map[uint16][]byte
	serrs  map[uint16]error
	trace  []string
	topics map[string]string // sync topic (hex) -> participant list that produced it
}

func runSession(c *harness.C, mode, backend string, ids []uint16, shift uint16) *sessOut {
	o := &sessOut{shares: map[uint16][]byte{}, errs: map[uint16]error{}, sigs: map[uint16][]byte{}, serrs: map[uint16]error{}, topics: map[string]string{}}
	n := len(ids)
	rec := c.Bubble(func() {
		w := world.New(ids)
		mem := map[uint16]uint16{}
		for _, id := range ids {
			mem[id] = id + shift
		}
		st := &scen.Stack{Mode: mode, Threshold: n - 1, Membership: mem}
		lg := s.NewLog()
		switch backend {
		case "bls":
			st.KGF, st.SF = blsb.KeyGenFactory, blsb.SignerFactory
		case "ps":
			st.KGF, st.SF = psb.KeyGenFactory(1), psb.SignerFactory(1)
		case "S":
			po := func(node uint16) uint16 { return mem[node] }
			st.KGF = func(id uint16) tss.KeyGenerator { return s.New(id, po, lg) }
			st.SF = func(id uint16) tss.Signer { return s.New(id, po, lg) }
		}
		for _, id := range ids {
			st.Build(w, id)
		}
		rs := scen.NewResults()
		for _, id := range ids {
			scen.StartKeyGen(w, w.Parties[id], rs, fmt.Sprint("kg", id), n, n, 10*time.Second)
		}
		w.Loop(&explore.Recorder{}, 11*time.Second)
		for _, id := range ids {
			r := rs.Get(fmt.Sprint("kg", id))
			o.shares[id], o.errs[id] = r.Data, r.Err
			if !r.Returned {
				o.errs[id] = fmt.Errorf("KeyGen never returned")
			}
		}
		if backend == "S" {
			ok := true
			for _, id := range ids {
				if o.errs[id] != nil {
					ok = false
				}
			}
			if ok {
				for _, id := range ids {
					w.Parties[id].Mpc.SetStoredData(o.shares[id])
					scen.StartSign(w, w.Parties[id], rs, fmt.Sprint("sg", id), []byte("digest"), "topic-1", 10*time.Second)
				}
				w.Loop(&explore.Recorder{}, 22*time.Second)
				for _, id := range ids {
					r := rs.Get(fmt.Sprint("sg", id))
					o.sigs[id], o.serrs[id] = r.Data, r.Err
					if !r.Returned {
						o.serrs[id] = fmt.Errorf("Sign never returned")
					}
				}
			}
		}
		o.trace = w.Trace
		w.Stop()
	})
	if rec != nil && !harness.IsLeakPanic(rec) {
		panic(rec)
	}
	return o
}

func sessionOracle(c *harness.C, mode, backend string, ids []uint16, shift uint16, o *sessOut, ref []string) {
	what := fmt.Sprintf("%s/%s ids=%v shift=%d", mode, backend, ids, shift)
	rp := map[string]interface{}{"mode": mode, "backend": backend, "ids": ids, "shift": shift}
	cls := idClass(ids)
	if shift != 0 {
		cls += "/shift"
	}
	for _, id := range ids {
		if o.errs[id] != nil {
			c.Violation("session-completes", fmt.Sprintf("c13-keygen-fails:%s/%s/%s", mode, backend, cls), what+": "+o.errs[id].Error(), rp)
			return
		}
	}
	if backend == "S" {
		for _, id := range ids {
			if o.serrs[id] != nil {
				c.Violation("session-completes", fmt.Sprintf("c13-sign-fails:%s/%s/%s", mode, backend, cls), what+": "+o.serrs[id].Error(), rp)
				return
			}
			if !bytes.Equal(o.sigs[id], o.sigs[ids[0]]) {
				c.Violation("same-outcome", fmt.Sprintf("c13-sign-differs:%s/%s/%s", mode, backend, cls), what+": participants returned different signatures", rp)
				return
			}
		}
	}
	if backend == "bls" {
		parties := make([]uint16, len(ids))
		for i, id := range ids {
			parties[i] = id + shift
		}
		// the orchestrator initialises the backend; here the stored data and public parameters
		// must survive serialisation with these identifiers and verify
		var pk0 []byte
		var sigs [][]byte
		d := sha256.Sum256([]byte("m"))
		for i, id := range ids {
			sg := &bls.TBLS{Logger: world.NopLogger{}, Party: id}
			sg.Init(ids, len(ids), nil)
			if err := sg.SetShareData(o.shares[id]); err != nil {
				c.Violation("stored-data-roundtrip", "c13-stored-data-unusable:"+cls, what+": "+err.Error(), rp)
				return
			}
			pk, err := sg.ThresholdPK()
			if err != nil {
				c.Violation("public-params", "c13-pk-error:"+cls, what+": "+err.Error(), rp)
				return
			}
			if i == 0 {
				pk0 = pk
			} else if !bytes.Equal(pk, pk0) {
				c.Violation("public-params", "c13-pk-differs:"+cls, what+": public parameters differ", rp)
				return
			}
			sig, _ := sg.Sign(nil, d[:])
			sigs = append(sigs, sig)
		}
		var v bls.Verifier
		if err := v.Init(pk0); err != nil {
			c.Violation("public-params", "c13-verifier-init:"+cls, what+": "+err.Error(), rp)
			return
		}
		agg, err := v.AggregateSignatures(sigs, ids)
		if err == nil {
			err = v.Verify(d[:], agg)
		}
		if err != nil {
			c.Violation("public-params", "c13-threshold-verify:"+cls, what+": "+err.Error(), rp)
			return
		}
	}
	if backend == "ps" {
		// a restarted node: fresh instance, Init, SetShareData; public material identical on all
		// nodes, and blind / sign / unblind / prove / verify works with these identifiers
		var tpk0 []byte
		signers := map[uint16]*ps.TPS{}
		for i, id := range ids {
			sg := &ps.TPS{Logger: world.NopLogger{}, Party: id, Curve: math.Curves[1], MessageLength: 1}
			sg.Init(ids, len(ids), nil)
			if err := sg.SetShareData(o.shares[id]); err != nil {
				c.Violation("stored-data-roundtrip", "c13-ps-stored-data-unusable:"+cls, what+": "+err.Error(), rp)
				return
			}
			var tpk []byte
			var err error
			func() {
				defer func() {
					if r := recover(); r != nil {
						err = fmt.Errorf("panic: %v", r)
					}
				}()
				tpk, err = sg.ThresholdPK()
			}()
			if err != nil {
				c.Violation("public-params", "c13-ps-pk-error:"+cls, what+": "+err.Error(), rp)
				return
			}
			if i == 0 {
				tpk0 = tpk
			} else if !bytes.Equal(tpk, tpk0) {
				c.Violation("public-params", "c13-ps-pk-differs:"+cls, what+": public material differs after reload", rp)
				return
			}
			signers[id] = sg
		}
		if err := psRoundTrip(tpk0, ids, signers); err != nil {
			c.Violation("public-params", "c13-ps-proof:"+cls, what+": "+err.Error(), rp)
			return
		}
	}
	if ref != nil {
		got := rename(o.trace, ids)
		if strings.Join(got, ";") != strings.Join(ref, ";") {
			c.Violation("differential", fmt.Sprintf("c13-session-trace-differs:%s/%s/%s", mode, backend, cls), what+": class trace differs from the session with identifiers 1..n", rp)
		}
	}
}

func psRoundTrip(tpk []byte, ids []uint16, signers map[uint16]*ps.TPS) (err error) {
	defer func() {
		if r := recover(); r != nil {
			err = fmt.Errorf("panic: %v", r)
		}
	}()
	var pr ps.Prover
	pr.Logger = world.NopLogger{}
	if err := pr.Init(math.Curves[1], 1, tpk, ids); err != nil {
		return err
	}
	req, secret := pr.Blind([][]byte{[]byte("m")})
	var ws []ps.SignatureWitness
	for _, id := range ids {
		sig, err := signers[id].Sign(context.Background(), req.Bytes())
		if err != nil {
			return fmt.Errorf("signer %d: %v", id, err)
		}
		w, err := pr.UnBlind(id, sig, &secret)
		if err != nil {
			return fmt.Errorf("unblind %d: %v", id, err)
		}
		ws = append(ws, w)
	}
	pok := pr.ProveKnowledgeOfSignature(&secret, ids, ws)
	var v ps.Verifier
	if err := v.Init(math.Curves[1], 1, tpk); err != nil {
		return err
	}
	return v.Verify(pok.Bytes())
}

func sessionCase(mode, backend string, shift uint16, name string, sets [][]uint16) harness.Case {
	return harness.Case{ID: fmt.Sprintf("session/%s/%s/shift%d/%s", mode, backend, shift, name), Run: func(c *harness.C) {
		refs := map[int][]string{}
		for _, ids := range sets {
			if c.Expired() {
				return
			}
			// keep party ids in range when shifting
			skip := false
			for _, id := range ids {
				if uint32(id)+uint32(shift) > 65535 {
					skip = true
				}
			}
			if skip {
				continue
			}
			n := len(ids)
			if refs[n] == nil {
				small := make([]uint16, n)
				for i := range small {
					small[i] = uint16(i + 1)
				}
				refs[n] = rename(runSession(c, mode, backend, small, 0).trace, small)
			}
			c.Exec(fmt.Sprintf("[session] %s/%s %v shift=%d", mode, backend, ids, shift))
			o := runSession(c, mode, backend, ids, shift)
			c.Add("executions", 1)
			c.Add("transitions", len(o.trace))
			var ref []string
			if shift == 0 {
				ref = refs[n]
			}
			sessionOracle(c, mode, backend, ids, shift, o, ref)
			c.Outcome(fmt.Sprintf("session|%s|%s|%v|%d", mode, backend, ids, shift))
			c.Sample("session", map[string]interface{}{"mode": mode, "backend": backend, "ids": ids, "shift": shift, "steps": len(o.trace)})
		}
	}}
}

func chunk(sets [][]uint16, k int) [][][]uint16 {
	var out [][][]uint16
	for i := 0; i < len(sets); i += k {
		j := i + k
		if j > len(sets) {
			j = len(sets)
		}
		out = append(out, sets[i:j])
	}
	return out
}

func gen(c *harness.C) []harness.Case {
	c.Note("rule", "codec level: every sender id 0..65535 x rounds x digest lengths through the real acknowledgement encoder/decoder of two Schemes; every id 0..65535 in a two-member synchronisation; session level: pairs/triples over the byte-boundary set B, loud and silent, identity and shifted maps, differential oracle against ids 1..n; distinct_nontrivial counts distinct identifier sets (codec sweeps: one in every ~1000-4000 ids is counted)")
	var cases []harness.Case
	rounds := []uint8{0, 1, 64, 127}
	if c.Thorough() {
		rounds = nil
		for r := 0; r < 128; r++ {
			rounds = append(rounds, uint8(r))
		}
	}
	for _, rs := range [][]uint8{rounds[:len(rounds)/2], rounds[len(rounds)/2:]} {
		for lo := 0; lo < 65536; lo += 8192 {
			cases = append(cases, ackCase(rs, lo, lo+8192))
		}
	}
	for lo := 0; lo < 65536; lo += 2048 {
		cases = append(cases, syncSweepCase(lo, lo+2048))
	}
	quick := !c.Thorough()
	for i, ch := range chunk(pairs(), 16) {
		cases = append(cases, syncSetsCase(fmt.Sprintf("pairs%d", i), ch))
	}
	for i, ch := range chunk(triples(quick), 8) {
		cases = append(cases, syncSetsCase(fmt.Sprintf("triples%d", i), ch))
	}
	// large committees (identifiers spread over the whole range, both sides of every byte boundary)
	big := func(n int) []uint16 {
		ids := []uint16{0, 1, 127, 128, 255, 256, 257, 511, 512, 4095, 32767, 32768, 40000, 65279, 65534, 65535}
		for i := 0; len(ids) < n; i++ {
			ids = append(ids, uint16(1000+37*i))
		}
		ids = ids[:n]
		sort.Slice(ids, func(i, j int) bool { return ids[i] < ids[j] }) // the differential oracle renames by rank
		return ids
	}
	sizes := []int{13, 16, 17, 24}
	if c.Thorough() {
		sizes = append(sizes, 18, 32, 40)
	}
	cases = append(cases, largeViewCase([]int{2, 127, 128, 129, 255, 256, 257, 300, 1000, 4096, 32768, 65535}))
	for _, n := range sizes {
		cases = append(cases, syncSetsCase(fmt.Sprintf("large%d", n), [][]uint16{big(n)}))
	}
	for _, mode := range []string{"loud", "silent"} {
		for _, be := range []string{"bls", "S"} {
			for _, shift := range []uint16{0, 3} {
				if be == "bls" && shift != 0 {
					continue // BLS takes its own id from the factory argument (node id): identity maps only
				}
				for i, ch := range chunk(pairs(), 12) {
					cases = append(cases, sessionCase(mode, be, shift, fmt.Sprintf("pairs%d", i), ch))
				}
				for i, ch := range chunk(triples(quick), 6) {
					cases = append(cases, sessionCase(mode, be, shift, fmt.Sprintf("triples%d", i), ch))
				}
			}
		}
	}
	// PS sessions: identifier sets with entries on both sides of the byte boundary and at the ends
	psSets := [][]uint16{{1, 2, 3}, {0, 255, 256}, {255, 256, 40000}, {2, 3, 65535}, {257, 32768, 65534}}
	if c.Thorough() {
		psSets = append(psSets, triples(true)...)
	}
	for _, mode := range []string{"loud", "silent"} {
		for i, ch := range chunk(psSets, 2) {
			cases = append(cases, sessionCase(mode, "ps", 0, fmt.Sprintf("ps%d", i), ch))
		}
	}
	return cases
}

// largeViewCase: a member of a large configured universe is told a view of v members by a peer
// (one announcement through the public entry point, own tag, identifiers up to 65535): the view it
// records for that peer is exactly that view. A full synchronisation of hundreds of members is too
// expensive to run; what depends on the view size is the codec.
func largeViewCase(sizes []int) harness.Case {
	return harness.Case{ID: "sync/large-view", Run: func(c *harness.C) {
		for _, v := range sizes {
			v := v
			c.Exec(fmt.Sprintf("[large-view] %d members", v))
			var got, want string
			rec := c.Bubble(func() {
				universe := make([]uint16, 0, v)
				for i := 0; i < v; i++ {
					universe = append(universe, uint16(65535-i*(65535/max(v, 1))))
				}
				universe[0], universe[len(universe)-1] = 65535, 1
				sort.Slice(universe, func(i, j int) bool { return universe[i] < universe[j] })
				uniq := universe[:0]
				for i, x := range universe {
					if i == 0 || x != universe[i-1] {
						uniq = append(uniq, x)
					}
				}
				universe = uniq
				topic := world.Sha([]byte("large-view"))
				m := &discovery.Member{Membership: universe, Logger: world.NopLogger{}, ID: 1, Broadcast: func([]byte) {}, Send: func([]byte, uint16) {}}
				ctx, cancel := context.WithTimeout(context.Background(), 3*time.Second)
				go m.Synchronize(ctx, func([]uint16) {}, topic, len(universe), time.Second)
				synctest.Wait()
				peer := universe[len(universe)-1]
				h := hmac.New(sha256.New, topic)
				h.Write([]byte{byte(peer), byte(peer >> 8)})
				msg := append([]byte{1}, h.Sum(nil)...)
				for _, x := range universe {
					msg = append(msg, byte(x), byte(x>>8))
				}
				m.HandleMessage(peer, msg)
				synctest.Wait()
				want = fmt.Sprint(universe)
				// the recorded view of the peer, by reflection: topicsToMemberViews -> memberToView
				got = recordedView(m, peer)
				cancel()
				time.Sleep(5 * time.Second)
			})
			if rec != nil && !harness.IsLeakPanic(rec) {
				panic(rec)
			}
			c.Add("executions", 1)
			c.Add("evaluations", 1)
			if got == "?" {
				c.Note("c13-large-view", "the recorded views are not reachable by reflection on this tree: case skipped")
				return
			}
			if got != want {
				g := got
				if len(g) > 80 {
					g = g[:80] + "..."
				}
				c.Violation("view-survives-the-codec", "c13-large-view-not-recorded", fmt.Sprintf("a peer announced a view of %d members (identifiers up to 65535); the member recorded %s", v, g), map[string]interface{}{"view": v})
			}
			c.Outcome(fmt.Sprintf("large-view|%d", v))
		}
	}}
}

func recordedView(m *discovery.Member, peer uint16) string {
	f, ok := dump.Field(m, "topicsToMemberViews")
	if !ok {
		return "?"
	}
	res := "<none>"
	found := false
	visit := func(tpv interface{}) {
		mv, ok := dump.Field(tpv, "memberToView")
		if !ok {
			return
		}
		var smp *sync.Map
		switch {
		case mv.Kind() == reflect.Ptr && !mv.IsNil() && mv.Type().Elem() == reflect.TypeOf(sync.Map{}):
			smp = (*sync.Map)(unsafe.Pointer(mv.Pointer()))
		case mv.CanAddr() && mv.Type() == reflect.TypeOf(sync.Map{}):
			smp = (*sync.Map)(unsafe.Pointer(mv.UnsafeAddr()))
		default:
			return
		}
		found = true
		if v, ok := smp.Load(peer); ok {
			res = fmt.Sprint(v)
		}
	}
	if f.CanAddr() && f.Type() == reflect.TypeOf(sync.Map{}) {
		smp := (*sync.Map)(unsafe.Pointer(f.UnsafeAddr()))
		smp.Range(func(_, v interface{}) bool { visit(v); return true })
	} else if f.Kind() == reflect.Map {
		it := f.MapRange()
		for it.Next() {
			if x, ok := dump.Iface(it.Value()); ok {
				visit(x)
			}
		}
	}
	if !found {
		return "?"
	}
	return res
}

func TestCheck(t *testing.T) { harness.Main(t, "C13", gen) }
