// Package c16old is the part of C16 (and, relabelled, of C10) whose verdict depends on the standard
// library the repository is compiled against: it is built with the repository's own toolchain (the
// default `go`, 1.23.x) instead of go1.26.8. encoding/asn1 of go <= 1.23 decodes T61String /
// GeneralString byte for byte, so a handshake can hold a Go string that is not valid UTF-8 - and
// that cannot be encoded again. No synctest here: real time, short waits, in-memory TLS.
package c16old

import (
	"bytes"
	"crypto/ecdsa"
	"crypto/tls"
	"fmt"
	"os"
	"strings"
	"testing"
	"time"

	comm "github.com/IBM/TSS/net"
	"verif/harness"
	"verif/netlib"
)

type nop struct{}

func (nop) Debugf(string, ...interface{}) {}
func (nop) Infof(string, ...interface{})  {}
func (nop) Warnf(string, ...interface{})  {}
func (nop) Errorf(string, ...interface{}) {}
func (nop) DebugEnabled() bool            { return false }

func propName() string {
	if p := os.Getenv("VERIF_PROP"); p != "" {
		return p
	}
	return "C16"
}

type variant struct {
	name     string
	tag      byte
	fill     []byte
	accepted bool // decodes to the registered domain and re-encodes to the signed bytes
}

func variants() []variant {
	var vs []variant
	for _, st := range []struct {
		name string
		tag  byte
	}{{"utf8", 0x0c}, {"printable", 0x13}, {"t61", 0x14}, {"ia5", 0x16}, {"numeric", 0x12}, {"bmp", 0x1e}, {"general", 0x1b}, {"octets", 0x04}, {"universal", 0x1c}, {"videotex", 0x15}, {"graphic", 0x19}, {"visible", 0x1a}} {
		for _, fl := range []struct {
			name string
			b    []byte
		}{{"same-text", []byte("dom1")}, {"high-bytes", []byte{0xff, 0xfe, 0xfd, 0xfc}}, {"zero-bytes", []byte{0, 0, 0, 0}}, {"utf8-overlong", []byte{0xc0, 0xaf, 0xc0, 0xaf}}, {"truncated-utf8", []byte{'d', 'o', 0xe2, 0x82}}, {"latin1", []byte{'d', 0xf6, 'm', '1'}}} {
			acc := fl.name == "same-text" && (st.tag == 0x0c || st.tag == 0x13 || st.tag == 0x14 || st.tag == 0x16 || st.tag == 0x1b)
			vs = append(vs, variant{fmt.Sprintf("domain-as-%s-string-%s", st.name, fl.name), st.tag, fl.b, acc})
		}
	}
	return vs
}

func gen(c *harness.C) []harness.Case {
	c.Property = propName()
	c.Note("oldgo-rule", "built with the repository's own toolchain; real net.ServiceConnections over in-memory TLS, real time; the registered identity signs a valid handshake, then the Domain element is re-typed (12 ASN.1 string types) and re-filled (6 byte patterns); the receiver must survive, must attribute the connection's message to the registered node only when the decoded domain is the registered one, and must keep serving an honest connection afterwards")
	var cases []harness.Case
	for _, v := range variants() {
		v := v
		cases = append(cases, harness.Case{ID: "oldgo/" + v.name, Run: func(c *harness.C) { run(c, v) }})
	}
	return cases
}

func run(c *harness.C, v variant) {
	c.Exec("[oldgo] " + v.name)
	pki, err := netlib.NewPKI(time.Time{})
	if err != nil {
		panic(err)
	}
	pair, _ := pki.CA.NewClientCertKeyPair()
	lis := netlib.NewListener(pki.ServerConfig())
	p2id := map[string]uint16{netlib.LookupKey("dom1", pair.Cert): 1}
	in, stop := comm.ServiceConnections(lis, p2id, nop{})
	col := &netlib.Collector{}
	go col.Run(in)
	defer stop()
	dial := func(name string) (*tls.Conn, []byte) {
		raw, err := lis.DialRaw(name)
		if err != nil {
			panic(err)
		}
		conn := tls.Client(raw, pki.ClientConfig())
		if err := conn.Handshake(); err != nil {
			panic(err)
		}
		b, _ := netlib.Binding(conn)
		return conn, b
	}
	hs := func(b []byte) comm.Handshake {
		h := comm.Handshake{Domain: "dom1", TLSBinding: b, Identity: pair.Cert, Timestamp: time.Now().Unix()}
		netlib.SignHandshake(&h, pair.Signer.(*ecdsa.PrivateKey))
		return h
	}
	conn, b := dial("variant")
	raw := hs(b).Bytes()
	i := bytes.Index(raw, append([]byte{0x13, 4}, "dom1"...))
	if i < 0 || i > 8 {
		panic("c16old: the domain element was not found where the encoder puts it")
	}
	raw[i] = v.tag
	copy(raw[i+2:], v.fill)
	conn.Write(netlib.FrameHandshake(raw))
	conn.Write(netlib.Frame(0, nil, []byte("from-variant")))
	// an honest connection afterwards: the node still serves
	time.Sleep(60 * time.Millisecond)
	hc, hb := dial("honest")
	hc.Write(netlib.FrameHandshake(hs(hb).Bytes()))
	hc.Write(netlib.Frame(0, nil, []byte("from-honest")))
	deadline := time.Now().Add(30 * time.Second)
	honest := false
	var got []comm.InMsg
	for time.Now().Before(deadline) {
		got = col.Snapshot()
		for _, m := range got {
			if string(m.Data) == "from-honest" {
				honest = true
			}
		}
		if honest {
			break
		}
		time.Sleep(20 * time.Millisecond)
	}
	time.Sleep(40 * time.Millisecond)
	got = col.Snapshot()
	c.Add("evaluations", 1)
	c.Add("executions", 1)
	rp := map[string]interface{}{"variant": v.name}
	low := strings.ToLower(propName())
	if !honest {
		c.Violation("honest-connection-served", low+"-oldgo-honest-connection-not-served", fmt.Sprintf("after handshake variant %s an honest connection's message did not arrive within 30 s", v.name), rp)
	}
	for _, m := range got {
		if string(m.Data) != "from-variant" {
			continue
		}
		if !v.accepted {
			c.Violation("no-attribution-without-proof", low+"-oldgo-attributed:domain-string-type", fmt.Sprintf("handshake variant %s: the connection's message was attributed to node %d (domain %q)", v.name, m.From, m.Domain), rp)
		} else if m.From != 1 || m.Domain != "dom1" {
			c.Violation("attribution-matches-registration", low+"-oldgo-misattributed:domain-string-type", fmt.Sprintf("handshake variant %s: attributed to node %d under %q", v.name, m.From, m.Domain), rp)
		}
	}
	conn.Close()
	hc.Close()
	c.Outcome("oldgo|" + v.name)
	c.Sample("oldgo", map[string]interface{}{"variant": v.name})
}

func TestCheck(t *testing.T) { harness.Main(t, propName(), gen) }
