//go:build psonly

package c05

import tss "github.com/IBM/TSS/types"

// PS-only build: mpc/ps compiled against the mathlib version of its own go.mod; mpc/bls not linked
const buildPrefix = "psown-"

var backendsLinked = []string{"ps"}

func blsFactory() func(id uint16) tss.KeyGenerator { panic("BLS not linked") }

func blsOracle(k cell, o *out, done []uint16, members []uint16, outcome string, bad func(clause, sig, detail string)) (string, bool) {
	return "", false
}
