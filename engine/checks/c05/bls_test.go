//go:build !psonly

package c05

import (
	"bytes"
	"crypto/sha256"
	"encoding/asn1"
	"fmt"
	"strings"

	"github.com/IBM/TSS/mpc/bls"
	tss "github.com/IBM/TSS/types"
	"verif/world"
)

const buildPrefix = ""

var backendsLinked = []string{"bls", "ps"}

func blsFactory() func(id uint16) tss.KeyGenerator {
	return func(id uint16) tss.KeyGenerator { return &bls.TBLS{Logger: world.NopLogger{}, Party: id} }
}

// blsOracle: public material identical among completers, every honest t-subset signs under the
// reported key, the reported key is not the deviator's adaptive choice. stop = oracle is done.
func blsOracle(k cell, o *out, done []uint16, members []uint16, outcome string, bad func(clause, sig, detail string)) (string, bool) {
	var pk0 []byte
	signers := map[uint16]*bls.TBLS{}
	for _, id := range done {
		sg := &bls.TBLS{Logger: world.NopLogger{}, Party: id}
		sg.Init(members, k.TT, nil)
		if err := sg.SetShareData(o.res[id].Data); err != nil {
			bad("share-usable", "c05-share-unusable", err.Error())
			return "", true
		}
		pk, _ := sg.ThresholdPK()
		if pk0 == nil {
			pk0 = pk
		} else if !bytes.Equal(pk, pk0) {
			bad("identical-public-material", "c05-public-material-differs", fmt.Sprintf("honest parties %v completed with differing public material", done))
			return " split", true
		}
		signers[id] = sg
	}
	if strings.HasPrefix(k.Strategy, "S10") || strings.HasPrefix(k.Strategy, "D-recommit") {
		var pp bls.PublicParams
		if _, err := asn1.Unmarshal(pk0, &pp); err == nil && bytes.Equal(pp.ThresholdPK, attackerKey().Bytes()) {
			bad("commitment-binds", "c05-adaptive-key-accepted", fmt.Sprintf("honest parties %v completed with a threshold key chosen by the deviator after it saw their public keys (its commitment did not bind it): the deviator alone can sign", done))
			return " rogue-key", true
		}
	}
	if len(done) >= k.TT {
		var v bls.Verifier
		if err := v.Init(pk0); err != nil {
			bad("public-material-usable", "c05-verifier-init", err.Error())
			return "", true
		}
		d := sha256.Sum256([]byte("c05"))
		for _, sub := range subsetsOfSize(done, k.TT) {
			var sigs [][]byte
			for _, id := range sub {
				sg, _ := signers[id].Sign(nil, d[:])
				sigs = append(sigs, sg)
			}
			agg, err := v.AggregateSignatures(sigs, sub)
			if err == nil {
				err = v.Verify(d[:], agg)
			}
			if err != nil {
				bad("honest-shares-sign", "c05-poisoned-key", fmt.Sprintf("honest parties %v completed but the shares of %v do not produce a signature that verifies under the reported key: %v", done, sub, err))
				return " poisoned", true
			}
		}
	}
	return "", false
}
