package c05

import (
	"fmt"
	"sync"
	"time"

	tss "github.com/IBM/TSS/types"
	"verif/harness"
	"verif/world"
)

// rekeyRevealCase: the same backend objects run two key generations in a row (Init, KeyGen, Init,
// KeyGen - a committee that re-keys or retries). In the second run, too, no party discloses its
// public-key contribution before it holds the commitments of all others *of that run*: what the
// first run left behind does not count. Synchronous wiring (a send is a delivery), so "holds" is
// "was sent before".
func rekeyRevealCase(be string, n, t int) harness.Case {
	return harness.Case{ID: fmt.Sprintf("rekey-reveal/%s/n%dt%d", be, n, t), Run: func(c *harness.C) {
		c.Exec(fmt.Sprintf("[rekey-reveal] %s n=%d t=%d", be, n, t))
		k := cell{Backend: be, NN: n, TT: t}
		mk, _ := factory(k)
		members := ids(n)
		inst := map[uint16]tss.KeyGenerator{}
		for _, id := range members {
			inst[id] = mk(id)
		}
		for run := 1; run <= 3; run++ {
			var mu sync.Mutex
			got := map[uint16]int{} // commitments of this run handed to each party
			early := ""
			rec := c.Bubble(func() {
				for _, id := range members {
					id := id
					inst[id].Init(members, t, func(msg []byte, bc bool, to uint16) {
						if len(msg) > 0 {
							mu.Lock()
							switch msg[0] {
							case tagCommit:
								for _, q := range members {
									if q != id {
										got[q]++
									}
								}
							case tagReveal:
								if got[id] < n-1 && early == "" {
									early = fmt.Sprintf("party %d sent its public key in key generation no. %d on the same objects holding %d of %d commitments of that run", id, run, got[id], n-1)
								}
							}
							mu.Unlock()
						}
						for _, dst := range members {
							if dst == id || (!bc && dst != to) {
								continue
							}
							inst[dst].OnMsg(append([]byte(nil), msg...), id, bc)
						}
					})
				}
				var wg sync.WaitGroup
				errs := map[uint16]error{}
				for _, id := range members {
					id := id
					wg.Add(1)
					go func() {
						defer wg.Done()
						ctx, cancel := world.Ctx(20 * time.Second)
						defer cancel()
						_, err := inst[id].KeyGen(ctx)
						mu.Lock()
						errs[id] = err
						mu.Unlock()
					}()
				}
				wg.Wait()
			})
			if rec != nil && !harness.IsLeakPanic(rec) {
				panic(rec)
			}
			c.Add("executions", 1)
			c.Add("evaluations", 1)
			if early != "" {
				c.Violation("reveal-after-all-commitments", "c05-early-reveal:rekey:"+be, fmt.Sprintf("%s n=%d t=%d: %s", be, n, t, early), map[string]interface{}{"rekey": true, "backend": be, "n": n, "t": t})
				return
			}
			c.Outcome(fmt.Sprintf("rekey-reveal|%s|%d|%d|%d", be, n, t, run))
		}
	}}
}
