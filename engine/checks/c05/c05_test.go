package c05

import (
	"bytes"
	"context"
	"crypto/sha256"
	"encoding/asn1"
	"encoding/json"
	"fmt"
	"os"
	"sort"
	"strings"
	"sync"
	"testing"
	"testing/synctest"
	"time"

	"github.com/IBM/TSS/mpc/ps"
	tss "github.com/IBM/TSS/types"
	math "github.com/IBM/mathlib"
	"verif/explore"
	"verif/harness"
	"verif/scen"
	"verif/world"
)

var curve = math.Curves[1]

const deadline = 3 * time.Second

const (
	tagShare  = 1
	tagCommit = 2
	tagReveal = 3
)

type cell struct {
	Backend  string   `json:"backend"` // bls | ps
	N, T     int      `json:"-"`
	NN       int      `json:"n"`
	TT       int      `json:"t"`
	Dev      uint16   `json:"deviator"`
	Victims  []uint16 `json:"victims"`
	Strategy string   `json:"strategy"`
	Choices  []int    `json:"choices,omitempty"`
}

func (k cell) id() string {
	return fmt.Sprintf("%s%s/n%dt%d/dev%d/v%v/%s", buildPrefix, k.Backend, k.NN, k.TT, k.Dev, k.Victims, k.Strategy)
}

func ids(n int) []uint16 {
	out := make([]uint16, n)
	for i := range out {
		out[i] = uint16(i + 1)
	}
	return out
}

func isIn(x uint16, l []uint16) bool {
	for _, y := range l {
		if x == y {
			return true
		}
	}
	return false
}

// proxy logs hand-overs and outgoing messages of an honest backend (forwards verbatim).
type proxy struct {
	tss.KeyGenerator
	node uint16
	mu   *sync.Mutex
	got  map[uint16]map[byte]int // from -> tag -> count
	// number of distinct peers whose commitment was handed over when the reveal was sent (-1: no reveal)
	commitsAtReveal int
}

func (p *proxy) OnMsg(b []byte, from uint16, bc bool) {
	p.mu.Lock()
	if len(b) > 0 {
		if p.got[from] == nil {
			p.got[from] = map[byte]int{}
		}
		p.got[from][b[0]]++
	}
	p.mu.Unlock()
	p.KeyGenerator.OnMsg(b, from, bc)
}

func (p *proxy) Init(parties []uint16, threshold int, sendMsg func(msg []byte, isBroadcast bool, to uint16)) {
	p.KeyGenerator.Init(parties, threshold, func(msg []byte, isBroadcast bool, to uint16) {
		if len(msg) > 0 && msg[0] == tagReveal {
			p.mu.Lock()
			n := 0
			for _, tags := range p.got {
				if tags[tagCommit] > 0 {
					n++
				}
			}
			p.commitsAtReveal = n
			p.mu.Unlock()
		}
		sendMsg(msg, isBroadcast, to)
	})
}

// ---------------------------------------------------------------------------------------------
// payload manipulation per backend

func otherG2(seed byte) *math.G2 {
	return curve.GenG2.Mul(curve.HashToZr([]byte{seed, 'k'}))
}

type codec interface {
	shareOffY(b []byte) []byte            // a share whose last component only is moved off the polynomial
	shareOff(b []byte) []byte             // a share moved off the polynomial
	shareAdd(b []byte, d *math.Zr) []byte // every component of the share plus d
	truncShare(b []byte) []byte
	otherKey(seed byte) []byte // a well-formed public key unrelated to the real one
	shiftKey(b []byte) []byte  // the real key shifted by a generator multiple
	notAPoint(b []byte) []byte
	wrongCount(b []byte, more bool) []byte // PS: too few / too many components (BLS: odd length)
}

type blsCodec struct{}

func (blsCodec) shareOff(b []byte) []byte {
	return curve.NewZrFromBytes(b).Plus(curve.NewZrFromInt(1)).Bytes()
}
func (c blsCodec) shareOffY(b []byte) []byte { return c.shareOff(b) }
func (blsCodec) shareAdd(b []byte, d *math.Zr) []byte {
	return curve.ModAdd(curve.NewZrFromBytes(b), d, curve.GroupOrder).Bytes()
}
func (blsCodec) truncShare(b []byte) []byte { return b[:len(b)/2] }
func (blsCodec) otherKey(seed byte) []byte  { return otherG2(seed).Bytes() }
func (blsCodec) shiftKey(b []byte) []byte {
	g, err := curve.NewG2FromBytes(b)
	if err != nil {
		return b
	}
	g.Add(curve.GenG2)
	return g.Bytes()
}
func (blsCodec) notAPoint(b []byte) []byte {
	x := append([]byte(nil), b...)
	for i := range x {
		x[i] = 0xff
	}
	return x
}
func (blsCodec) wrongCount(b []byte, more bool) []byte {
	if more {
		return append(append([]byte(nil), b...), 1, 2, 3)
	}
	return b[:len(b)-1]
}

type psCodec struct{}

func psParse(b []byte) (ps.XYs, bool) {
	var x ps.XYs
	_, err := asn1.Unmarshal(b, &x)
	return x, err == nil
}
func psPack(x ps.XYs) []byte { b, _ := asn1.Marshal(x); return b }

func (psCodec) shareOff(b []byte) []byte {
	x, ok := psParse(b)
	if !ok {
		return b
	}
	x.X = curve.NewZrFromBytes(x.X).Plus(curve.NewZrFromInt(1)).Bytes()
	return psPack(x)
}
func (psCodec) shareAdd(b []byte, d *math.Zr) []byte {
	x, ok := psParse(b)
	if !ok {
		return b
	}
	x.X = curve.ModAdd(curve.NewZrFromBytes(x.X), d, curve.GroupOrder).Bytes()
	for i := range x.Ys {
		x.Ys[i] = curve.ModAdd(curve.NewZrFromBytes(x.Ys[i]), d, curve.GroupOrder).Bytes()
	}
	return psPack(x)
}
func (psCodec) shareOffY(b []byte) []byte {
	x, ok := psParse(b)
	if !ok || len(x.Ys) == 0 {
		return b
	}
	i := len(x.Ys) - 1
	x.Ys[i] = curve.NewZrFromBytes(x.Ys[i]).Plus(curve.NewZrFromInt(1)).Bytes()
	return psPack(x)
}
func (psCodec) truncShare(b []byte) []byte { return b[:len(b)/2] }
func (psCodec) otherKey(seed byte) []byte {
	return psPack(ps.XYs{X: otherG2(seed).Bytes(), Ys: [][]byte{otherG2(seed + 1).Bytes(), otherG2(seed + 2).Bytes()}})
}
func (psCodec) shiftKey(b []byte) []byte {
	x, ok := psParse(b)
	if !ok {
		return b
	}
	g, err := curve.NewG2FromBytes(x.X)
	if err != nil {
		return b
	}
	g.Add(curve.GenG2)
	x.X = g.Bytes()
	return psPack(x)
}
func (psCodec) notAPoint(b []byte) []byte {
	x, ok := psParse(b)
	if !ok {
		return b
	}
	for i := range x.X {
		x.X[i] = 0xff
	}
	return psPack(x)
}
func (psCodec) wrongCount(b []byte, more bool) []byte {
	x, ok := psParse(b)
	if !ok {
		return b
	}
	if more {
		x.Ys = append(x.Ys, x.Ys[0])
	} else {
		x.Ys = x.Ys[:len(x.Ys)-1]
	}
	return psPack(x)
}

// AttackerKey is x*G2 for an x the deviator knows.
var attackerX = curve.HashToZr([]byte("attacker secret"))

func attackerKey() *math.G2 { return curve.GenG2.Mul(attackerX) }

func lagrangeAt0(i int, n int) *math.Zr {
	num := curve.NewZrFromInt(1)
	den := curve.NewZrFromInt(1)
	for j := 1; j <= n; j++ {
		if j == i {
			continue
		}
		num = curve.ModMul(num, curve.NewZrFromInt(int64(j)), curve.GroupOrder)
		d := curve.ModSub(curve.NewZrFromInt(int64(j)), curve.NewZrFromInt(int64(i)), curve.GroupOrder)
		den = curve.ModMul(den, d, curve.GroupOrder)
	}
	den.InvModP(curve.GroupOrder)
	return curve.ModMul(num, den, curve.GroupOrder)
}

// adaptiveKey: pk_dev = (X - sum_{i != dev} lambda_i pk_i) / lambda_dev  (interpolation over all n
// parties, the only subset when t = n). With honest == nil a placeholder key is returned.
func adaptiveKey(k cell, honest map[uint16][]byte) []byte {
	if honest == nil {
		return attackerKey().Bytes()
	}
	acc := attackerKey()
	for id, raw := range honest {
		pk, err := curve.NewG2FromBytes(raw)
		if err != nil {
			return attackerKey().Bytes()
		}
		acc.Sub(pk.Mul(lagrangeAt0(int(id), k.NN)))
	}
	inv := lagrangeAt0(int(k.Dev), k.NN)
	inv.InvModP(curve.GroupOrder)
	return acc.Mul(inv).Bytes()
}

func mpc(tag byte, payload []byte) []byte { return append([]byte{255, tag}, payload...) }

func kind(p *world.Packet) (byte, []byte, bool) {
	if p.Type != 2 || len(p.Data) < 2 || p.Data[0] != 255 {
		return 0, nil, false
	}
	return p.Data[1], p.Data[2:], true
}

func with(p *world.Packet, data []byte) *world.Packet {
	q := *p
	q.Data = data
	return &q
}

var strategies = []string{
	"honest",
	"S1-share-off-polynomial", "S1-share-off-polynomial-last-component",
	"S2-reveal-mismatches-commitment", "S2-reveal-mismatches-commitment-all",
	"S3-split-commitment", "S3-split-commitment-selfack",
	"S4-split-reveal", "S4-split-reveal-selfack",
	"S3S4-split-commit-and-reveal",
	"S5-empty-payload", "S5-one-byte", "S5-truncated-share", "S5-too-few-components-share", "S5-too-many-components-share",
	"S5-too-few-components-key", "S5-too-many-components-key", "S5-reveal-not-a-point", "S5-unknown-tag",
	"S6-duplicate-equal", "S6-duplicate-different",
	"S7-withhold-share", "S7-withhold-commitment", "S7-withhold-reveal",
	"S8-commit-reveal-first", "S8-reveal-before-commit",
	"S10-weak-commitment-empty-adaptive-key", "S10-weak-commitment-prefix-adaptive-key",
	"S9-consistent-key-off-polynomial", "S9-consistent-key-too-few-components", "S9-consistent-key-too-many-components",
	"S9-consistent-key-not-a-point", "S9-consistent-key-truncated", "S9-consistent-key-empty", "S9-consistent-key-one-byte",
	"S9-genuine-key-surplus-component",
	"S11-dealer-polynomial-of-degree-t",
}

// filterFor builds the deviator's output filter.
func filterFor(k cell, cd codec, topicOf func() []byte) func(p *world.Packet) []*world.Packet {
	first := true
	s := k.Strategy
	ackOwn := func(p *world.Packet, payload []byte) *world.Packet {
		// acknowledgement by the deviator about its own message (round = tag)
		d := sha256.Sum256(payload[1:])
		data := append([]byte{payload[1], byte(k.Dev >> 8), byte(k.Dev)}, d[:]...)
		q := *p
		q.Data = data
		return &q
	}
	// S10: the deviator's commitment does not bind (empty / 1-byte prefix of the hash of some key);
	// its reveal is held back until every honest party has revealed, then a key is revealed that
	// makes the joint key (t = n) equal to AttackerKey, whose secret only the deviator knows.
	honestReveal := map[uint16][]byte{}
	var heldReveal []*world.Packet
	return func(p *world.Packet) []*world.Packet {
		if strings.HasPrefix(s, "S10") && k.Backend == "bls" {
			tag, body, ok := kind(p)
			if ok && p.From != k.Dev && tag == tagReveal {
				honestReveal[p.From] = body
				out := []*world.Packet{p}
				if len(honestReveal) == k.NN-1 && heldReveal != nil {
					key := adaptiveKey(k, honestReveal)
					for _, h := range heldReveal {
						out = append(out, with(h, mpc(tagReveal, key)))
					}
					heldReveal = nil
				}
				return out
			}
			if ok && p.From == k.Dev && tag == tagCommit {
				weak := []byte{}
				if strings.Contains(s, "prefix") {
					// the attacker cannot know the hash of its later key: one byte is a guess that is
					// right with probability 1/256 - the strategy only matters if prefixes are accepted
					hh := sha256.Sum256(adaptiveKey(k, nil))
					weak = hh[:1]
				}
				return []*world.Packet{with(p, mpc(tagCommit, weak))}
			}
			if ok && p.From == k.Dev && tag == tagReveal {
				if len(honestReveal) == k.NN-1 {
					return []*world.Packet{with(p, mpc(tagReveal, adaptiveKey(k, honestReveal)))}
				}
				heldReveal = append(heldReveal, p)
				return nil
			}
			return []*world.Packet{p}
		}
		if p.From != k.Dev {
			return []*world.Packet{p}
		}
		tag, body, ok := kind(p)
		victim := isIn(p.To, k.Victims)
		var pre []*world.Packet
		if first && p.Type == 2 && strings.HasPrefix(s, "S8") {
			// out of phase: before anything else of the protocol, commit+reveal (or reveal then commit)
			// of an arbitrary well-formed key goes to everybody
			first = false
			key := cd.otherKey(40)
			h := sha256.Sum256(key)
			for _, to := range ids(k.NN) {
				if to == k.Dev {
					continue
				}
				cm := &world.Packet{From: k.Dev, To: to, Type: 2, Topic: p.Topic, Data: mpc(tagCommit, h[:])}
				rv := &world.Packet{From: k.Dev, To: to, Type: 2, Topic: p.Topic, Data: mpc(tagReveal, key)}
				if s == "S8-reveal-before-commit" {
					pre = append(pre, rv, cm)
				} else {
					pre = append(pre, cm, rv)
				}
			}
		}
		if !ok {
			return append(pre, p)
		}
		out := []*world.Packet{p}
		switch s {
		case "S11-dealer-polynomial-of-degree-t":
			// the deviator deals on a polynomial whose degree is one too high: f'(x) = f(x) +
			// c x^(t-1) (x - dev); its own share and its public key (x = 0) are unchanged, every
			// t+1 parties are consistent with each other, no t-subset determines the secret
			if tag == tagShare {
				x := curve.NewZrFromInt(int64(p.To))
				d := curve.HashToZr([]byte("c05-high-degree"))
				for i := 0; i < k.TT-1; i++ {
					d = curve.ModMul(d, x, curve.GroupOrder)
				}
				d = curve.ModMul(d, curve.ModSub(x, curve.NewZrFromInt(int64(k.Dev)), curve.GroupOrder), curve.GroupOrder)
				out = []*world.Packet{with(p, mpc(tagShare, cd.shareAdd(body, d)))}
			}
		case "S1-share-off-polynomial":
			if tag == tagShare && victim {
				out = []*world.Packet{with(p, mpc(tag, cd.shareOff(body)))}
			}
		case "S1-share-off-polynomial-last-component":
			if tag == tagShare && victim {
				out = []*world.Packet{with(p, mpc(tag, cd.shareOffY(body)))}
			}
		case "S2-reveal-mismatches-commitment":
			if tag == tagReveal && victim {
				out = []*world.Packet{with(p, mpc(tag, cd.otherKey(7)))}
			}
		case "S2-reveal-mismatches-commitment-all":
			if tag == tagReveal {
				out = []*world.Packet{with(p, mpc(tag, cd.otherKey(7)))}
			}
		case "S3-split-commitment", "S3-split-commitment-selfack":
			if tag == tagCommit && victim {
				h := sha256.Sum256(cd.otherKey(9))
				q := with(p, mpc(tag, h[:]))
				out = []*world.Packet{q}
			}
			if tag == tagCommit && s == "S3-split-commitment-selfack" {
				out = append(out, ackOwn(p, out[0].Data))
			}
		case "S4-split-reveal", "S4-split-reveal-selfack":
			if tag == tagReveal && victim {
				out = []*world.Packet{with(p, mpc(tag, cd.otherKey(9)))}
			}
			if tag == tagReveal && s == "S4-split-reveal-selfack" {
				out = append(out, ackOwn(p, out[0].Data))
			}
		case "S3S4-split-commit-and-reveal":
			if victim && tag == tagCommit {
				h := sha256.Sum256(cd.otherKey(9))
				out = []*world.Packet{with(p, mpc(tag, h[:])), ackOwn(p, mpc(tag, h[:]))}
			} else if victim && tag == tagReveal {
				out = []*world.Packet{with(p, mpc(tag, cd.otherKey(9))), ackOwn(p, mpc(tag, cd.otherKey(9)))}
			} else if tag == tagCommit || tag == tagReveal {
				out = append(out, ackOwn(p, p.Data))
			}
		case "S5-empty-payload":
			if victim && tag == tagShare {
				out = []*world.Packet{with(p, []byte{255})}
			}
		case "S5-one-byte":
			if victim {
				out = []*world.Packet{with(p, []byte{255, tag})}
			}
		case "S5-truncated-share":
			if victim && tag == tagShare {
				out = []*world.Packet{with(p, mpc(tag, cd.truncShare(body)))}
			}
		case "S5-too-few-components-share":
			if victim && tag == tagShare {
				out = []*world.Packet{with(p, mpc(tag, cd.wrongCount(body, false)))}
			}
		case "S5-too-many-components-share":
			if victim && tag == tagShare {
				out = []*world.Packet{with(p, mpc(tag, cd.wrongCount(body, true)))}
			}
		case "S5-too-few-components-key":
			if tag == tagReveal {
				out = []*world.Packet{with(p, mpc(tag, cd.wrongCount(body, false)))}
			}
		case "S5-too-many-components-key":
			if tag == tagReveal {
				out = []*world.Packet{with(p, mpc(tag, cd.wrongCount(body, true)))}
			}
		case "S5-reveal-not-a-point":
			if tag == tagReveal {
				out = []*world.Packet{with(p, mpc(tag, cd.notAPoint(body)))}
			}
		case "S5-unknown-tag":
			if victim {
				out = []*world.Packet{with(p, mpc(9, body)), p}
			}
		case "S6-duplicate-equal":
			out = []*world.Packet{p, with(p, p.Data)}
		case "S6-duplicate-different":
			switch tag {
			case tagShare:
				out = []*world.Packet{p, with(p, mpc(tag, cd.shareOff(body)))}
			case tagReveal:
				out = []*world.Packet{p, with(p, mpc(tag, cd.otherKey(11)))}
			default:
				h := sha256.Sum256(cd.otherKey(11))
				out = []*world.Packet{p, with(p, mpc(tag, h[:]))}
			}
		case "S7-withhold-share":
			if victim && tag == tagShare {
				out = nil
			}
		case "S7-withhold-commitment":
			if victim && tag == tagCommit {
				out = nil
			}
		case "S7-withhold-reveal":
			if victim && tag == tagReveal {
				out = nil
			}
		case "S9-consistent-key-off-polynomial", "S9-consistent-key-too-few-components", "S9-consistent-key-too-many-components", "S9-genuine-key-surplus-component":
			// realised by keyShifter (the deviator's backend wrapper), nothing to do on the wire
		}
		return append(pre, out...)
	}
}

type out struct {
	res      map[uint16]*scen.Result
	proxies  map[uint16]*proxy
	trace    []string
	timedOut bool
}

func factory(k cell) (func(id uint16) tss.KeyGenerator, codec) {
	if k.Backend == "ps" {
		return func(id uint16) tss.KeyGenerator {
			return &ps.TPS{Logger: world.NopLogger{}, Party: id, Curve: curve, MessageLength: 1}
		}, psCodec{}
	}
	return blsFactory(), blsCodec{}
}

// directStrategies run on backends wired to each other directly (no orchestrator, no reliable
// broadcast): what the backends' own OnMsg rules ("first value per peer wins") have to guarantee.
var directStrategies = []string{
	"D-honest",
	"D-recommit-after-reveals", "D-recommit-after-reveals-fast",
	"D-duplicate-share-different", "D-duplicate-commit-different", "D-duplicate-reveal-different",
	"D-withhold-share", "D-withhold-commit", "D-withhold-reveal",
}

// runDirect: FIFO delivery between real backend instances; the deviator is a real instance whose
// output passes through the strategy.
func runDirect(c *harness.C, k cell) *out {
	o := &out{res: map[uint16]*scen.Result{}, proxies: map[uint16]*proxy{}}
	rec := c.Bubble(func() {
		members := ids(k.NN)
		mk, cd := factory(k)
		type dpkt struct {
			from, to uint16
			msg      []byte
			bc       bool
		}
		var mu, pmu sync.Mutex
		var q []dpkt
		inst := map[uint16]tss.KeyGenerator{}
		honestReveal := map[uint16][]byte{}
		push := func(front bool, from uint16, msg []byte, bc bool, to uint16) {
			var add []dpkt
			for _, dst := range members {
				if dst == from || (!bc && dst != to) {
					continue
				}
				add = append(add, dpkt{from, dst, append([]byte(nil), msg...), bc})
			}
			if front {
				q = append(add, q...)
			} else {
				q = append(q, add...)
			}
		}
		s := k.Strategy
		for _, id := range members {
			id := id
			var kg tss.KeyGenerator = mk(id)
			if id != k.Dev {
				p := &proxy{KeyGenerator: kg, node: id, mu: &pmu, got: map[uint16]map[byte]int{}, commitsAtReveal: -1}
				o.proxies[id] = p
				kg = p
			}
			inst[id] = kg
			kg.Init(members, k.TT, func(msg []byte, bc bool, to uint16) {
				mu.Lock()
				defer mu.Unlock()
				if len(msg) == 0 {
					push(false, id, msg, bc, to)
					return
				}
				tag, body := msg[0], msg[1:]
				if id == k.Dev {
					switch {
					case strings.HasPrefix(s, "D-recommit") && tag == tagReveal:
						return // replaced by a reveal that is chosen after the honest reveals
					case s == "D-withhold-share" && tag == tagShare, s == "D-withhold-commit" && tag == tagCommit, s == "D-withhold-reveal" && tag == tagReveal:
						return // never sent: the honest parties must give up with an error at their deadline
					case s == "D-duplicate-share-different" && tag == tagShare:
						push(false, id, msg, bc, to)
						push(false, id, append([]byte{tagShare}, cd.shareOff(body)...), bc, to)
						return
					case s == "D-duplicate-commit-different" && tag == tagCommit:
						push(false, id, msg, bc, to)
						h := sha256.Sum256(cd.otherKey(41))
						push(false, id, append([]byte{tagCommit}, h[:]...), bc, to)
						return
					case s == "D-duplicate-reveal-different" && tag == tagReveal:
						push(false, id, msg, bc, to)
						push(false, id, append([]byte{tagReveal}, cd.otherKey(41)...), bc, to)
						return
					}
					push(false, id, msg, bc, to)
					return
				}
				push(false, id, msg, bc, to)
				if strings.HasPrefix(s, "D-recommit") && tag == tagReveal {
					honestReveal[id] = append([]byte(nil), body...)
					if len(honestReveal) == k.NN-1 {
						key := cd.otherKey(41)
						if k.Backend == "bls" && k.TT == k.NN {
							key = adaptiveKey(k, honestReveal)
						}
						h := sha256.Sum256(key)
						front := strings.HasSuffix(s, "-fast")
						if front {
							push(true, k.Dev, append([]byte{tagReveal}, key...), true, 0)
							push(true, k.Dev, append([]byte{tagCommit}, h[:]...), true, 0)
						} else {
							push(false, k.Dev, append([]byte{tagCommit}, h[:]...), true, 0)
							push(false, k.Dev, append([]byte{tagReveal}, key...), true, 0)
						}
					}
				}
			})
		}
		var rmu sync.Mutex
		returned := 0
		for _, id := range members {
			id := id
			go func() {
				ctx, cancel := context.WithTimeout(context.Background(), deadline)
				defer cancel()
				data, err := inst[id].KeyGen(ctx)
				rmu.Lock()
				o.res[id] = &scen.Result{Node: id, Data: data, Err: err, Returned: true}
				returned++
				rmu.Unlock()
			}()
		}
		for steps := 0; steps < 10000; steps++ {
			synctest.Wait()
			mu.Lock()
			var p *dpkt
			if len(q) > 0 {
				x := q[0]
				q = q[1:]
				p = &x
			}
			mu.Unlock()
			if p == nil {
				rmu.Lock()
				all := returned == len(members)
				rmu.Unlock()
				if all {
					break
				}
				time.Sleep(200 * time.Millisecond)
				continue
			}
			o.trace = append(o.trace, fmt.Sprintf("%d>%d %d", p.from, p.to, func() int {
				if len(p.msg) > 0 {
					return int(p.msg[0])
				}
				return -1
			}()))
			inst[p.to].OnMsg(p.msg, p.from, p.bc)
		}
		synctest.Wait()
	})
	if rec != nil && !harness.IsLeakPanic(rec) {
		panic(rec)
	}
	return o
}

func run(c *harness.C, k cell, r world.Chooser) *out {
	if strings.HasPrefix(k.Strategy, "D-") {
		return runDirect(c, k)
	}
	o := &out{res: map[uint16]*scen.Result{}, proxies: map[uint16]*proxy{}}
	rec := c.Bubble(func() {
		members := ids(k.NN)
		w := world.New(members)
		mk, cd := factory(k)
		var mu sync.Mutex
		st := &scen.Stack{Mode: "loud", Threshold: k.TT - 1, Membership: scen.Identity(members)}
		st.KGF = func(id uint16) tss.KeyGenerator {
			inner := mk(id)
			if id == k.Dev {
				if k.Strategy == "S9-genuine-key-surplus-component" {
					// the deviator's own, correct key with one component too many, committed to in
					// that very form
					return &keyShifter{KeyGenerator: inner, pad: func(b []byte) []byte { return cd.wrongCount(b, true) }}
				}
				if strings.HasPrefix(k.Strategy, "S9") {
					key := cd.otherKey(33)
					switch {
					case strings.Contains(k.Strategy, "too-few"):
						key = cd.wrongCount(key, false)
					case strings.Contains(k.Strategy, "too-many"):
						key = cd.wrongCount(key, true)
					case strings.Contains(k.Strategy, "not-a-point"):
						key = cd.notAPoint(key)
					case strings.Contains(k.Strategy, "truncated"):
						key = key[:len(key)/2]
					case strings.Contains(k.Strategy, "empty"):
						key = []byte{}
					case strings.Contains(k.Strategy, "one-byte"):
						key = []byte{4}
					}
					return &keyShifter{KeyGenerator: inner, key: key}
				}
				return inner
			}
			p := &proxy{KeyGenerator: inner, node: id, mu: &mu, got: map[uint16]map[byte]int{}, commitsAtReveal: -1}
			o.proxies[id] = p
			return p
		}
		for _, id := range members {
			st.Build(w, id)
		}
		w.Net.Filter = filterFor(k, cd, nil)
		rs := scen.NewResults()
		for _, id := range members {
			scen.StartKeyGen(w, w.Parties[id], rs, fmt.Sprint(id), k.NN, k.TT, deadline)
		}
		o.timedOut = w.Loop(r, deadline+400*time.Millisecond)
		for _, id := range members {
			o.res[id] = rs.Get(fmt.Sprint(id))
		}
		w.Advance(10 * time.Second)
		o.trace = w.Trace
		w.Stop()
	})
	if rec != nil && !harness.IsLeakPanic(rec) {
		panic(rec)
	}
	return o
}

// keyShifter realises S9: the deviator's commitment and reveal are held back until the reveal is
// known; then H(pk') and pk' (pk' = pk + G2) are sent in order. Since the honest parties wait for
// all commitments before revealing, the deviator learns nothing it should not: it simply delays
// its own commitment until it has its key, which it has at commit time anyway (the real instance
// computes pk before committing) - so the wrapper captures pk from the instance's reveal by
// running the instance's sendMsg through a buffer.
type keyShifter struct {
	tss.KeyGenerator
	key []byte
	// pad, if set: the instance's own commitment is withheld until the instance reveals its key
	// (which it does as soon as it holds the others' commitments - it does not need its own to be
	// out); then the commitment to pad(key) and pad(key) itself are sent, in this order
	pad func([]byte) []byte
}

func (s *keyShifter) Init(parties []uint16, threshold int, sendMsg func(msg []byte, isBroadcast bool, to uint16)) {
	s.KeyGenerator.Init(parties, threshold, func(msg []byte, isBroadcast bool, to uint16) {
		// the instance's commitment H(pk) cannot be shifted without pk; but pk' only has to be
		// consistent: commit to H(shift(pk)) requires pk. The real instance reveals right after all
		// commitments arrived, so we convert in two steps: at commit time send H(pk') where pk' is
		// computed from the instance's public key - obtained by asking the instance to reveal
		// early is not possible. Therefore use a fixed unrelated key as pk' (it matches its
		// commitment, and is off the common polynomial): same effect for the honest parties.
		if s.pad != nil && len(msg) > 0 && msg[0] == tagCommit {
			return
		}
		if s.pad != nil && len(msg) > 0 && msg[0] == tagReveal {
			key := s.pad(msg[1:])
			h := sha256.Sum256(key)
			sendMsg(append([]byte{tagCommit}, h[:]...), isBroadcast, to)
			sendMsg(append([]byte{tagReveal}, key...), isBroadcast, to)
			return
		}
		if len(msg) > 0 && msg[0] == tagCommit {
			h := sha256.Sum256(s.key)
			sendMsg(append([]byte{tagCommit}, h[:]...), isBroadcast, to)
			return
		}
		if len(msg) > 0 && msg[0] == tagReveal {
			sendMsg(append([]byte{tagReveal}, s.key...), isBroadcast, to)
			return
		}
		sendMsg(msg, isBroadcast, to)
	})
}

func honestOf(k cell) []uint16 {
	var hs []uint16
	for _, id := range ids(k.NN) {
		if id != k.Dev {
			hs = append(hs, id)
		}
	}
	return hs
}

func stratClass(s string) string { return strings.SplitN(s, "-", 2)[0] }

func oracle(c *harness.C, k cell, o *out) string {
	what := k.id()
	cls := fmt.Sprintf("%s/%s", k.Backend, k.Strategy)
	bad := func(clause, sig, detail string) {
		c.Violation(clause, sig+":"+cls, what+": "+detail, k)
	}
	var done []uint16
	for _, id := range honestOf(k) {
		r := o.res[id]
		if r == nil || !r.Returned {
			bad("returns-by-deadline", "c05-keygen-never-returns", fmt.Sprintf("honest party %d did not return by the deadline", id))
			continue
		}
		if r.Err == nil {
			done = append(done, id)
		}
		// reveal only after all commitments (also on the timeout path)
		if p := o.proxies[id]; p != nil && p.commitsAtReveal >= 0 && p.commitsAtReveal < k.NN-1 {
			bad("reveal-after-all-commitments", "c05-early-reveal", fmt.Sprintf("honest party %d sent its public key holding only %d of %d commitments", id, p.commitsAtReveal, k.NN-1))
		}
	}
	outcome := fmt.Sprintf("completed=%v", done)
	if strings.HasPrefix(k.Strategy, "D-recommit") && len(done) > 0 {
		bad("commitment-binds", "c05-replaced-commitment-accepted", fmt.Sprintf("honest parties %v completed although the deviator replaced its commitment after it had seen every honest public key and revealed a key that matches only the replacement (first value per peer must win)", done))
	}
	if (k.Strategy == "honest" || k.Strategy == "D-honest") && len(done) != k.NN-1 {
		bad("control", "c05-honest-control-fails", "with an honest 'deviator' not every party completed")
	}
	if len(done) > 0 && len(done) < len(honestOf(k)) {
		// "they all complete consistently or they return an error": with one deviating participant
		// the honest parties stand or fall together (reliable broadcast needs a voucher from every
		// other honest party before anybody is handed a broadcast-class message, and every honest
		// party waits for everybody's commitment and key) - the deviator does not get to choose who
		// ends up holding a share
		c.Add("partial_completions", 1)
		bad("all-complete-or-all-fail", "c05-partial-completion", fmt.Sprintf("honest parties %v completed, the other honest parties returned an error", done))
	}
	if len(done) == 0 {
		return outcome
	}
	members := ids(k.NN)
	if k.Backend == "bls" {
		if suffix, stop := blsOracle(k, o, done, members, outcome, bad); stop {
			return outcome + suffix
		}
	} else {
		var pk0 []byte
		signers := map[uint16]*ps.TPS{}
		for _, id := range done {
			sg := &ps.TPS{Logger: world.NopLogger{}, Party: id, Curve: curve, MessageLength: 1}
			sg.Init(members, k.TT, nil)
			if err := sg.SetShareData(o.res[id].Data); err != nil {
				bad("share-usable", "c05-share-unusable", err.Error())
				return outcome
			}
			pk, err := sg.ThresholdPK()
			if err != nil {
				bad("share-usable", "c05-pk-error", err.Error())
				return outcome
			}
			if pk0 == nil {
				pk0 = pk
			} else if !bytes.Equal(pk, pk0) {
				bad("identical-public-material", "c05-public-material-differs", fmt.Sprintf("honest parties %v completed with differing public material", done))
				return outcome + " split"
			}
			signers[id] = sg
		}
		if len(done) >= k.TT {
			for _, sub := range subsetsOfSize(done, k.TT) {
				if err := psProve(pk0, members, signers, sub); err != nil {
					bad("honest-shares-sign", "c05-poisoned-key", fmt.Sprintf("honest parties %v completed but the shares of %v do not yield a proof that verifies under the reported key: %v", done, sub, err))
					return outcome + " poisoned"
				}
			}
		}
	}
	return outcome
}

func psProve(tpk []byte, members []uint16, signers map[uint16]*ps.TPS, sub []uint16) (err error) {
	defer func() {
		if r := recover(); r != nil {
			err = fmt.Errorf("panic: %v", r)
		}
	}()
	var pr ps.Prover
	pr.Logger = world.NopLogger{}
	if err := pr.Init(curve, 1, tpk, members); err != nil {
		return err
	}
	req, secret := pr.Blind([][]byte{[]byte("m")})
	var ws []ps.SignatureWitness
	for _, id := range sub {
		sig, err := signers[id].Sign(context.Background(), req.Bytes())
		if err != nil {
			return fmt.Errorf("signer %d: %v", id, err)
		}
		w, err := pr.UnBlind(id, sig, &secret)
		if err != nil {
			return fmt.Errorf("unblind %d: %v", id, err)
		}
		ws = append(ws, w)
	}
	pok := pr.ProveKnowledgeOfSignature(&secret, sub, ws)
	var v ps.Verifier
	if err := v.Init(curve, 1, tpk); err != nil {
		return err
	}
	return v.Verify(pok.Bytes())
}

func subsetsOfSize(l []uint16, k int) [][]uint16 {
	var out [][]uint16
	for m := 0; m < 1<<len(l); m++ {
		var s []uint16
		for i := range l {
			if m>>i&1 == 1 {
				s = append(s, l[i])
			}
		}
		if len(s) == k {
			out = append(out, s)
		}
	}
	return out
}

func nonEmptySubsets(l []uint16) [][]uint16 {
	var out [][]uint16
	for m := 1; m < 1<<len(l); m++ {
		var s []uint16
		for i := range l {
			if m>>i&1 == 1 {
				s = append(s, l[i])
			}
		}
		out = append(out, s)
	}
	return out
}

func runCell(c *harness.C, k cell, bound int) {
	var last *out
	e := &explore.Explorer{Stop: c.Expired}
	e.Run = func(r *explore.Recorder) {
		c.Exec(fmt.Sprintf("[%s/%s] %s %v", k.Backend, k.Strategy, k.id(), r.Prefix))
		last = run(c, k, r)
	}
	e.Visit = func(r *explore.Recorder) {
		c.Add("executions", 1)
		c.Add("transitions", len(last.trace))
		kk := k
		kk.Choices = explore.Trim(r.Choices())
		if malformedOnly {
			// C10's slice of this exploration: malformed but consistently committed material must
			// not crash a party (crashes are attributed by the driver) nor make KeyGen hang
			for _, id := range honestOf(kk) {
				if r := last.res[id]; r == nil || !r.Returned {
					c.Violation("no-hang", "c10-keygen-hangs-on-malformed-dkg-material:"+kk.Backend+"/"+kk.Strategy, fmt.Sprintf("%s: honest party %d did not return by the deadline", kk.id(), id), kk)
				}
			}
			c.Outcome(k.id())
			return
		}
		oc := oracle(c, kk, last)
		if c.Outcome(k.id() + "|" + oc + "|" + fmt.Sprint(len(last.trace))) {
			c.Sample("c05", map[string]interface{}{"cell": k.id(), "choices": kk.Choices, "outcome": oc, "steps": len(last.trace)})
		}
		hist := map[string][]string{}
		for _, t := range last.trace {
			if i := strings.Index(t, ">"); i > 0 {
				to := strings.SplitN(t[i+1:], " ", 2)[0]
				hist[to] = append(hist[to], t)
				c.State(k.id() + "|" + to + "|" + strings.Join(hist[to], ";"))
			}
		}
	}
	if len(k.Choices) > 0 {
		e.Explore(k.Choices, nil, 0)
		return
	}
	e.Explore(nil, nil, bound)
}

var malformedOnly = os.Getenv("VERIF_FAMILY") == "malformed"

func gen(c *harness.C) []harness.Case {
	if malformedOnly {
		if p := os.Getenv("VERIF_PROP"); p != "" {
			c.Property = p
		}
	}
	c.Note("rule", "cells = backend (BLS, PS) x (n,t) incl. t=n x position of the deviating participant x strategy from the catalogue ("+strings.Join(strategies, ", ")+") x victim set (every non-empty subset of the honest parties); the deviator is a real instance behind an output filter; default schedule per cell (+ all <=1-deviation schedules where stated); distinct_nontrivial = distinct (cell, outcome, step count)")
	if r := c.Replay; r != nil {
		var rk struct {
			Rekey   bool   `json:"rekey"`
			Backend string `json:"backend"`
			N, T    int
		}
		if json.Unmarshal(r, &rk) == nil && rk.Rekey {
			cs := rekeyRevealCase(rk.Backend, rk.N, rk.T)
			cs.ID = os.Getenv("VERIF_ONLY")
			return []harness.Case{cs}
		}
		var k cell
		if json.Unmarshal(r, &k) == nil {
			return []harness.Case{{ID: os.Getenv("VERIF_ONLY"), Run: func(c *harness.C) { runCell(c, k, 0) }}}
		}
	}
	type nt struct{ n, t int }
	cfgs := map[string][]nt{"bls": {{3, 2}, {3, 3}, {4, 3}, {4, 2}, {5, 3}}, "ps": {{3, 2}, {3, 3}}}
	if c.Thorough() {
		cfgs = map[string][]nt{"bls": {{3, 2}, {3, 3}, {4, 2}, {4, 3}, {4, 4}, {5, 3}}, "ps": {{3, 2}, {3, 3}, {4, 3}}}
	}
	var cases []harness.Case
	for _, be := range backendsLinked {
		for _, x := range cfgs[be] {
			for _, dev := range ids(x.n) {
				if !c.Thorough() && x.n == 4 && dev != 2 {
					continue
				}
				base := cell{Backend: be, NN: x.n, TT: x.t, Dev: dev}
				onlyS11 := !c.Thorough() && (x.n == 4 && x.t == 2 || x.n == 5)
				for _, s := range directStrategies {
					if onlyS11 || malformedOnly {
						break
					}
					k := base
					k.Strategy, k.Victims = s, honestOf(base)
					cases = append(cases, harness.Case{ID: k.id(), Run: func(c *harness.C) { runCell(c, k, 0) }})
				}
				for _, s := range strategies {
					if onlyS11 && !strings.HasPrefix(s, "S11") && s != "honest" {
						continue
					}
					if malformedOnly && !(strings.HasPrefix(s, "S5") || strings.HasPrefix(s, "S9-consistent-key-") && !strings.Contains(s, "off-polynomial")) {
						continue
					}
					vs := nonEmptySubsets(honestOf(base))
					if strings.HasPrefix(s, "S10") && (be != "bls" || x.t != x.n) {
						continue
					}
					if strings.HasPrefix(s, "S11") && x.t > x.n-2 {
						continue // with t >= n-1 the polynomial of degree t is not determined by the honest parties
					}
					if s == "honest" || strings.HasPrefix(s, "S11") || strings.HasPrefix(s, "S10") || strings.HasSuffix(s, "-all") || strings.HasPrefix(s, "S6") || strings.HasPrefix(s, "S8") || strings.HasPrefix(s, "S9") || strings.Contains(s, "-key") || s == "S5-reveal-not-a-point" {
						vs = vs[len(vs)-1:] // victim set irrelevant: everybody
					}
					for _, v := range vs {
						k := base
						k.Strategy, k.Victims = s, v
						bound := 0
						if x.n == 3 && be == "bls" && (c.Thorough() || x.t == 2 && dev == 2) {
							bound = 1
						}
						cases = append(cases, harness.Case{ID: k.id(), Run: func(c *harness.C) { runCell(c, k, bound) }})
					}
				}
			}
		}
	}
	if !malformedOnly {
		for _, be := range backendsLinked {
			cases = append(cases, rekeyRevealCase(be, 3, 2), rekeyRevealCase(be, 3, 3))
		}
	}
	sort.SliceStable(cases, func(i, j int) bool { return false })
	return cases
}

func TestCheck(t *testing.T) { harness.Main(t, "C05", gen) }
