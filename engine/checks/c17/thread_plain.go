//go:build !verifoverlay

package c17

import "verif/harness"

func threadCases(c *harness.C) []harness.Case { return nil }
