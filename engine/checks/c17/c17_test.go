package c17

import (
	"bytes"
	"crypto/ecdsa"
	"crypto/tls"
	"encoding/binary"
	"errors"
	"fmt"
	"os"
	"strings"
	"sync"
	"testing"
	"testing/synctest"
	"time"

	comm "github.com/IBM/TSS/net"
	"github.com/IBM/TSS/testutil/tlsgen"
	"verif/harness"
	"verif/netlib"
	"verif/world"
)

const maxBuff = 1024 * 1024 * 20

type node struct {
	id   int
	pair *tlsgen.CertKeyPair
	lis  *netlib.Listener
	col  *netlib.Collector
	stop func()
	send comm.SocketRemoteParties
	raws []*netlib.Conn // server-side raw streams of accepted connections
	rmu  sync.Mutex
}

type net3 struct {
	pki    *netlib.PKI
	nodes  map[int]*node
	closed chan struct{} // closed at the end: dialing then blocks for good (the library's connect loop never ends)
	never  chan struct{}
	isDown bool
	dmu    sync.Mutex
}

func newNet(n int, clone bool) *net3 {
	pki, err := netlib.NewPKI(time.Time{})
	if err != nil {
		panic(err)
	}
	w := &net3{pki: pki, nodes: map[int]*node{}, never: make(chan struct{})}
	p2id := map[string]uint16{}
	for i := 1; i <= n; i++ {
		pair, _ := pki.CA.NewClientCertKeyPair()
		nd := &node{id: i, pair: pair, col: &netlib.Collector{}}
		nd.lis = netlib.NewListener(pki.ServerConfig())
		nd.lis.OnAccept = func(raw *netlib.Conn) {
			nd.rmu.Lock()
			nd.raws = append(nd.raws, raw)
			nd.rmu.Unlock()
		}
		w.nodes[i] = nd
		p2id[netlib.LookupKey("", pair.Cert)] = uint16(i)
	}
	installDial(func(network, addr string, cfg *tls.Config) (*tls.Conn, error) {
		w.dmu.Lock()
		down := w.isDown
		w.dmu.Unlock()
		if down {
			<-w.never // durably blocked: lets the bubble end
		}
		var id int
		fmt.Sscanf(addr, "node-%d", &id)
		nd := w.nodes[id]
		if nd == nil {
			return nil, errors.New("no such host")
		}
		raw, err := nd.lis.DialRaw(addr)
		if err != nil {
			return nil, err
		}
		c := cfg.Clone()
		c.ServerName = "mem"
		conn := tls.Client(raw, c)
		if err := conn.Handshake(); err != nil {
			return nil, err
		}
		return conn, nil
	})
	for i := 1; i <= n; i++ {
		nd := w.nodes[i]
		in, stop := comm.ServiceConnections(nd.lis, p2id, world.NopLogger{})
		nd.stop = stop
		go nd.col.Run(in)
		rps := comm.SocketRemoteParties{}
		for j := 1; j <= n; j++ {
			if j == i {
				continue
			}
			key := nd.pair.Signer.(*ecdsa.PrivateKey)
			cert := nd.pair.Cert
			rps[j] = comm.NewSocketRemoteParty(comm.PartyConnectionConfig{
				AuthFunc: func(binding []byte) comm.Handshake {
					h := comm.Handshake{TLSBinding: binding, Identity: cert, Timestamp: time.Now().Unix()}
					netlib.SignHandshake(&h, key)
					return h
				}, Id: j, Endpoint: fmt.Sprintf("node-%d", j), TlsCAs: pki.Pool}, world.NopLogger{})
		}
		if clone {
			// Clone() drops the authentication function: keep the originals for the first dial
			nd.send = rps
		} else {
			nd.send = rps
		}
	}
	return w
}

func (w *net3) close() {
	w.dmu.Lock()
	w.isDown = true
	w.dmu.Unlock()
	for _, nd := range w.nodes {
		nd.stop()
		nd.rmu.Lock()
		for _, r := range nd.raws {
			r.Close()
		}
		nd.rmu.Unlock()
	}
}

func topic32(s string) []byte { b := make([]byte, 32); copy(b, s); return b }

type sent struct {
	typ   uint8
	topic []byte
	data  []byte
}

func payload(n int, tag byte) []byte {
	b := make([]byte, n)
	for i := range b {
		b[i] = tag + byte(i*7)
	}
	if n >= 4 {
		binary.LittleEndian.PutUint32(b, uint32(n))
	}
	return b
}

func bubble(c *harness.C, f func()) {
	rec := c.Bubble(f)
	if rec != nil && !harness.IsLeakPanic(rec) {
		panic(rec)
	}
}

func settle(d time.Duration) {
	synctest.Wait()
	time.Sleep(d)
	synctest.Wait()
}

// compare what node `to` received from `from` with what was sent.
func compare(c *harness.C, what string, got []comm.InMsg, from int, want []sent, rp interface{}) {
	var mine []comm.InMsg
	for _, m := range got {
		if int(m.From) == from {
			mine = append(mine, m)
		}
	}
	if len(mine) != len(want) {
		c.Violation("exactly-once", "c17-count:"+strings.SplitN(what, " ", 2)[0], fmt.Sprintf("%s: %d messages sent, %d received", what, len(want), len(mine)), rp)
		return
	}
	for i := range want {
		if mine[i].Type != want[i].typ || !bytes.Equal(mine[i].Topic, want[i].topic) || !bytes.Equal(mine[i].Data, want[i].data) {
			c.Violation("unmodified-in-order", "c17-mismatch:"+strings.SplitN(what, " ", 2)[0], fmt.Sprintf("%s: message %d differs (type %d/%d, topic equal %v, payload %d/%d bytes equal %v)", what, i, mine[i].Type, want[i].typ, bytes.Equal(mine[i].Topic, want[i].topic), len(mine[i].Data), len(want[i].data), bytes.Equal(mine[i].Data, want[i].data)), rp)
			return
		}
	}
}

func framingCase(thorough bool) harness.Case {
	return harness.Case{ID: "framing/lengths-x-types", Run: func(c *harness.C) {
		lengths := []int{0, 1, 2, 31, 32, 33, 255, 256, 65535, 65536, 1 << 20}
		if thorough {
			lengths = append(lengths, maxBuff-1, maxBuff)
		} else {
			lengths = append(lengths, maxBuff)
		}
		combos := []struct {
			typ   uint8
			topic []byte
		}{{1, topic32("t-one")}, {2, topic32("t-two")}, {0, nil}, {3, nil}, {255, nil}}
		for _, cb := range combos {
			cb := cb
			c.Exec(fmt.Sprintf("[framing] type %d", cb.typ))
			bubble(c, func() {
				w := newNet(2, false)
				var want []sent
				for i, l := range lengths {
					s := sent{cb.typ, cb.topic, payload(l, byte(i))}
					want = append(want, s)
					w.nodes[1].send.Send(s.typ, s.topic, s.data, 2)
					c.Add("evaluations", 1)
				}
				settle(3 * time.Second)
				compare(c, fmt.Sprintf("framing type=%d topic=%d", cb.typ, len(cb.topic)), w.nodes[2].col.Snapshot(), 1, want, map[string]interface{}{"type": cb.typ})
				w.close()
			})
			c.Add("executions", 1)
			c.Outcome(fmt.Sprintf("framing|%d", cb.typ))
		}
		c.Sample("framing", map[string]interface{}{"lengths": lengths, "combos": "(1,32B) (2,32B) (0,-) (3,-) (255,-)"})
	}}
}

// oversized: a hand-made client announces more than the limit
func oversizedCase() harness.Case {
	return harness.Case{ID: "framing/oversized", Run: func(c *harness.C) {
		lens := []uint32{maxBuff + 1, 1 << 31, 1<<32 - 1}
		if os.Getenv("VERIF_FAMILY") == "oversized" {
			lens = []uint32{maxBuff + 1, 2 * maxBuff, 1<<31 - 1, 1 << 31, 1<<31 + 1, 3 << 30, 1<<32 - 2, 1<<32 - 1}
		}
		for _, announce := range lens {
			announce := announce
			c.Exec(fmt.Sprintf("[oversized] %d", announce))
			bubble(c, func() {
				w := newNet(2, false)
				raw, _ := w.nodes[2].lis.DialRaw("attacker")
				conn := tls.Client(raw, w.pki.ClientConfig())
				if err := conn.Handshake(); err != nil {
					panic(err)
				}
				b, _ := netlib.Binding(conn)
				h := comm.Handshake{TLSBinding: b, Identity: w.nodes[1].pair.Cert, Timestamp: time.Now().Unix()}
				netlib.SignHandshake(&h, w.nodes[1].pair.Signer.(*ecdsa.PrivateKey))
				conn.Write(netlib.FrameHandshake(h.Bytes()))
				conn.Write(netlib.Frame(0, nil, []byte("before")))
				hdr := []byte{0, 0, 0, 0, 0}
				binary.LittleEndian.PutUint32(hdr[1:], announce)
				conn.Write(hdr)
				conn.Write(bytes.Repeat([]byte{1}, 4096))
				settle(2 * time.Second)
				conn.Write(netlib.Frame(0, nil, []byte("after")))
				settle(2 * time.Second)
				got := w.nodes[2].col.Snapshot()
				c.Add("evaluations", 1)
				if dialSeam {
					// the receiver still serves its healthy peer after it dropped the offender
					w.nodes[1].send.Send(2, topic32("live"), []byte("healthy"), 2)
					settle(5 * time.Second)
					all := w.nodes[2].col.Snapshot()
					okHealthy := false
					for _, m := range all[min(len(got), len(all)):] {
						if string(m.Data) == "healthy" && m.From == 1 {
							okHealthy = true
						}
					}
					if !okHealthy {
						c.Violation("failing-peer-isolated", strings.ToLower(propName())+"-receiver-dead-after-broken-connection", fmt.Sprintf("after a connection announced %d bytes and was dropped, the receiver no longer delivered a healthy peer's message", announce), map[string]interface{}{"announce": announce})
					}
				}
				if len(got) != 1 || string(got[0].Data) != "before" {
					var ds []string
					for _, m := range got {
						ds = append(ds, fmt.Sprintf("%d bytes", len(m.Data)))
					}
					c.Violation("oversized-refused", strings.ToLower(propName())+"-oversized-frame-accepted", fmt.Sprintf("a frame announcing %d bytes: received %v (expected only the frame before it, and the connection closed)", announce, ds), map[string]interface{}{"announce": announce})
				}
				conn.Close()
				w.close()
			})
			c.Add("executions", 1)
			c.Outcome(fmt.Sprintf("oversized|%d", announce))
		}
	}}
}

// truncatedCase: an authenticated peer announces N bytes, sends fewer and ends its stream (cleanly, at
// a record boundary, or by just closing). Nothing of the unfinished frame may be delivered - neither
// the partial bytes nor an empty message -, and the receiver keeps serving its other peer.
func truncatedCase() harness.Case {
	return harness.Case{ID: "framing/truncated-then-closed", Run: func(c *harness.C) {
		type tr struct {
			announce, sent int
			topic          bool
		}
		var trs []tr
		for _, a := range []int{1, 10, 1000, 70000} {
			for _, sn := range []int{0, 1, a / 2, a - 1} {
				if sn < a && sn >= 0 {
					trs = append(trs, tr{a, sn, false}, tr{a, sn, true})
				}
			}
		}
		for _, x := range trs {
			x := x
			c.Exec(fmt.Sprintf("[truncated] announce %d send %d topic=%v", x.announce, x.sent, x.topic))
			bubble(c, func() {
				w := newNet(3, false)
				raw, _ := w.nodes[2].lis.DialRaw("truncating-peer")
				conn := tls.Client(raw, w.pki.ClientConfig())
				if err := conn.Handshake(); err != nil {
					panic(err)
				}
				b, _ := netlib.Binding(conn)
				h := comm.Handshake{TLSBinding: b, Identity: w.nodes[1].pair.Cert, Timestamp: time.Now().Unix()}
				netlib.SignHandshake(&h, w.nodes[1].pair.Signer.(*ecdsa.PrivateKey))
				conn.Write(netlib.FrameHandshake(h.Bytes()))
				conn.Write(netlib.Frame(0, nil, []byte("before")))
				var full []byte
				if x.topic {
					full = netlib.Frame(2, topic32("t"), bytes.Repeat([]byte{7}, x.announce))
				} else {
					full = netlib.Frame(0, nil, bytes.Repeat([]byte{7}, x.announce))
				}
				conn.Write(full[:len(full)-x.announce+x.sent])
				settle(time.Second)
				conn.Close() // TLS close_notify: a clean end of stream in the middle of a frame
				settle(2 * time.Second)
				// the receiver still serves another peer afterwards
				s := sent{2, topic32("live"), []byte("after-from-3")}
				w.nodes[3].send.Send(s.typ, s.topic, s.data, 2)
				settle(5 * time.Second)
				got := w.nodes[2].col.Snapshot()
				c.Add("evaluations", 1)
				var ds []string
				okBefore, okAfter, extra := false, false, false
				for _, m := range got {
					ds = append(ds, fmt.Sprintf("from %d type %d %d bytes", m.From, m.Type, len(m.Data)))
					switch {
					case m.From == 1 && string(m.Data) == "before":
						okBefore = true
					case m.From == 3 && string(m.Data) == "after-from-3":
						okAfter = true
					default:
						extra = true
					}
				}
				rp := map[string]interface{}{"announce": x.announce, "sent": x.sent, "topic": x.topic}
				if extra || !okBefore {
					c.Violation("truncated-frame-not-delivered", "c17-truncated-frame-delivered", fmt.Sprintf("a frame announcing %d bytes of which %d were sent before the stream ended: received %v (expected the frame before it and nothing of the unfinished one)", x.announce, x.sent, ds), rp)
				}
				if !okAfter {
					c.Violation("failing-peer-isolated", "c17-receiver-dead-after-broken-connection", fmt.Sprintf("after a peer's stream ended in the middle of a frame the receiver no longer delivered another peer's message (received %v)", ds), rp)
				}
				w.close()
			})
			c.Add("executions", 1)
			c.Outcome(fmt.Sprintf("truncated|%d|%d|%v", x.announce, x.sent, x.topic))
		}
	}}
}

// merges enumerates all interleavings of per-goroutine sequences.
func merges(counts []int) [][]int {
	var out [][]int
	var rec func(cur []int, left []int)
	rec = func(cur []int, left []int) {
		done := true
		for g, l := range left {
			if l > 0 {
				done = false
				nl := append([]int(nil), left...)
				nl[g]--
				rec(append(append([]int(nil), cur...), g), nl)
			}
		}
		if done {
			out = append(out, cur)
		}
	}
	rec(nil, counts)
	return out
}

func concurrentCase(counts []int, shard, shards int) harness.Case {
	return harness.Case{ID: fmt.Sprintf("concurrent/%v/shard%d", counts, shard), Run: func(c *harness.C) {
		ms := merges(counts)
		for mi, order := range ms {
			if mi%shards != shard {
				continue
			}
			if c.Expired() {
				return
			}
			order := order
			c.Exec(fmt.Sprintf("[concurrent] %v order %v", counts, order))
			bubble(c, func() {
				w := newNet(3, false)
				gates := make([]chan struct{}, len(counts))
				var wg sync.WaitGroup
				var mu sync.Mutex
				var want2, want3 []sent
				for g := range counts {
					g := g
					gates[g] = make(chan struct{})
					wg.Add(1)
					go func() {
						defer wg.Done()
						for k := 0; k < counts[g]; k++ {
							<-gates[g]
							s := sent{2, topic32(fmt.Sprintf("g%d", g)), []byte(fmt.Sprintf("g%d-m%d", g, k))}
							mu.Lock()
							want2 = append(want2, s)
							want3 = append(want3, s)
							mu.Unlock()
							w.nodes[1].send.Send(s.typ, s.topic, s.data, 2, 3)
						}
					}()
				}
				for _, g := range order {
					gates[g] <- struct{}{}
					synctest.Wait()
				}
				wg.Wait()
				settle(3 * time.Second)
				rp := map[string]interface{}{"counts": counts, "order": order}
				compare(c, fmt.Sprintf("concurrent %v order %v to 2", counts, order), w.nodes[2].col.Snapshot(), 1, want2, rp)
				compare(c, fmt.Sprintf("concurrent %v order %v to 3", counts, order), w.nodes[3].col.Snapshot(), 1, want3, rp)
				w.close()
			})
			c.Add("executions", 1)
			c.Add("evaluations", 1)
			c.Outcome(fmt.Sprintf("concurrent|%v|%v", counts, order))
		}
		c.Sample("concurrent", map[string]interface{}{"senders_x_messages": counts, "interleavings": len(ms)})
	}}
}

// failing peer: node 1 keeps sending to nodes 2 (healthy) and 3 (faulty) for a virtual minute.
func failingCase(fault string, k int, queue string) harness.Case {
	return harness.Case{ID: fmt.Sprintf("failing-peer/%s/k%d/%s", fault, k, queue), Run: func(c *harness.C) {
		c.Exec(fmt.Sprintf("[failing-peer/%s] k=%d queue=%s", fault, k, queue))
		bubble(c, func() {
			w := newNet(3, false)
			n3 := w.nodes[3]
			switch fault {
			case "never-accepts":
				n3.lis.Refuse = true
			case "tls-silent":
				n3.lis.Silent = true
			case "starts-late":
				// unreachable for the first k seconds (connection refused), healthy afterwards
				n3.lis.Refuse = true
				go func() {
					time.Sleep(time.Duration(k) * time.Second)
					n3.lis.Refuse = false
				}()
			case "never-reads":
				n3.lis.OnAccept = func(raw *netlib.Conn) {
					raw.ReadHalf().Cap = 4096
					raw.SetStalled(true)
				}
			case "closes-after":
				n3.lis.OnAccept = func(raw *netlib.Conn) {
					// the TLS handshake itself needs ~2 kB; count from what follows
					raw.ReadHalf().CloseAfter = 2500 + k
				}
			case "restarts":
				// the first connection breaks after some bytes; the peer is healthy afterwards
				first := true
				n3.lis.OnAccept = func(raw *netlib.Conn) {
					if first {
						first = false
						raw.ReadHalf().CloseAfter = 2500 + k
					}
				}
			case "garbles-back":
				n3.lis.OnAccept = func(raw *netlib.Conn) {
					go func() {
						time.Sleep(500 * time.Millisecond)
						raw.Write([]byte("\x17\x03\x03\x00\x05garbage that is no TLS record"))
					}()
				}
			}
			send := w.nodes[1].send
			if queue == "clone" {
				// the library's Clone() gives each destination a queue of 10
				cl := send.Clone()
				_ = cl
			}
			var want []sent
			msgs := 40
			if queue == "clone" {
				msgs = 40
			}
			for i := 0; i < msgs; i++ {
				s := sent{2, topic32("live"), []byte(fmt.Sprintf("m%02d", i))}
				want = append(want, s)
				send.Send(s.typ, s.topic, s.data, 3, 2)
				time.Sleep(1500 * time.Millisecond)
			}
			settle(5 * time.Second)
			compare(c, fmt.Sprintf("failing-peer %s k=%d: traffic 1->2", fault, k), w.nodes[2].col.Snapshot(), 1, want, map[string]interface{}{"fault": fault, "k": k})
			if fault == "starts-late" {
				// everything that was accepted for sending while the peer was unreachable stays
				// queued and arrives, exactly once and in order, once the peer is up
				compare(c, fmt.Sprintf("failing-peer %s k=%d: traffic 1->3", fault, k), w.nodes[3].col.Snapshot(), 1, want, map[string]interface{}{"fault": fault, "k": k})
			}
			if fault == "restarts" {
				// the peer came back: what it received is a duplicate-free subsequence of what was
				// sent, in order, and the second half of the traffic arrived completely
				got := w.nodes[3].col.Snapshot()
				idx := -1
				seen := map[string]bool{}
				okOrder := true
				for _, m := range got {
					if seen[string(m.Data)] {
						okOrder = false
					}
					seen[string(m.Data)] = true
					j := -1
					for i, s := range want {
						if bytes.Equal(s.data, m.Data) {
							j = i
						}
					}
					if j <= idx {
						okOrder = false
					}
					idx = j
				}
				missingTail := 0
				for _, s := range want[len(want)/2:] {
					if !seen[string(s.data)] {
						missingTail++
					}
				}
				rp := map[string]interface{}{"fault": fault, "k": k}
				if !okOrder {
					c.Violation("exactly-once-in-order", "c17-restarted-peer-order", fmt.Sprintf("peer restarting after %d bytes: what it received is not a duplicate-free ordered subsequence of what was sent", k), rp)
				}
				if missingTail > 0 {
					c.Violation("reconnect", "c17-no-traffic-after-peer-restart", fmt.Sprintf("peer restarting after %d bytes: %d of the last %d messages, sent long after the peer was back, never arrived", k, missingTail, len(want)-len(want)/2), rp)
				}
			}
			w.close()
		})
		c.Add("executions", 1)
		c.Add("evaluations", 1)
		c.Outcome(fmt.Sprintf("failing|%s|%d|%s", fault, k, queue))
		c.Sample("failing-peer", map[string]interface{}{"fault": fault, "k": k})
	}}
}

// small queue: the destination queue of a dead peer fills up (what Clone()'s capacity of 10 makes
// quick): the sender must not fail
func fullQueueCase() harness.Case {
	return harness.Case{ID: "failing-peer/full-queue", Run: func(c *harness.C) {
		c.Exec("[failing-peer/full-queue] 1100 messages to a peer that never accepts")
		bubble(c, func() {
			w := newNet(3, false)
			w.nodes[3].lis.Refuse = true
			var want []sent
			for i := 0; i < 1100; i++ {
				s := sent{2, topic32("live"), []byte(fmt.Sprintf("m%04d", i))}
				if i%100 == 0 {
					want = append(want, s)
					w.nodes[1].send.Send(s.typ, s.topic, s.data, 2)
				}
				w.nodes[1].send.Send(s.typ, s.topic, s.data, 3)
			}
			settle(30 * time.Second)
			// the queue of the dead peer is full now: one Send call addressed to the dead and the
			// healthy peer together still reaches the healthy one, whichever is listed first
			for i := 0; i < 24; i++ {
				s := sent{2, topic32("live"), []byte(fmt.Sprintf("b%04d", i))}
				want = append(want, s)
				if i%2 == 0 {
					w.nodes[1].send.Send(s.typ, s.topic, s.data, 3, 2)
				} else {
					w.nodes[1].send.Send(s.typ, s.topic, s.data, 2, 3)
				}
			}
			settle(30 * time.Second)
			compare(c, "full-queue: traffic 1->2", w.nodes[2].col.Snapshot(), 1, want, nil)
			w.close()
		})
		c.Add("executions", 1)
		c.Add("evaluations", 1)
		c.Outcome("fullqueue")
	}}
}

// burstCase: one goroutine sends more numbered messages back to back than the destination queue
// holds (the peer is healthy): all of them arrive, exactly once, in sending order.
func burstCase(n int) harness.Case {
	return harness.Case{ID: fmt.Sprintf("burst/%d", n), Run: func(c *harness.C) {
		c.Exec(fmt.Sprintf("[burst] %d messages", n))
		bubble(c, func() {
			w := newNet(2, false)
			var want []sent
			for i := 0; i < n; i++ {
				s := sent{2, topic32("burst"), []byte(fmt.Sprintf("m%05d", i))}
				want = append(want, s)
				w.nodes[1].send.Send(s.typ, s.topic, s.data, 2)
			}
			settle(20 * time.Second)
			compare(c, fmt.Sprintf("burst of %d messages: traffic 1->2", n), w.nodes[2].col.Snapshot(), 1, want, map[string]interface{}{"burst": n})
			w.close()
		})
		c.Add("executions", 1)
		c.Add("evaluations", 1)
		c.Outcome(fmt.Sprintf("burst|%d", n))
	}}
}

// idleCase: a connection that has been idle for a while still carries the next messages.
func idleCase(gap time.Duration) harness.Case {
	return harness.Case{ID: fmt.Sprintf("idle/%v", gap), Run: func(c *harness.C) {
		c.Exec(fmt.Sprintf("[idle] %v between two messages", gap))
		bubble(c, func() {
			w := newNet(2, false)
			var want []sent
			snd := func(i int) {
				s := sent{2, topic32("idle"), []byte(fmt.Sprintf("m%02d", i))}
				want = append(want, s)
				w.nodes[1].send.Send(s.typ, s.topic, s.data, 2)
			}
			snd(0)
			settle(2 * time.Second)
			time.Sleep(gap)
			snd(1)
			snd(2)
			settle(2 * time.Second)
			time.Sleep(gap)
			snd(3)
			settle(20 * time.Second)
			compare(c, fmt.Sprintf("connection idle for %v: traffic 1->2", gap), w.nodes[2].col.Snapshot(), 1, want, map[string]interface{}{"idle": gap.String()})
			w.close()
		})
		c.Add("executions", 1)
		c.Add("evaluations", 1)
		c.Outcome(fmt.Sprintf("idle|%v", gap))
	}}
}

func gen(c *harness.C) []harness.Case {
	if os.Getenv("VERIF_FAMILY") == "threads" {
		return threadCases(c)
	}
	if os.Getenv("VERIF_FAMILY") == "oversized" {
		// slice for C10: a frame header announcing any length above the limit (including those
		// with the top bit set) from an authenticated peer neither crashes nor wedges the receiver
		return []harness.Case{oversizedCase()}
	}
	c.Note("rule", "real net package (ServiceConnections, NewSocketRemoteParty, Send, sendMessages, readMsg) over in-memory TLS 1.3 in a bubble; payload lengths {0,1,2,31,32,33,255,256,65535,65536,1MiB,limit-1,limit} x legal type/topic combinations; frames announcing more than the limit; every interleaving of the Send calls of 2-3 goroutines x 2-3 messages to two destinations; each fault of the third peer (never accepts, never reads with back-pressure, closes after k bytes for k over the first two frames, garbles back, queue full) while traffic to the healthy peer continues for a virtual minute; distinct_nontrivial = distinct cells")
	if !dialSeam {
		c.Note("c17-dial-seam", "tls.Dial could not be redirected on this tree: sender-side cases skipped")
		return []harness.Case{oversizedCase()}
	}
	cases := []harness.Case{framingCase(c.Thorough()), oversizedCase(), truncatedCase()}
	sets := [][]int{{2, 2}, {1, 1, 1}, {2, 1, 1}, {3, 2}}
	if c.Thorough() {
		sets = append(sets, []int{2, 2, 2}, []int{3, 3}, []int{3, 2, 2})
	}
	for _, s := range sets {
		sh := 1
		if len(merges(s)) > 40 {
			sh = 8
		}
		for k := 0; k < sh; k++ {
			cases = append(cases, concurrentCase(s, k, sh))
		}
	}
	for _, f := range []string{"never-accepts", "tls-silent", "never-reads", "garbles-back"} {
		cases = append(cases, failingCase(f, 0, "default"))
	}
	maxK := 120
	stepK := 4
	if c.Thorough() {
		stepK = 1
	}
	for k := 0; k <= maxK; k += stepK {
		cases = append(cases, failingCase("closes-after", k, "default"))
	}
	for k := 0; k <= maxK; k += 8 {
		cases = append(cases, failingCase("restarts", k, "default"))
	}
	for _, k := range []int{1, 2, 5, 10, 31} {
		cases = append(cases, failingCase("starts-late", k, "default"))
	}
	cases = append(cases, fullQueueCase())
	for _, g := range []time.Duration{time.Second, 4 * time.Second, 6 * time.Second, 11 * time.Second, 31 * time.Second, 2 * time.Minute, 10 * time.Minute, 2 * time.Hour, 25 * time.Hour} {
		cases = append(cases, idleCase(g))
	}
	for _, n := range []int{999, 1000, 1001, 1500, 3000} {
		cases = append(cases, burstCase(n))
	}
	return cases
}

func propName() string {
	if p := os.Getenv("VERIF_PROP"); p != "" {
		return p
	}
	return "C17"
}

func TestCheck(t *testing.T) { harness.Main(t, propName(), gen) }
