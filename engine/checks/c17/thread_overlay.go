//go:build verifoverlay

package c17

import (
	"encoding/json"
	"fmt"
	"strings"
	"time"

	"verif/explore"
	"verif/harness"
	"verif/shim/sched"
)

// Thread-level part of C17 (engine E3): the first Send calls of two goroutines to a destination
// that has never been used overlap (start of the single writer, first connection). Every
// interleaving at Once / atomic / lock granularity of net.go within the preemption bound: each
// message arrives exactly once, unmodified, in sending order per goroutine.

func firstSendRun(c *harness.C, r *explore.Recorder, threads, per int) (got []string, trace []string, unfin []string) {
	bubble(c, func() {
		w := newNet(2, false)
		sc := sched.New()
		sc.NoAdopt.Store(true) // writer and reader goroutines of the transport run freely
		sc.Quantum, sc.Horizon = 500*time.Millisecond, 20
		for t := 0; t < threads; t++ {
			t := t
			sc.Go(fmt.Sprintf("S%d", t), func() {
				for i := 0; i < per; i++ {
					w.nodes[1].send.Send(2, topic32("first"), []byte(fmt.Sprintf("t%d-m%d", t, i)), 2)
				}
			})
		}
		sc.Run(r)
		unfin = sc.WaitAll()
		trace = sc.Trace
		sc.Close()
		settle(10 * time.Second)
		for _, m := range w.nodes[2].col.Snapshot() {
			got = append(got, fmt.Sprintf("%d|%d|%s", m.From, m.Type, m.Data))
		}
		w.close()
	})
	return
}

func threadCases(c *harness.C) []harness.Case {
	c.Note("threads-rule", "thread-level exploration (E3) of the first Send calls of two goroutines to a fresh destination over the real net package (in-memory TLS): every interleaving at Once/atomic/lock granularity within the preemption bound; all messages arrive exactly once in per-goroutine order")
	bound := 2
	if c.Thorough() {
		bound = 3
	}
	return []harness.Case{{ID: "threads/first-send", Run: func(c *harness.C) {
		var got, trace, unfin []string
		reported := map[string]bool{}
		e := &explore.Explorer{Stop: c.Expired}
		e.Run = func(r *explore.Recorder) {
			c.Exec(fmt.Sprintf("[threads/first-send] %v", r.Prefix))
			got, trace, unfin = firstSendRun(c, r, 2, 2)
		}
		e.Visit = func(r *explore.Recorder) {
			c.Add("executions", 1)
			c.Add("transitions", len(trace))
			rp := map[string]interface{}{"threads": "first-send", "choices": explore.Trim(r.Choices())}
			viol := func(sig, detail string) {
				if !reported[sig] {
					reported[sig] = true
					c.Violation("exactly-once-in-order", sig, fmt.Sprintf("first sends of two goroutines, schedule %v: %s (received %v)", explore.Trim(r.Choices()), detail, got), rp)
				}
			}
			if len(unfin) > 0 {
				viol("c17-first-send-never-returns", fmt.Sprintf("Send calls of %v never returned", unfin))
				return
			}
			cnt := map[string]int{}
			last := map[int]int{0: -1, 1: -1}
			for _, g := range got {
				cnt[g]++
				var t, i int
				if n, _ := fmt.Sscanf(g[strings.LastIndex(g, "|")+1:], "t%d-m%d", &t, &i); n == 2 {
					if i <= last[t] {
						viol("c17-first-send-order", fmt.Sprintf("messages of goroutine %d out of order", t))
					}
					last[t] = i
				} else {
					viol("c17-first-send-garbled", "a message that nobody sent arrived: "+g)
				}
			}
			for t := 0; t < 2; t++ {
				for i := 0; i < 2; i++ {
					k := fmt.Sprintf("1|2|t%d-m%d", t, i)
					if cnt[k] != 1 {
						viol("c17-first-send-count", fmt.Sprintf("message t%d-m%d arrived %d times", t, i, cnt[k]))
					}
				}
			}
			c.Outcome("first-send|" + strings.Join(trace, ";"))
		}
		if c.Replay != nil {
			var rp struct {
				Choices []int `json:"choices"`
			}
			if json.Unmarshal(c.Replay, &rp) == nil {
				e.Explore(rp.Choices, nil, -1)
			}
			return
		}
		e.Explore(nil, nil, bound)
		if e.NondetPrefixes > 0 {
			c.Add("nondeterministic_prefixes", e.NondetPrefixes)
			c.Cap("nondeterministic-prefix")
		}
	}}}
}
