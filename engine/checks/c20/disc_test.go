package c20

import (
	"context"
	"fmt"
	"time"

	discovery "github.com/IBM/TSS/disc"
	tss "github.com/IBM/TSS/types"
	"verif/explore"
	"verif/harness"
	"verif/shim/sched"
	"verif/world"
)

// (d) membership synchroniser: Member.Synchronize on one thread against two dispatcher threads that
// deliver what real members 2 and 3 sent to member 1 in a complete honest run (captured with
// immediate delivery before the scheduler starts). discovery.go is instrumented (sync.Map shim), so
// every map operation is a scheduling point.

type discMsg struct {
	from uint16
	data []byte
}

var discTopic = world.Sha([]byte("c20-disc-topic"))

type memberParty struct{ m *discovery.Member }

func (p *memberParty) HandleMessage(m *tss.IncMessage)                      { p.m.HandleMessage(m.Source, m.Data) }
func (p *memberParty) Sign(context.Context, []byte, string) ([]byte, error) { return nil, nil }
func (p *memberParty) KeyGen(context.Context, int, int) ([]byte, error)     { return nil, nil }
func (p *memberParty) SetStoredData([]byte)                                 {}
func (p *memberParty) ThresholdPK() ([]byte, error)                         { return nil, nil }

// captureDisc runs three real members on the deterministic event-level network (default schedule)
// and records, per sender, what was sent to member 1. Must run inside a bubble.
func captureDisc(expected int, variant string) map[uint16][]discMsg {
	ids := []uint16{1, 2, 3}
	w := world.New(ids)
	w.Quantum = 100 * time.Millisecond
	for _, id := range ids {
		id := id
		w.AddParty(id, func(send func(uint8, []byte, []byte, ...uint16)) tss.MpcParty {
			var others []uint16
			for _, o := range ids {
				if o != id {
					others = append(others, o)
				}
			}
			return &memberParty{m: &discovery.Member{Membership: ids, Logger: world.NopLogger{}, ID: id,
				Broadcast: func(msg []byte) { send(1, discTopic, msg, others...) },
				Send:      func(msg []byte, to uint16) { send(1, discTopic, msg, to) }}}
		})
	}
	for _, id := range ids {
		if variant == "two-of-three" && id == 3 {
			continue
		}
		mp := w.Parties[id].Mpc.(*memberParty)
		w.Go(func() {
			ctx, cancel := context.WithTimeout(context.Background(), 2*time.Second)
			defer cancel()
			mp.m.Synchronize(ctx, func([]uint16) {}, discTopic, expected, 200*time.Millisecond)
		})
	}
	w.Loop(&explore.Recorder{}, 3*time.Second)
	out := map[uint16][]discMsg{}
	for _, p := range w.Net.SendLog {
		if p.To == 1 && len(out[p.From]) < 6 {
			out[p.From] = append(out[p.From], discMsg{p.From, append([]byte(nil), p.Data...)})
		}
	}
	w.Stop()
	return out
}

type discOut struct {
	err      error
	list     []uint16
	trace    []string
	deadlock bool
	unfin    []string
}

func discRun(c *harness.C, variant string, r *explore.Recorder) *discOut {
	o := &discOut{}
	rec := c.Bubble(func() {
		expected := 3
		if variant == "two-of-three" {
			expected = 2
		}
		msgs := captureDisc(expected, variant)
		ids := []uint16{1, 2, 3}
		m := &discovery.Member{Membership: ids, Logger: world.NopLogger{}, ID: 1,
			Broadcast: func([]byte) { sched.Yield() },
			Send:      func([]byte, uint16) { sched.Yield() }}
		sc := sched.New()
		defer sc.Close()
		sc.Quantum, sc.Horizon = 200*time.Millisecond, 12
		sc.Go("T0", func() {
			ctx, cancel := context.WithTimeout(context.Background(), 1500*time.Millisecond)
			defer cancel()
			o.err = m.Synchronize(ctx, func(l []uint16) { o.list = append([]uint16(nil), l...) }, discTopic, expected, 200*time.Millisecond)
		})
		for _, from := range []uint16{2, 3} {
			from := from
			seq := msgs[from]
			if variant == "duplicated" {
				seq = append(append([]discMsg(nil), seq...), seq...)
			}
			if variant == "unsorted-views" {
				// a misbehaving peer lists its view in descending order (same members)
				var rs []discMsg
				for _, x := range seq {
					d := append([]byte(nil), x.data...)
					if len(d) > 33 && (len(d)-33)%2 == 0 {
						l := d[33:]
						for i, j := 0, len(l)-2; i < j; i, j = i+2, j-2 {
							l[i], l[i+1], l[j], l[j+1] = l[j], l[j+1], l[i], l[i+1]
						}
					}
					rs = append(rs, discMsg{x.from, d})
				}
				seq = rs
			}
			sc.Go(fmt.Sprintf("D%d", from), func() {
				for _, x := range seq {
					m.HandleMessage(x.from, x.data)
				}
			})
		}
		sc.Run(r)
		o.deadlock = sc.Deadlock
		o.unfin = sc.WaitAll()
		o.trace = sc.Trace
	})
	if rec != nil && !harness.IsLeakPanic(rec) {
		panic(rec)
	}
	return o
}
