package c20

import (
	"context"
	"encoding/json"
	"fmt"
	"os"
	"strings"
	"sync"
	"testing"
	"time"

	"github.com/IBM/TSS/mpc/bls"
	"github.com/IBM/TSS/mpc/ps"
	"github.com/IBM/TSS/threshold"
	tss "github.com/IBM/TSS/types"
	math "github.com/IBM/mathlib"
	"verif/backend/s"
	"verif/checks/boxlib"
	"verif/dump"
	"verif/explore"
	"verif/harness"
	"verif/shim/sched"
	"verif/shim/vsync"
	"verif/world"
)

type replay struct {
	Family  string          `json:"family"`
	Box     boxlib.Scenario `json:"box,omitempty"`
	Variant string          `json:"variant,omitempty"`
	Choices []int           `json:"choices"`
}

// after reports the races of the execution that just finished.
func propName() string {
	if p := os.Getenv("VERIF_PROP"); p != "" {
		return p
	}
	return "C20"
}

func after(c *harness.C, rp replay, what string) {
	for _, r := range c.NewRaceReports() {
		if propName() != "C20" {
			continue // a slice run for another property: races are C20's business
		}
		if r.Frames[0] == "" || r.Frames[1] == "" {
			c.Add("race_reports_with_harness_frames", 1)
			c.Note("harness-race", strings.ReplaceAll(r.Text, "\n", " | ")[:min(len(r.Text), 1500)])
			continue
		}
		c.Violation("no-data-race", r.Signature, fmt.Sprintf("%s schedule %v: data race between %s and %s", what, rp.Choices, r.Frames[0], r.Frames[1]), rp)
	}
}

// ---------------------------------------------------------------------------------------------
// (b) msg.Box

func boxRun(c *harness.C, sc boxlib.Scenario, r *explore.Recorder) *boxlib.Result {
	return boxlib.Run(c, sc, r)
}

// ---------------------------------------------------------------------------------------------
// (a) BLS / PS key generation core

type captured struct {
	msg   []byte
	bcast bool
}

type kg interface {
	tss.KeyGenerator
}

func newKG(backend string, id uint16) kg {
	if backend == "ps" {
		return &ps.TPS{Logger: world.NopLogger{}, Party: id, Curve: math.Curves[1], MessageLength: 1}
	}
	return &bls.TBLS{Logger: world.NopLogger{}, Party: id}
}

// honestRun runs a complete DKG among three real instances wired synchronously and returns what
// parties 2 and 3 sent to party 1.
func honestRun(backend string, t int) map[uint16][]captured {
	parties := []uint16{1, 2, 3}
	inst := map[uint16]kg{}
	for _, id := range parties {
		inst[id] = newKG(backend, id)
	}
	var mu sync.Mutex
	cap := map[uint16][]captured{}
	for _, id := range parties {
		id := id
		inst[id].Init(parties, t, func(msg []byte, bc bool, to uint16) {
			m := append([]byte(nil), msg...)
			for _, dst := range parties {
				if dst == id || (!bc && dst != to) {
					continue
				}
				if dst == 1 {
					mu.Lock()
					cap[id] = append(cap[id], captured{m, bc})
					mu.Unlock()
				}
				inst[dst].OnMsg(m, id, bc)
			}
		})
	}
	var wg sync.WaitGroup
	for _, id := range parties {
		id := id
		wg.Add(1)
		go func() {
			defer wg.Done()
			ctx, cancel := context.WithTimeout(context.Background(), 5*time.Second)
			defer cancel()
			inst[id].KeyGen(ctx)
		}()
	}
	wg.Wait()
	return cap
}

type kgOut struct {
	trace    []string
	deadlock bool
	unfin    []string
	err      error
}

// variant: "after-init" (dispatchers start once Init returned), "early" (dispatchers may run before
// and during Init), "dup" (every message delivered twice)
func kgRun(c *harness.C, backend string, t int, variant string, r *explore.Recorder) *kgOut {
	o := &kgOut{}
	rec := c.Bubble(func() {
		msgs := honestRun(backend, t)
		x := newKG(backend, 1)
		x0 := x
		parties := []uint16{1, 2, 3}
		sc := sched.New()
		defer sc.Close()
		sc.Quantum, sc.Horizon = 3*time.Second, 3
		var dmu vsync.Mutex // one message at a time per session, as threadSafeRBC does
		inited := make(chan struct{})
		sc.Go("T0", func() {
			x.Init(parties, t, func([]byte, bool, uint16) {})
			close(inited)
			ctx, cancel := context.WithTimeout(context.Background(), 5*time.Second)
			defer cancel()
			_, o.err = x.KeyGen(ctx)
		})
		if strings.HasPrefix(variant, "one-") {
			// a single dispatcher thread delivers everything, in phase or with the reveals early
			var order []struct {
				from uint16
				m    captured
			}
			n := len(msgs[2])
			for i := 0; i < n; i++ {
				for _, from := range []uint16{2, 3} {
					if i < len(msgs[from]) {
						order = append(order, struct {
							from uint16
							m    captured
						}{from, msgs[from][i]})
					}
				}
			}
			if variant == "one-dup" {
				// every message is delivered a second time, right after the phase it belongs to
				var d []struct {
					from uint16
					m    captured
				}
				for i := 0; i+1 < len(order); i += 2 {
					d = append(d, order[i], order[i+1], order[i+1], order[i])
				}
				order = d
			}
			if variant == "one-reveal-early" && len(order) >= 6 {
				// party 2's commitment and reveal right after its share
				order = []struct {
					from uint16
					m    captured
				}{order[0], order[2], order[4], order[1], order[3], order[5]}
			}
			late := -1
			if strings.HasPrefix(variant, "one-late-") {
				// party 3's share / commitment / reveal arrives only after the caller's deadline
				late = map[string]int{"one-late-share": 1, "one-late-commit": 3, "one-late-reveal": 5}[variant]
				if late >= len(order) {
					late = -1
				}
			}
			sc.Go("D", func() {
				<-inited
				for i, x := range order {
					if i == late {
						continue
					}
					dmu.Lock()
					x0.OnMsg(x.m.msg, x.from, x.m.bcast)
					dmu.Unlock()
				}
			})
			if late >= 0 {
				sc.Go("L", func() {
					<-inited
					time.Sleep(5*time.Second + time.Millisecond)
					dmu.Lock()
					x0.OnMsg(order[late].m.msg, order[late].from, order[late].m.bcast)
					dmu.Unlock()
				})
			}
		}
		for _, from := range []uint16{2, 3} {
			if strings.HasPrefix(variant, "one-") {
				break
			}
			from := from
			sc.Go(fmt.Sprintf("D%d", from), func() {
				if variant == "during-init" {
					// the peers send as soon as they see the party's "initialised" flag (read while
					// the system is quiescent): nothing arrives before Init has set it
					sched.WaitUntil(func() bool {
						v, ok := dump.BoolNoRace(x, "init")
						return !ok || v
					})
				} else if variant != "early" {
					<-inited
				}
				for _, m := range msgs[from] {
					reps := 1
					if variant == "dup" {
						reps = 2
					}
					for i := 0; i < reps; i++ {
						dmu.Lock()
						x.OnMsg(m.msg, from, m.bcast)
						dmu.Unlock()
					}
				}
			})
		}
		sc.Run(r)
		o.deadlock = sc.Deadlock
		o.unfin = sc.WaitAll()
		o.trace = sc.Trace
	})
	if rec != nil && !harness.IsLeakPanic(rec) {
		panic(rec)
	}
	return o
}

// liveRun: two real instances run a complete 2-of-2 key generation against each other, each in its
// own thread; what party 2 sends to party 1 is delivered (in party 2's thread) as soon as party 1's
// "initialised" flag is set - possibly while party 1 is still inside Init. Both must complete.
func liveRun(c *harness.C, backend string, r *explore.Recorder) *kgOut {
	o := &kgOut{}
	rec := c.Bubble(func() {
		parties := []uint16{1, 2}
		x1, x2 := newKG(backend, 1), newKG(backend, 2)
		sc := sched.New()
		defer sc.Close()
		sc.Quantum, sc.Horizon = 3*time.Second, 3
		inited1 := func() bool {
			v, ok := dump.BoolNoRace(x1, "init")
			return !ok || v
		}
		x2.Init(parties, 2, func(msg []byte, bc bool, to uint16) {
			sched.WaitUntil(inited1)
			x1.OnMsg(append([]byte(nil), msg...), 2, bc)
		})
		var err1, err2 error
		sc.Go("P1", func() {
			x1.Init(parties, 2, func(msg []byte, bc bool, to uint16) {
				x2.OnMsg(append([]byte(nil), msg...), 1, bc)
			})
			ctx, cancel := context.WithTimeout(context.Background(), 5*time.Second)
			defer cancel()
			_, err1 = x1.KeyGen(ctx)
		})
		sc.Go("P2", func() {
			ctx, cancel := context.WithTimeout(context.Background(), 5*time.Second)
			defer cancel()
			_, err2 = x2.KeyGen(ctx)
		})
		sc.Run(r)
		o.deadlock = sc.Deadlock
		o.unfin = sc.WaitAll()
		o.trace = sc.Trace
		if len(o.unfin) == 0 {
			if err1 != nil {
				o.err = fmt.Errorf("party 1: %v", err1)
			} else if err2 != nil {
				o.err = fmt.Errorf("party 2: %v", err2)
			}
		}
	})
	if rec != nil && !harness.IsLeakPanic(rec) {
		panic(rec)
	}
	return o
}

// ---------------------------------------------------------------------------------------------
// (c) orchestrator tables: HandleMessage on two dispatcher threads || KeyGen entering and leaving

type instSync struct{ members []uint16 }

func (i *instSync) Synchronize(_ context.Context, f func([]uint16), _ []byte, _ int, _ time.Duration) error {
	f(i.members)
	return nil
}
func (i *instSync) HandleMessage(uint16, []byte) {}

type quickBackend struct{ lg *[]string }

func (q *quickBackend) ClassifyMsg(b []byte) (uint8, bool, error)      { return s.Classify(b) }
func (q *quickBackend) Init([]uint16, int, func([]byte, bool, uint16)) {}
func (q *quickBackend) OnMsg([]byte, uint16, bool)                     {}
func (q *quickBackend) KeyGen(ctx context.Context) ([]byte, error)     { return []byte("share"), nil }
func (q *quickBackend) SetShareData([]byte) error                      { return nil }
func (q *quickBackend) Sign(context.Context, []byte) ([]byte, error)   { return []byte("sig"), nil }
func (q *quickBackend) ThresholdPK() ([]byte, error)                   { return []byte("pk"), nil }

func tablesRun(c *harness.C, variant string, r *explore.Recorder) *kgOut {
	o := &kgOut{}
	rec := c.Bubble(func() {
		mem := func() map[tss.UniversalID]tss.PartyID {
			return map[tss.UniversalID]tss.PartyID{1: 1, 2: 2, 3: 3, 4: 4, 5: 5}
		}
		if !strings.HasSuffix(variant, "-foreign") {
			mem = func() map[tss.UniversalID]tss.PartyID { return map[tss.UniversalID]tss.PartyID{1: 1, 2: 2, 3: 3} }
		}
		// "-foreign": both dispatcher threads deliver for nodes that are not part of the session
		src2, src3 := uint16(2), uint16(3)
		if strings.HasSuffix(variant, "-foreign") {
			src2, src3 = 4, 5
			variant = strings.TrimSuffix(variant, "-foreign")
		}
		send := func(uint8, []byte, []byte, ...uint16) {}
		qb := &quickBackend{}
		p := threshold.LoudScheme(1, world.NopLogger{}, func(uint16) tss.KeyGenerator { return qb }, func(uint16) tss.Signer { return qb }, 1, send, mem)
		scm := p.(*threshold.Scheme)
		scm.SyncFactory = func([]uint16, func([]byte), func([]byte, uint16)) tss.Synchronizer {
			if variant == "sign" {
				return &instSync{members: []uint16{1, 2}}
			}
			return &instSync{members: []uint16{1, 2, 3}}
		}
		topic := world.Sha([]byte(tss.DkgTopicName))
		if variant == "sign" {
			topic = world.Sha([]byte("t"))
		}
		sc := sched.New()
		defer sc.Close()
		sc.Quantum, sc.Horizon = time.Second, 3
		sc.Go("T0", func() {
			ctx, cancel := context.WithTimeout(context.Background(), 2*time.Second)
			defer cancel()
			if variant == "sign" {
				p.SetStoredData([]byte("x"))
				_, o.err = p.Sign(ctx, world.Sha([]byte("d")), "t")
			} else {
				_, o.err = p.KeyGen(ctx, 3, 3)
			}
		})
		payload := append([]byte{255}, []byte{s.ClassBcast, 1, 7}...)
		ack := append([]byte{1, 0, 3}, world.Sha([]byte{s.ClassBcast, 1, 7})...)
		p2p := []byte{255, s.ClassP2P, 0, 'x'}
		sc.Go("D2", func() {
			p.HandleMessage(&tss.IncMessage{Data: payload, Source: src2, MsgType: 2, Topic: topic})
			p.HandleMessage(&tss.IncMessage{Data: []byte{1}, Source: src2, MsgType: 1, Topic: topic})
			p.HandleMessage(&tss.IncMessage{Data: ack, Source: src2, MsgType: 2, Topic: topic})
			p.HandleMessage(&tss.IncMessage{Data: p2p, Source: src2, MsgType: 2, Topic: topic})
		})
		sc.Go("D3", func() {
			// a message on a topic that no session of this node knows (early, late or stray traffic)
			p.HandleMessage(&tss.IncMessage{Data: p2p, Source: src3, MsgType: 2, Topic: world.Sha([]byte("no such session"))})
			p.HandleMessage(&tss.IncMessage{Data: p2p, Source: src3, MsgType: 2, Topic: topic})
			p.HandleMessage(&tss.IncMessage{Data: ack, Source: src3, MsgType: 2, Topic: topic})
			p.HandleMessage(&tss.IncMessage{Data: payload, Source: src3, MsgType: 2, Topic: topic})
			p.HandleMessage(&tss.IncMessage{Data: ack, Source: src3, MsgType: 2, Topic: world.Sha([]byte("no such session"))})
			p.HandleMessage(&tss.IncMessage{Data: []byte{1}, Source: src3, MsgType: 1, Topic: world.Sha([]byte("no such session"))})
		})
		sc.Run(r)
		o.deadlock = sc.Deadlock
		o.unfin = sc.WaitAll()
		o.trace = sc.Trace
	})
	if rec != nil && !harness.IsLeakPanic(rec) {
		panic(rec)
	}
	return o
}

// ---------------------------------------------------------------------------------------------

type fam struct {
	name  string
	bound int
	run   func(c *harness.C, r *explore.Recorder) (trace []string, deadlock bool, unfin []string)
	rp    func(choices []int) replay
}

const shards = 4

// famCase explores shard k of family f: the root execution plus every level-1 subtree whose index
// is congruent to k (root itself belongs to shard 0). Nothing is executed at list time.
func famCase(f fam, k int) harness.Case {
	return harness.Case{ID: fmt.Sprintf("%s/shard%d", f.name, k), Run: func(c *harness.C) {
		var tr []string
		e := &explore.Explorer{Stop: c.Expired}
		e.Run = func(r *explore.Recorder) {
			c.Exec(fmt.Sprintf("[%s] %v", f.name, r.Prefix))
			var dl bool
			var unfin []string
			tr, dl, unfin = f.run(c, r)
			if dl || len(unfin) > 0 {
				c.Violation("no-deadlock", strings.ToLower(propName())+"-deadlock:"+f.name, fmt.Sprintf("%s schedule %v: threads %v never finished", f.name, r.Prefix, unfin), f.rp(r.Prefix))
			}
		}
		e.Visit = func(r *explore.Recorder) {
			c.Add("executions", 1)
			c.Add("transitions", len(tr))
			after(c, f.rp(explore.Trim(r.Choices())), f.name)
			for i := range tr {
				c.State(f.name + "|" + strings.Join(tr[:i+1], ";"))
			}
			if c.Outcome(f.name+"|"+strings.Join(tr, ";")) && r.Deviations() > 0 {
				c.Sample("c20", map[string]interface{}{"family": f.name, "choices": explore.Trim(r.Choices()), "schedule": tr})
			}
		}
		if c.Replay != nil {
			var rp replay
			if json.Unmarshal(c.Replay, &rp) == nil {
				e.Explore(rp.Choices, nil, -1)
			}
			return
		}
		root := &explore.Recorder{}
		c.Exec(fmt.Sprintf("[%s] root", f.name))
		f.run(c, root)
		if k == 0 {
			e.Explore(nil, nil, -1) // the root execution itself (negative budget: no alternatives)
		} else {
			c.NewRaceReports() // races of the root run are reported by shard 0
		}
		for i, t := range explore.RootTasks(root) {
			if i%shards != k {
				continue
			}
			cost := 1
			if root.Points[t[0]].Free {
				cost = 0
			}
			if f.bound-cost < 0 {
				continue
			}
			e.Explore(explore.TaskPrefix(t[0], t[1]), root.Labels(), f.bound-cost)
			if e.Capped {
				break
			}
		}
		if e.NondetPrefixes > 0 {
			c.Add("nondeterministic_prefixes", e.NondetPrefixes)
			c.Cap("nondeterministic-prefix")
		}
	}}
}

func gen(c *harness.C) []harness.Case {
	c.Note("rule", "thread-level exploration (engine E3) of real msg.Box, bls.TBLS / ps.TPS key generation and Scheme handler tables, built with -race; the scheduler hides its own synchronisation from the detector, so every explored interleaving is checked for data races under the program's own happens-before; distinct_nontrivial = distinct schedules with at least one preemption")
	if !sched.RaceEnabled {
		c.Note("c20-race", "binary built without -race: no detection")
	}
	var fams []fam
	b2, b3 := 3, 1
	if c.Thorough() {
		b2, b3 = 4, 2
	}
	for _, sc := range boxlib.Scenarios(c.Thorough()) {
		sc := sc
		b := b3
		if len(sc.Threads) <= 2 {
			b = b2
		}
		if strings.HasPrefix(sc.Name, "s14-idle-") && sc.Name != "s14-idle-8-epochs-then-first-send" || strings.HasPrefix(sc.Name, "s15-held-") && sc.Name != "s15-held-3x5-interleaved" || sc.Name == "s16b-gc-due||tick;tick;start;receive" || strings.HasPrefix(sc.Name, "s17-") {
			continue
		}
		if strings.HasPrefix(sc.Name, "s12-long-lived-topic") {
			// one thread against the clock goroutine, dozens of steps: one length, one preemption
			if sc.Name != "s12-long-lived-topic-8-epochs" {
				continue
			}
			b = 1
		}
		fams = append(fams, fam{name: "box/" + sc.Name, bound: b,
			run: func(c *harness.C, r *explore.Recorder) ([]string, bool, []string) {
				res := boxRun(c, sc, r)
				return res.Trace, res.Deadlock, res.Unfin
			},
			rp: func(ch []int) replay { return replay{Family: "box/" + sc.Name, Box: sc, Choices: ch} }})
	}
	for _, be := range []string{"bls", "ps"} {
		for _, t := range []int{3, 2} {
			for _, v := range []string{"after-init", "early", "during-init", "dup", "one-in-phase", "one-reveal-early", "one-dup", "one-late-share", "one-late-commit", "one-late-reveal"} {
				be, t, v := be, t, v
				name := fmt.Sprintf("keygen/%s/t%d/%s", be, t, v)
				bd := b3
				if strings.HasPrefix(v, "one-") {
					bd = b2
					if be == "ps" && !c.Thorough() {
						bd = b2 - 1 // PS executions are several times more expensive
					}
				}
				if v == "one-dup" && t == 2 && !c.Thorough() {
					continue
				}
				if strings.HasPrefix(v, "one-late-") {
					bd = 1
					if t == 2 && !c.Thorough() {
						continue
					}
				}
				fams = append(fams, fam{name: name, bound: bd,
					run: func(c *harness.C, r *explore.Recorder) ([]string, bool, []string) {
						o := kgRun(c, be, t, v, r)
						return o.trace, o.deadlock, o.unfin
					},
					rp: func(ch []int) replay { return replay{Family: name, Variant: v, Choices: ch} }})
			}
		}
	}
	for _, be := range []string{"bls", "ps"} {
		be := be
		name := fmt.Sprintf("keygen/%s/live/during-init", be)
		fams = append(fams, fam{name: name, bound: b3,
			run: func(c *harness.C, r *explore.Recorder) ([]string, bool, []string) {
				o := liveRun(c, be, r)
				if o.err != nil && !o.deadlock {
					// all-honest, everything delivered: the key generation completes (reported under
					// the property this run is made for: C08's slice, else C20's own deadlock clause)
					c.Violation("dkg-completes", strings.ToLower(propName())+"-live-keygen-fails:"+be, fmt.Sprintf("%s schedule %v: two honest parties, every message delivered (party 1's as soon as it is flagged initialised): %v", name, r.Prefix, o.err), replay{Family: name, Variant: "live", Choices: explore.Trim(r.Choices())})
				}
				return o.trace, o.deadlock, o.unfin
			},
			rp: func(ch []int) replay { return replay{Family: name, Variant: "live", Choices: ch} }})
	}
	for _, v := range []string{"keygen", "sign", "keygen-foreign", "sign-foreign"} {
		v := v
		name := "tables/" + v
		fams = append(fams, fam{name: name, bound: b3,
			run: func(c *harness.C, r *explore.Recorder) ([]string, bool, []string) {
				o := tablesRun(c, v, r)
				return o.trace, o.deadlock, o.unfin
			},
			rp: func(ch []int) replay { return replay{Family: name, Variant: v, Choices: ch} }})
	}
	for _, v := range []string{"three", "two-of-three", "duplicated", "unsorted-views"} {
		v := v
		name := "disc/" + v
		fams = append(fams, fam{name: name, bound: b3,
			run: func(c *harness.C, r *explore.Recorder) ([]string, bool, []string) {
				o := discRun(c, v, r)
				return o.trace, o.deadlock, o.unfin
			},
			rp: func(ch []int) replay { return replay{Family: name, Variant: v, Choices: ch} }})
	}
	if os.Getenv("VERIF_FAMILY") == "earlycrash" {
		// slice for C10: messages that reach a backend before / while it is initialised must not
		// crash or wedge it (every interleaving of Init+KeyGen with two early dispatcher threads)
		var keep []fam
		for _, f := range fams {
			if strings.HasPrefix(f.name, "keygen/") && (strings.HasSuffix(f.name, "/early") || strings.HasSuffix(f.name, "/during-init")) {
				if be := os.Getenv("VERIF_BACKENDS"); be != "" && !strings.HasPrefix(f.name, "keygen/"+be+"/") {
					continue
				}
				keep = append(keep, f)
			}
		}
		fams = keep
	}
	var cases []harness.Case
	for _, f := range fams {
		for k := 0; k < shards; k++ {
			cases = append(cases, famCase(f, k))
		}
	}
	return cases
}

func TestCheck(t *testing.T) { harness.Main(t, propName(), gen) }
