package c14

import (
	"encoding/json"
	"fmt"
	"os"
	"strings"
	"sync"
	"testing"
	"time"

	"github.com/IBM/TSS/msg"
	tss "github.com/IBM/TSS/types"
	"verif/explore"
	"verif/harness"
	"verif/shim/sched"
	"verif/world"
)

// step of a thread script
type step struct {
	Kind   string `json:"k"` // "R" receive, "S" send, "tick"
	Topic  string `json:"t,omitempty"`
	Sender uint16 `json:"s,omitempty"`
	ID     string `json:"id,omitempty"` // message id for R
}

type scenario struct {
	Name    string   `json:"name"`
	Threads [][]step `json:"threads"`
	Pre     []step   `json:"pre,omitempty"` // executed sequentially before the threads start
	Bound   int      `json:"bound"`         // preemption bound
}

func topicBytes(t string) []byte {
	b := make([]byte, 32)
	copy(b, t)
	return b
}

type handler struct {
	mu  *sync.Mutex
	log *[]string
}

func (h *handler) HandleMessage(m *tss.IncMessage) {
	h.mu.Lock()
	*h.log = append(*h.log, string(m.Data))
	h.mu.Unlock()
}

type result struct {
	handed   []string          // hand-over log (message ids)
	calls    map[string][2]int // message id -> (call index, return index) in the harness' own order
	trace    []string
	deadlock bool
	unfin    []string
	pending  int // messages still buffered at the end (reflection), -1 unknown
	subfail  bool
}

func run(c *harness.C, sc scenario, r *explore.Recorder) *result {
	res := &result{calls: map[string][2]int{}, pending: -1}
	var mu sync.Mutex
	var handed []string
	failedSub := false
	rec := c.Bubble(func() {
		tick := make(chan time.Time)
		box := &msg.Box{Logger: world.NopLogger{}, MaxInFlightTopicsBySender: 10000, GCSweep: 20 * time.Second, GCExpire: 2 * time.Minute,
			NewTicker:      func(time.Duration) *time.Ticker { return &time.Ticker{C: tick} },
			ForwardSend:    func(uint8, []byte, []byte, ...tss.UniversalID) {},
			MessageHandler: &handler{mu: &mu, log: &handed}}
		var clk int
		var cmu sync.Mutex
		stamp := func() int { cmu.Lock(); defer cmu.Unlock(); clk++; return clk }
		do := func(s step) {
			switch s.Kind {
			case "R":
				a := stamp()
				box.HandleMessage(&tss.IncMessage{Data: []byte(s.ID), Source: s.Sender, MsgType: uint8(tss.MsgTypeMPC), Topic: topicBytes(s.Topic)})
				b := stamp()
				cmu.Lock()
				res.calls[s.ID] = [2]int{a, b}
				cmu.Unlock()
			case "S":
				box.Send(uint8(tss.MsgTypeMPC), topicBytes(s.Topic), []byte("out"), 9)
			}
		}
		// the clock goroutine exists only after first use: initialise the box with a harmless
		// message type so that scenario "tick" steps have a receiver
		for _, s := range sc.Pre {
			if s.Kind == "tick" {
				box.Send(uint8(tss.MsgTypeMPC), topicBytes("init"), []byte("init"), 9)
				break
			}
		}
		for _, s := range sc.Pre {
			if s.Kind == "tick" {
				tick <- time.Time{}
				continue
			}
			do(s)
		}
		s := sched.New()
		defer s.Close()
		for i, th := range sc.Threads {
			th := th
			s.Go(fmt.Sprintf("T%d", i), func() {
				for _, st := range th {
					do(st)
				}
			})
		}
		s.Run(r)
		res.deadlock = s.Deadlock
		res.unfin = s.WaitAll()
		res.trace = s.Trace
		box.Stop()
	})
	_ = failedSub
	if rec != nil && !harness.IsLeakPanic(rec) {
		panic(rec)
	}
	mu.Lock()
	res.handed = append([]string(nil), handed...)
	mu.Unlock()
	return res
}

type replay struct {
	Scenario scenario `json:"scenario"`
	Choices  []int    `json:"choices"`
}

// oracle: exactly-once and per-sender order. Returns an outcome class.
func oracle(c *harness.C, sc scenario, res *result, rp replay) string {
	return oracleCore(sc, res, rp, func(clause, sig, detail string) { c.Violation(clause, sig, detail, rp) })
}

func oracleCore(sc scenario, res *result, rp replay, report func(clause, sig, detail string)) string {
	mode := "concurrent"
	if len(sc.Threads) == 1 {
		mode = "sequential"
	}
	bad := func(clause, sig, detail string) {
		report(clause, sig+":"+mode, fmt.Sprintf("scenario %s schedule %v: %s", sc.Name, rp.Choices, detail))
	}
	if res.deadlock || len(res.unfin) > 0 {
		bad("no-deadlock", "c14-deadlock", fmt.Sprintf("threads %v never finished", res.unfin))
		return "deadlock"
	}
	cnt := map[string]int{}
	pos := map[string]int{}
	for i, id := range res.handed {
		cnt[id]++
		pos[id] = i
	}
	// which topics were started by the end
	started := map[string]bool{}
	for _, s := range sc.Pre {
		if s.Kind == "S" {
			started[s.Topic] = true
		}
	}
	for _, th := range sc.Threads {
		for _, s := range th {
			if s.Kind == "S" {
				started[s.Topic] = true
			}
		}
	}
	var recv []step
	for _, s := range sc.Pre {
		if s.Kind == "R" {
			recv = append(recv, s)
		}
	}
	for _, th := range sc.Threads {
		for _, s := range th {
			if s.Kind == "R" {
				recv = append(recv, s)
			}
		}
	}
	outcome := "ok"
	for _, s := range recv {
		switch {
		case cnt[s.ID] > 1:
			bad("exactly-once", "c14-duplicated", fmt.Sprintf("message %s handed over %d times", s.ID, cnt[s.ID]))
			outcome = "duplicated"
		case cnt[s.ID] == 0 && started[s.Topic]:
			// the topic has started, everything is quiescent, and the message was not handed over:
			// it sits in the buffer until some later Send on the topic (if any) - or is lost
			bad("exactly-once", "c14-not-handed-over-after-start", fmt.Sprintf("message %s for started topic %s was not handed over (parked until a next send, or lost)", s.ID, s.Topic))
			outcome = "parked-or-lost"
		}
	}
	// order: two messages of one sender and topic whose receive calls did not overlap
	for _, a := range recv {
		for _, b := range recv {
			if a.ID == b.ID || a.Sender != b.Sender || a.Topic != b.Topic || cnt[a.ID] != 1 || cnt[b.ID] != 1 {
				continue
			}
			ca, cb := res.calls[a.ID], res.calls[b.ID]
			if ca[1] < cb[0] && pos[a.ID] > pos[b.ID] {
				bad("arrival-order", "c14-reordered", fmt.Sprintf("message %s was received before %s (calls did not overlap) but handed over after it", a.ID, b.ID))
				outcome = "reordered"
			}
		}
	}
	return outcome
}

func R(id, topic string, sender uint16) step { return step{Kind: "R", ID: id, Topic: topic, Sender: sender} }
func S(topic string) step                    { return step{Kind: "S", Topic: topic} }

func scenarios(thorough bool) []scenario {
	b3 := 2
	if thorough {
		b3 = 3
	}
	return []scenario{
		{Name: "1-R||S", Threads: [][]step{{R("m1", "X", 1)}, {S("X")}}, Bound: 100},
		{Name: "2-RR||S", Threads: [][]step{{R("m1", "X", 1), R("m2", "X", 1)}, {S("X")}}, Bound: 100},
		{Name: "3-R||R||S", Threads: [][]step{{R("m1", "X", 1)}, {R("m2", "X", 2)}, {S("X")}}, Bound: b3},
		{Name: "4-R||S||Sother", Threads: [][]step{{R("m1", "X", 1)}, {S("X")}, {S("Y")}}, Bound: b3},
		{Name: "5-R||SS", Threads: [][]step{{R("m1", "X", 1)}, {S("X"), S("X")}}, Bound: 100},
		{Name: "6-RR2||S||S", Threads: [][]step{{R("m1", "X", 1), R("m2", "Y", 1)}, {S("X")}, {S("Y")}}, Bound: b3},
		{Name: "7-tick-R||S||Sother", Pre: []step{{Kind: "tick"}}, Threads: [][]step{{R("m1", "X", 1)}, {S("X")}, {S("Y")}}, Bound: b3},
		{Name: "s1-R;S", Threads: [][]step{{R("m1", "X", 1), S("X")}}, Bound: 0},
		{Name: "s2-S;R", Threads: [][]step{{S("X"), R("m1", "X", 1)}}, Bound: 0},
		{Name: "s3-R;R;S;R", Threads: [][]step{{R("m1", "X", 1), R("m2", "X", 1), S("X"), R("m3", "X", 1)}}, Bound: 0},
		{Name: "s4-R;R2;Sother;S;S", Threads: [][]step{{R("m1", "X", 1), R("m2", "X", 2), S("Y"), S("X"), S("X")}}, Bound: 0},
		{Name: "s5-tick-R;S", Pre: []step{{Kind: "tick"}}, Threads: [][]step{{R("m1", "X", 1), S("X")}}, Bound: 0},
		{Name: "8-stored-R||S", Pre: []step{R("m0", "X", 1)}, Threads: [][]step{{R("m1", "X", 1)}, {S("X")}}, Bound: 100},
		{Name: "9-stored-RR||S", Pre: []step{R("m0", "X", 1)}, Threads: [][]step{{R("m1", "X", 1), R("m2", "X", 1)}, {S("X")}}, Bound: 100},
	}
}

func scCase(sc scenario, pos, alt int, isRoot bool) harness.Case {
	id := sc.Name + "/root"
	if !isRoot {
		id = fmt.Sprintf("%s/task/%d:%d", sc.Name, pos, alt)
	}
	return harness.Case{ID: id, Run: func(c *harness.C) {
		if c.Replay != nil {
			var rp replay
			if json.Unmarshal(c.Replay, &rp) == nil {
				r := &explore.Recorder{Prefix: rp.Choices}
				res := run(c, rp.Scenario, r)
				oracle(c, rp.Scenario, res, rp)
			}
			return
		}
		var last *result
		e := &explore.Explorer{Stop: c.Expired}
		e.Run = func(r *explore.Recorder) {
			c.Exec(fmt.Sprintf("[c14] %s %v", sc.Name, r.Prefix))
			last = run(c, sc, r)
		}
		reported := map[string]bool{}
		e.Visit = func(r *explore.Recorder) {
			c.Add("executions", 1)
			c.Add("transitions", len(last.trace))
			rp := replay{Scenario: sc, Choices: explore.Trim(r.Choices())}
			// report each signature once per case (the first, i.e. the least-deviating schedule)
			oc := oracleOnce(c, sc, last, rp, reported)
			c.Add("outcome:"+oc, 1)
			if c.Outcome(sc.Name + "|" + oc + "|" + strings.Join(last.handed, ",")) {
				c.Sample("c14", map[string]interface{}{"scenario": sc.Name, "choices": rp.Choices, "outcome": oc, "handed": last.handed, "schedule": last.trace})
			}
			for i := range last.trace {
				c.State(sc.Name + "|" + strings.Join(last.trace[:i+1], ";"))
			}
		}
		if isRoot {
			e.Explore(nil, nil, 0)
			return
		}
		root := &explore.Recorder{}
		run(c, sc, root)
		cost := 1
		if root.Points[pos].Free {
			cost = 0
		}
		e.Explore(explore.TaskPrefix(pos, alt), root.Labels(), sc.Bound-cost)
		if e.NondetPrefixes > 0 {
			c.Add("nondeterministic_prefixes", e.NondetPrefixes)
			c.Cap("nondeterministic-prefix")
		}
	}}
}

// oracleOnce suppresses repeated reports of the same signature within a case.
func oracleOnce(c *harness.C, sc scenario, res *result, rp replay, reported map[string]bool) string {
	return oracleCore(sc, res, rp, func(clause, sig, detail string) {
		c.Add("violating_schedules:"+sig, 1)
		if !reported[sig] {
			reported[sig] = true
			c.Violation(clause, sig, detail, rp)
		}
	})
}

func gen(c *harness.C) []harness.Case {
	c.Note("rule", "real msg.Box with sync/atomic rewritten to scheduling shims; threads = concurrent Box.HandleMessage (R) and Box.Send (S) calls; every interleaving at lock/atomic granularity within the preemption bound (2-thread scenarios: unbounded); oracle at the end of every interleaving; states = distinct schedule prefixes; distinct_nontrivial = distinct (scenario, outcome class, hand-over log)")
	if !overlayActive() {
		c.Note("c14-overlay", "shim overlay not active: scheduling points missing, exploration is vacuous")
	}
	var cases []harness.Case
	for _, sc := range scenarios(c.Thorough()) {
		cases = append(cases, scCase(sc, 0, 0, true))
		root := &explore.Recorder{}
		run(c, sc, root)
		for _, t := range explore.RootTasks(root) {
			cases = append(cases, scCase(sc, t[0], t[1], false))
		}
	}
	return cases
}

func overlayActive() bool { return os.Getenv("VERIF_OVERLAY_ACTIVE") != "0" }

func TestCheck(t *testing.T) { harness.Main(t, "C14", gen) }
