package c14

import (
	"encoding/json"
	"fmt"
	"os"
	"strings"
	"testing"

	"verif/checks/boxlib"
	"verif/explore"
	"verif/harness"
)

func scCase(sc boxlib.Scenario, pos, alt int, isRoot bool) harness.Case {
	id := sc.Name + "/root"
	if !isRoot {
		id = fmt.Sprintf("%s/task/%d:%d", sc.Name, pos, alt)
	}
	return harness.Case{ID: id, Run: func(c *harness.C) {
		if c.Replay != nil {
			var rp boxlib.Replay
			if json.Unmarshal(c.Replay, &rp) == nil {
				r := &explore.Recorder{Prefix: rp.Choices}
				res := boxlib.Run(c, rp.Scenario, r)
				oracleOnce(c, rp.Scenario, res, rp, map[string]bool{})
			}
			return
		}
		var last *boxlib.Result
		e := &explore.Explorer{Stop: c.Expired}
		e.Run = func(r *explore.Recorder) {
			c.Exec(fmt.Sprintf("[c14] %s %v", sc.Name, r.Prefix))
			last = boxlib.Run(c, sc, r)
		}
		reported := map[string]bool{}
		e.Visit = func(r *explore.Recorder) {
			c.Add("executions", 1)
			c.Add("transitions", len(last.Trace))
			rp := boxlib.Replay{Scenario: sc, Choices: explore.Trim(r.Choices())}
			// report each signature once per case (the first, i.e. the least-deviating schedule)
			oc := oracleOnce(c, sc, last, rp, reported)
			c.Add("outcome:"+oc, 1)
			if c.Outcome(sc.Name + "|" + oc + "|" + strings.Join(last.Handed, ",")) {
				c.Sample("c14", map[string]interface{}{"scenario": sc.Name, "choices": rp.Choices, "outcome": oc, "handed": last.Handed, "schedule": last.Trace})
			}
			for i := range last.Trace {
				c.State(sc.Name + "|" + strings.Join(last.Trace[:i+1], ";"))
			}
		}
		if isRoot {
			e.Explore(nil, nil, 0)
			return
		}
		root := &explore.Recorder{}
		boxlib.Run(c, sc, root)
		cost := 1
		if root.Points[pos].Free {
			cost = 0
		}
		e.Explore(explore.TaskPrefix(pos, alt), root.Labels(), sc.Bound-cost)
		if e.NondetPrefixes > 0 {
			c.Add("nondeterministic_prefixes", e.NondetPrefixes)
			c.Cap("nondeterministic-prefix")
		}
	}}
}

// oracleOnce suppresses repeated reports of the same signature within a case.
func oracleOnce(c *harness.C, sc boxlib.Scenario, res *boxlib.Result, rp boxlib.Replay, reported map[string]bool) string {
	if residueOnly {
		// C15's thread-level family: the same exploration, bookkeeping clause only
		boxlib.ResidueOracle(sc, res, rp, func(clause, sig, detail string) {
			c.Add("violating_schedules:"+sig, 1)
			if !reported[sig] {
				reported[sig] = true
				c.Violation(clause, sig, detail, rp)
			}
		})
		if len(res.Residue) > 0 {
			return "residue"
		}
		return "clean"
	}
	return boxlib.OracleCore(sc, res, rp, func(clause, sig, detail string) {
		if hangOnly {
			// the same exploration decides the buffer's part of C10: no input in no interleaving
			// wedges the box (the functional clauses belong to C14)
			if !strings.HasPrefix(sig, "c14-deadlock") {
				return
			}
			sig = "c10-box-wedged" + strings.TrimPrefix(sig, "c14-deadlock")
			clause = "no-hang"
		}
		c.Add("violating_schedules:"+sig, 1)
		if !reported[sig] {
			reported[sig] = true
			c.Violation(clause, sig, detail, rp)
		}
	})
}

var hangOnly = os.Getenv("VERIF_FAMILY") == "hang"
var residueOnly = os.Getenv("VERIF_FAMILY") == "residue"

func gen(c *harness.C) []harness.Case {
	if hangOnly || residueOnly {
		if p := os.Getenv("VERIF_PROP"); p != "" {
			c.Property = p
		}
	}
	boxlib.Residue = residueOnly
	c.Note("rule", "real msg.Box with sync/atomic rewritten to scheduling shims; threads = concurrent Box.HandleMessage (R) and Box.Send (S) calls; every interleaving at lock/atomic granularity within the preemption bound (2-thread scenarios: unbounded); oracle at the end of every interleaving; states = distinct schedule prefixes; distinct_nontrivial = distinct (scenario, outcome class, hand-over log)")
	if !overlayActive() {
		c.Note("c14-overlay", "shim overlay not active: scheduling points missing, exploration is vacuous")
	}
	var cases []harness.Case
	only := strings.Split(os.Getenv("VERIF_SCENARIOS"), ",")
	for _, sc := range boxlib.Scenarios(c.Thorough()) {
		if os.Getenv("VERIF_SCENARIOS") != "" {
			keep := false
			for _, pre := range only {
				if pre != "" && strings.HasPrefix(sc.Name, pre) {
					keep = true
				}
			}
			if !keep {
				continue
			}
		}
		cases = append(cases, scCase(sc, 0, 0, true))
		root := &explore.Recorder{}
		boxlib.Run(c, sc, root)
		for _, t := range explore.RootTasks(root) {
			cases = append(cases, scCase(sc, t[0], t[1], false))
		}
	}
	return cases
}

func overlayActive() bool { return os.Getenv("VERIF_OVERLAY_ACTIVE") != "0" }

func TestCheck(t *testing.T) {
	harness.Main(t, "C14", func(c *harness.C) []harness.Case {
		cs := gen(c)
		// two builds of this package inside one check must not share case names
		if pre := os.Getenv("VERIF_CASE_PREFIX"); pre != "" {
			for i := range cs {
				cs[i].ID = pre + cs[i].ID
			}
		}
		return cs
	})
}
