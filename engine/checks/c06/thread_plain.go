//go:build !verifoverlay

package c06

import "verif/harness"

func threadCases(c *harness.C) []harness.Case {
	c.Note("threads", "built without the sync-shim overlay: concurrent-send cases not run")
	return nil
}
