package c06

import (
	"bytes"
	"encoding/json"
	"fmt"
	"os"
	"sort"
	"strings"
	"testing"
	"time"

	tss "github.com/IBM/TSS/types"
	"verif/backend/s"
	"verif/explore"
	"verif/harness"
	"verif/scen"
	"verif/world"
)

// cell is one configuration: a membership map, the nodes that take part, the operation.
type cell struct {
	Name    string            `json:"name"`
	Mode    string            `json:"mode"`
	Map     map[uint16]uint16 `json:"map"`  // node -> party
	Part    []uint16          `json:"part"` // participating nodes (sorted)
	Op      string            `json:"op"`   // "keygen" or "keygen+sign"
	Signers []uint16          `json:"signers,omitempty"`
	// MapKG, if set, is what Membership() returns until the key generation is over; Map is what it
	// returns afterwards (the membership of a long-lived Scheme changes between operations)
	MapKG map[uint16]uint16 `json:"map_keygen,omitempty"`
	// PickDesc: in silent mode the application's member picker lists the nodes in descending order
	PickDesc bool `json:"pick_descending,omitempty"`
}

func (k cell) kgCell() cell {
	if k.MapKG != nil {
		k.Map = k.MapKG
	}
	return k
}

func (k cell) id() string {
	if k.PickDesc {
		return fmt.Sprintf("%s/%s/%s/p%v/pick-desc", k.Mode, k.Name, k.Op, k.Part)
	}
	return fmt.Sprintf("%s/%s/%s/p%v", k.Mode, k.Name, k.Op, k.Part)
}

func (k cell) dupParty(nodes []uint16) bool {
	seen := map[uint16]bool{}
	for _, n := range nodes {
		if seen[k.Map[n]] {
			return true
		}
		seen[k.Map[n]] = true
	}
	return false
}

func (k cell) parties(nodes []uint16) []uint16 {
	var ps []uint16
	for _, n := range nodes {
		ps = append(ps, k.Map[n])
	}
	sort.Slice(ps, func(i, j int) bool { return ps[i] < ps[j] })
	return ps
}

type out struct {
	kg    map[uint16]*scen.Result
	sg    map[uint16]*scen.Result
	log   []s.Rec
	sends []*world.Packet
	trace []string
}

func run(c *harness.C, k cell, r world.Chooser) *out {
	o := &out{kg: map[uint16]*scen.Result{}, sg: map[uint16]*scen.Result{}}
	rec := c.Bubble(func() {
		var nodes []uint16
		for n := range k.Map {
			nodes = append(nodes, n)
		}
		for n := range k.MapKG {
			if _, ok := k.Map[n]; !ok {
				nodes = append(nodes, n)
			}
		}
		sort.Slice(nodes, func(i, j int) bool { return nodes[i] < nodes[j] })
		w := world.New(nodes)
		lg := s.NewLog()
		cur := k.kgCell().Map
		po := func(node uint16) uint16 { return cur[node] }
		st := &scen.Stack{Mode: k.Mode, Threshold: len(k.Signers) - 1, Membership: cur,
			KGF: func(id uint16) tss.KeyGenerator { return s.New(id, po, lg) },
			SF:  func(id uint16) tss.Signer { return s.New(id, po, lg) }}
		if k.Mode == "silent" {
			dkgTopic := world.Sha([]byte(tss.DkgTopicName))
			ord := func(l []uint16) []uint16 {
				o := append([]uint16(nil), l...)
				if k.PickDesc {
					for i, j := 0, len(o)-1; i < j; i, j = i+1, j-1 {
						o[i], o[j] = o[j], o[i]
					}
				}
				return o
			}
			st.Pick = func(topic []byte, expected int) []uint16 {
				if bytes.Equal(topic, dkgTopic) {
					return ord(k.Part)
				}
				return ord(k.Signers)
			}
		}
		for _, n := range nodes {
			st.Build(w, n)
		}
		rs := scen.NewResults()
		for _, n := range k.Part {
			scen.StartKeyGen(w, w.Parties[n], rs, fmt.Sprint("kg", n), len(k.Part), len(k.Part), 6*time.Second)
		}
		w.Loop(r, 7*time.Second)
		ok := true
		for _, n := range k.Part {
			o.kg[n] = rs.Get(fmt.Sprint("kg", n))
			if !o.kg[n].Returned || o.kg[n].Err != nil {
				ok = false
			}
		}
		if ok && k.Op == "keygen+sign" {
			cur = k.Map
			st.Membership = k.Map
			for _, n := range k.Signers {
				data := []byte(nil)
				if o.kg[n] != nil {
					data = o.kg[n].Data
				} else {
					// a replica that did not take part in the key generation holds the share of
					// its party (copied from the replica that did)
					for _, m := range k.Part {
						if k.kgCell().Map[m] == k.Map[n] {
							data = o.kg[m].Data
						}
					}
				}
				w.Parties[n].Mpc.SetStoredData(data)
			}
			for _, n := range k.Signers {
				scen.StartSign(w, w.Parties[n], rs, fmt.Sprint("sg", n), []byte("digest-c06"), "topic-c06", 6*time.Second)
			}
			w.Loop(r, 14*time.Second)
			for _, n := range k.Signers {
				o.sg[n] = rs.Get(fmt.Sprint("sg", n))
			}
		}
		o.log = lg.Snapshot()
		o.sends = w.Net.SendLog
		o.trace = w.Trace
		w.Stop()
	})
	if rec != nil && !harness.IsLeakPanic(rec) {
		panic(rec)
	}
	return o
}

type replay struct {
	Cell    cell  `json:"cell"`
	Choices []int `json:"choices"`
}

func mapClass(k cell) string {
	inj := !k.dupParty(allNodes(k))
	ident := true
	for n, p := range k.Map {
		if n != p {
			ident = false
		}
	}
	switch {
	case ident:
		return "identity"
	case inj:
		return "injective"
	default:
		return "replicas"
	}
}

func allNodes(k cell) []uint16 {
	var ns []uint16
	for n := range k.Map {
		ns = append(ns, n)
	}
	return ns
}

// oracle checks one execution. phase "keygen" / "sign".
func oracle(c *harness.C, k cell, o *out, rp replay) bool {
	okAll := true
	cls := mapClass(k)
	bad := func(clause, sig, detail string) {
		okAll = false
		if syncSlice != "" {
			// C07's full-stack slice: with exactly the expected honest nodes invoking and every
			// message delivered, the synchronisations inside KeyGen / Sign complete - for every
			// membership map (the synchroniser works on node identifiers)
			if !strings.HasSuffix(sig, "-fails") && !strings.Contains(sig, "never-returned") {
				return
			}
			if !strings.Contains(detail, "deadline") && !strings.Contains(detail, "synchron") && !strings.Contains(detail, "never returned") {
				return
			}
			clause = "honest-runs-complete (synchronisation inside " + clause + ")"
			sig = strings.ToLower(syncSlice) + "-session-synchronisation-" + sig
		}
		if mapSliceProp != "" {
			sig = strings.ToLower(mapSliceProp) + "-membership-" + sig
		}
		c.Violation(clause, sig+":"+cls, k.id()+": "+detail, rp)
	}
	nodeSess := map[string][]s.Rec{}
	for _, r := range o.log {
		key := fmt.Sprintf("%d/%d", r.Node, r.Session)
		nodeSess[key] = append(nodeSess[key], r)
	}
	checkPhase := func(phase string, k cell, nodes []uint16, res map[uint16]*scen.Result, sessOf func(uint16) int) {
		dup := k.dupParty(nodes)
		want := k.parties(nodes)
		for _, n := range nodes {
			r := res[n]
			if r == nil || !r.Returned {
				bad(phase+"-returns", "c06-"+phase+"-never-returned", fmt.Sprintf("node %d never returned", n))
				return
			}
			recs := nodeSess[fmt.Sprintf("%d/%d", n, sessOf(n))]
			var inits []s.Rec
			for _, x := range recs {
				if x.Kind == "init" {
					inits = append(inits, x)
				}
			}
			if dup {
				if r.Err == nil {
					bad("duplicate-party-refused", "c06-"+phase+"-duplicate-party-accepted", fmt.Sprintf("node %d completed although two selected nodes represent one party", n))
				}
				if len(inits) > 0 {
					bad("duplicate-party-refused", "c06-"+phase+"-duplicate-party-init", fmt.Sprintf("backend of node %d was initialised although two selected nodes represent one party", n))
				}
				continue
			}
			if len(inits) != 1 {
				bad("init-once", "c06-"+phase+"-init-count", fmt.Sprintf("backend of node %d initialised %d times", n, len(inits)))
				continue
			}
			if fmt.Sprint(inits[0].Parties) != fmt.Sprint(want) {
				bad("init-sorted-party-ids", "c06-"+phase+"-init-parties", fmt.Sprintf("backend of node %d initialised with %v, expected sorted party ids %v", n, inits[0].Parties, want))
				continue
			}
			// every point-to-point sendMsg(to=p) -> exactly one transmission, to the participating node of p
			nodeOf := map[uint16]uint16{}
			for _, m := range nodes {
				nodeOf[k.Map[m]] = m
			}
			for _, x := range recs {
				if x.Kind != "send" || x.Broadcast {
					continue
				}
				wire := append([]byte{255}, x.Payload...)
				var dsts []uint16
				for _, p := range o.sends {
					if p.From == n && p.Type == 2 && bytes.Equal(p.Data, wire) {
						dsts = append(dsts, p.To)
					}
				}
				if len(dsts) != 1 || dsts[0] != nodeOf[x.To] {
					bad("p2p-destination", "c06-"+phase+"-p2p-destination", fmt.Sprintf("node %d: point-to-point message for party %d transmitted to nodes %v, expected exactly node %d", n, x.To, dsts, nodeOf[x.To]))
				}
			}
			if r.Err != nil {
				bad(phase+"-succeeds", "c06-"+phase+"-fails", fmt.Sprintf("node %d: %v", n, r.Err))
				continue
			}
			// every OnMsg attributed to the party id of the node that sent it: S bodies carry the
			// author (round values are functions of the author's party id), checked by S itself for
			// round 0; here for the broadcast rounds
			for _, x := range recs {
				if x.Kind != "onmsg" || len(x.Payload) < 2 {
					continue
				}
				known := false
				for _, p := range want {
					if p == x.From {
						known = true
					}
				}
				if !known {
					bad("onmsg-attribution", "c06-"+phase+"-onmsg-from-not-a-party", fmt.Sprintf("backend of node %d saw a message attributed to %d, which is not a party id of the session %v", n, x.From, want))
				}
			}
		}
	}
	kg := k.kgCell()
	checkPhase("keygen", kg, k.Part, o.kg, func(uint16) int { return 1 })
	if !okAll {
		return false
	}
	if !kg.dupParty(k.Part) {
		key := s.DKGKey(kg.parties(k.Part))
		for _, n := range k.Part {
			var st s.Stored
			json.Unmarshal(o.kg[n].Data, &st)
			if !bytes.Equal(st.Key, key) {
				bad("keygen-result", "c06-keygen-wrong-key", fmt.Sprintf("node %d obtained a key that is not the one of parties %v (a message was attributed to the wrong party)", n, kg.parties(k.Part)))
			}
		}
	}
	if k.Op == "keygen+sign" && !kg.dupParty(k.Part) {
		// signer instances: ThresholdPK is not called, so the signing session is instance 2 of each
		// node that took part in the key generation (instance 1 of a node that did not)
		checkPhase("sign", k, k.Signers, o.sg, func(n uint16) int {
			for _, m := range k.Part {
				if m == n {
					return 2
				}
			}
			if k.MapKG == nil {
				return 2
			}
			return 1
		})
		if okAll && !k.dupParty(k.Signers) {
			for _, n := range k.Signers {
				if !s.VerifySig(s.DKGKey(kg.parties(k.Part)), []byte("digest-c06"), k.parties(k.Signers), o.sg[n].Data) {
					bad("sign-result", "c06-sign-wrong-signature", fmt.Sprintf("node %d returned a signature that does not verify for signer parties %v", n, k.parties(k.Signers)))
				}
			}
		}
	}
	return okAll
}

func cellCase(k cell, bound int, repeats int) harness.Case {
	return harness.Case{ID: fmt.Sprintf("%s/d%d", k.id(), bound), Run: func(c *harness.C) {
		if c.Replay != nil {
			var rp replay
			if json.Unmarshal(c.Replay, &rp) == nil {
				for i := 0; i < repeats; i++ {
					r := &explore.Recorder{Prefix: rp.Choices}
					o := run(c, rp.Cell, r)
					oracle(c, rp.Cell, o, rp)
				}
			}
			return
		}
		for rep := 0; rep < repeats; rep++ {
			var last *out
			e := &explore.Explorer{Stop: c.Expired}
			e.Run = func(r *explore.Recorder) {
				c.Exec(fmt.Sprintf("[c06] %s %v", k.id(), r.Prefix))
				last = run(c, k, r)
			}
			e.Visit = func(r *explore.Recorder) {
				c.Add("executions", 1)
				c.Add("transitions", len(last.trace))
				rp := replay{Cell: k, Choices: explore.Trim(r.Choices())}
				oracle(c, k, last, rp)
				if c.Outcome(k.id() + "|" + strings.Join(last.trace, ";")) {
					c.Sample("c06", map[string]interface{}{"cell": k.id(), "map": fmt.Sprint(k.Map), "choices": rp.Choices, "steps": len(last.trace)})
				}
				hist := map[string][]string{}
				for _, t := range last.trace {
					if i := strings.Index(t, ">"); i > 0 {
						to := strings.SplitN(t[i+1:], " ", 2)[0]
						hist[to] = append(hist[to], t)
						c.State(k.id() + "|" + to + "|" + strings.Join(hist[to], ";"))
					}
				}
			}
			b := bound
			if rep > 0 {
				b = 0
			}
			e.Explore(nil, nil, b)
			if e.NondetPrefixes > 0 {
				c.Add("nondeterministic_prefixes", e.NondetPrefixes)
				c.Cap("nondeterministic-prefix")
			}
		}
	}}
}

var syncSlice = func() string {
	if os.Getenv("VERIF_FAMILY") == "syncslice" {
		return os.Getenv("VERIF_PROP")
	}
	return ""
}()

// mapslice: some cell families of this check, run for another property whose guarantee rests on the
// orchestrator's treatment of the membership map (two nodes of one party in one session would give
// a backend two broadcasts per (party, round): C02/C03; a point-to-point message that leaves the
// session: C04). VERIF_CELLS lists the cell-name prefixes.
var mapSliceProp, mapSliceCells = func() (string, []string) {
	if os.Getenv("VERIF_FAMILY") == "mapslice" {
		return os.Getenv("VERIF_PROP"), strings.Split(os.Getenv("VERIF_CELLS"), ",")
	}
	return "", nil
}()

func gen(c *harness.C) []harness.Case {
	if syncSlice != "" {
		c.Property = syncSlice
	}
	if mapSliceProp != "" {
		c.Property = mapSliceProp
	}
	c.Note("rule", "cells = membership map (identity / injective order-preserving and order-reversing with small and 16-bit boundary values / non-injective with replicas) x participating node set x operation x mode; each cell runs the full real stack with logging backend S under the default schedule and all <=d-deviation schedules; replica cells are repeated 16 times because Go map iteration order inside computeMembership cannot be owned; distinct_nontrivial = distinct (cell, class trace)")
	if os.Getenv("VERIF_FAMILY") == "threads" {
		return threadCases(c)
	}
	var cells []cell
	add := func(name string, m map[uint16]uint16, parts [][]uint16, signers func(p []uint16) []uint16) {
		for _, mode := range []string{"loud", "silent"} {
			for _, p := range parts {
				sg := signers(p)
				cells = append(cells, cell{Name: name, Mode: mode, Map: m, Part: p, Op: "keygen+sign", Signers: sg})
			}
		}
	}
	first2 := func(p []uint16) []uint16 { return p[:2] }
	last2 := func(p []uint16) []uint16 { return p[len(p)-2:] }
	all := func(p []uint16) []uint16 { return p }
	add("ident3", map[uint16]uint16{1: 1, 2: 2, 3: 3}, [][]uint16{{1, 2, 3}}, first2)
	add("shift3", map[uint16]uint16{1: 11, 2: 12, 3: 13}, [][]uint16{{1, 2, 3}}, last2)
	add("rev3", map[uint16]uint16{1: 13, 2: 12, 3: 11}, [][]uint16{{1, 2, 3}}, all)
	add("swap2of3", map[uint16]uint16{1: 2, 2: 1, 3: 3}, [][]uint16{{1, 2, 3}}, first2)
	add("boundary3", map[uint16]uint16{255: 65535, 256: 0, 65534: 257}, [][]uint16{{255, 256, 65534}}, last2)
	// node identifier 0 and party identifier 0 are ordinary values
	add("node-zero", map[uint16]uint16{0: 7, 5: 3, 9: 12}, [][]uint16{{0, 5, 9}}, all)
	add("node-zero-party-zero", map[uint16]uint16{0: 0, 1: 1, 2: 2}, [][]uint16{{0, 1, 2}}, first2)
	// node 1 and node 2 are replicas of party 21
	rep := map[uint16]uint16{1: 21, 2: 21, 3: 22, 4: 23}
	add("replicas4", rep, [][]uint16{{1, 3, 4}, {2, 3, 4}, {1, 2, 3}}, first2)
	// the duplicated party is the lowest / the middle / the highest of the selected ones, in key
	// generation and in signing; and a session of two replicas of one single party
	add("dup-low", map[uint16]uint16{1: 21, 2: 21, 3: 22, 4: 23}, [][]uint16{{1, 2, 3}, {1, 2, 4}}, all)
	add("dup-mid", map[uint16]uint16{1: 21, 2: 22, 3: 22, 4: 23}, [][]uint16{{1, 2, 3, 4}, {2, 3, 4}}, all)
	add("dup-high", map[uint16]uint16{1: 21, 2: 22, 3: 23, 4: 23}, [][]uint16{{1, 3, 4}, {2, 3, 4}, {1, 2, 3, 4}}, all)
	add("dup-high-boundary", map[uint16]uint16{1: 2, 2: 3, 3: 65535, 4: 65535}, [][]uint16{{1, 2, 3, 4}}, all)
	add("dup-only", map[uint16]uint16{1: 7, 2: 7, 3: 8}, [][]uint16{{1, 2}}, all)
	// one of the two replicas is node 0; the replicas are not neighbours in node order; the
	// duplicated party is party 0
	add("dup-node-zero", map[uint16]uint16{0: 7, 1: 1, 5: 7}, [][]uint16{{0, 1, 5}}, all)
	add("dup-node-zero-low", map[uint16]uint16{0: 7, 1: 7, 2: 8}, [][]uint16{{0, 1, 2}}, all)
	add("dup-apart", map[uint16]uint16{1: 1, 2: 3, 3: 2, 4: 3}, [][]uint16{{1, 2, 3, 4}}, all)
	add("dup-party-zero", map[uint16]uint16{1: 0, 2: 0, 3: 5}, [][]uint16{{1, 2, 3}}, all)
	// duplicate only among the signers (the key generation is fine)
	add("dup-signers-high", map[uint16]uint16{1: 21, 2: 22, 3: 23, 4: 23}, [][]uint16{{1, 2, 3}}, func(p []uint16) []uint16 { return []uint16{2, 3, 4} })
	// replicas whose party id collides with another node id
	rep2 := map[uint16]uint16{1: 3, 2: 3, 3: 1, 4: 2}
	add("replicas4x", rep2, [][]uint16{{1, 3, 4}, {2, 3, 4}}, last2)
	// silent mode with a member picker that does not list the nodes in ascending order
	for _, k := range append([]cell(nil), cells...) {
		if k.Mode == "silent" && (k.Name == "shift3" || k.Name == "rev3" || k.Name == "boundary3" || k.Name == "replicas4" || k.Name == "node-zero") {
			k.PickDesc = true
			cells = append(cells, k)
		}
	}
	// the membership of long-lived Schemes changes between the key generation and the signing
	// session (README: a replica is added / a node is removed)
	for _, mode := range []string{"loud", "silent"} {
		cells = append(cells,
			cell{Name: "grow-replica", Mode: mode, MapKG: map[uint16]uint16{1: 1, 2: 2, 3: 3}, Map: map[uint16]uint16{1: 1, 2: 2, 3: 3, 11: 1}, Part: []uint16{1, 2, 3}, Op: "keygen+sign", Signers: []uint16{2, 3, 11}},
			cell{Name: "grow-replica-high", Mode: mode, MapKG: map[uint16]uint16{1: 1, 2: 2, 3: 3}, Map: map[uint16]uint16{1: 1, 2: 2, 3: 3, 11: 3}, Part: []uint16{1, 2, 3}, Op: "keygen+sign", Signers: []uint16{1, 11}},
			cell{Name: "shrink", Mode: mode, MapKG: map[uint16]uint16{1: 1, 2: 2, 3: 3, 4: 4}, Map: map[uint16]uint16{1: 1, 2: 2, 3: 3}, Part: []uint16{1, 2, 3}, Op: "keygen+sign", Signers: []uint16{1, 3}},
			cell{Name: "replace-node", Mode: mode, MapKG: map[uint16]uint16{1: 1, 2: 2, 3: 3}, Map: map[uint16]uint16{1: 1, 2: 2, 30: 3}, Part: []uint16{1, 2, 3}, Op: "keygen+sign", Signers: []uint16{1, 2, 30}})
	}
	if c.Thorough() {
		add("rev4", map[uint16]uint16{1: 40, 2: 30, 3: 20, 4: 10}, [][]uint16{{1, 2, 3, 4}, {1, 2, 4}, {2, 3, 4}}, first2)
		add("boundaryrev3", map[uint16]uint16{0: 65535, 1: 256, 65535: 0}, [][]uint16{{0, 1, 65535}}, all)
		rep3 := map[uint16]uint16{1: 5, 2: 5, 3: 6, 4: 6}
		add("tworeplicapairs", rep3, [][]uint16{{1, 3}, {2, 4}, {1, 4}, {1, 2}}, all)
	}
	if mapSliceProp != "" {
		var keep []cell
		for _, k := range cells {
			for _, pre := range mapSliceCells {
				if pre != "" && strings.HasPrefix(k.Name, pre) {
					keep = append(keep, k)
					break
				}
			}
		}
		cells = keep
	}
	var cases []harness.Case
	for _, k := range cells {
		bound := 1
		if c.Thorough() && (k.Name == "shift3" || k.Name == "replicas4") {
			bound = 2
		}
		repeats := 1
		if mapClass(k) == "replicas" {
			repeats = 16
		}
		cases = append(cases, cellCase(k, bound, repeats))
	}
	return cases
}

func TestCheck(t *testing.T) { harness.Main(t, "C06", gen) }
