//go:build verifoverlay

package c06

import (
	"context"
	"encoding/json"
	"fmt"
	"sort"
	"strings"
	"sync/atomic"
	"time"

	"github.com/IBM/TSS/threshold"
	tss "github.com/IBM/TSS/types"
	"verif/backend/s"
	"verif/explore"
	"verif/harness"
	"verif/shim/sched"
	"verif/world"
)

// Thread-level part of C06 (engine E3, -race): a protocol instance emits point-to-point messages
// from several goroutines at once (protocol goroutine, dispatcher threads answering). Every
// message must be transmitted to exactly the node that represents the addressed party - also when
// the calls overlap and the transport looks at its destination list late.

type sendRec struct {
	payload string
	to      []uint16
}

type tlog struct {
	n atomic.Int32
	e [64]sendRec
}

func (l *tlog) add(r sendRec) {
	sched.Hidden(func() {
		if i := int(l.n.Add(1)) - 1; i < len(l.e) {
			l.e[i] = r
		}
	})
}

type sBackend struct {
	send    func([]byte, bool, uint16)
	entered chan struct{}
}

func (q *sBackend) ClassifyMsg(b []byte) (uint8, bool, error) { return s.Classify(b) }
func (q *sBackend) Init(_ []uint16, _ int, f func([]byte, bool, uint16)) {
	q.send = f
}
func (q *sBackend) OnMsg([]byte, uint16, bool) {}
func (q *sBackend) KeyGen(ctx context.Context) ([]byte, error) {
	close(q.entered)
	<-ctx.Done()
	return nil, ctx.Err()
}
func (q *sBackend) SetShareData([]byte) error    { return nil }
func (q *sBackend) ThresholdPK() ([]byte, error) { return []byte("pk"), nil }
func (q *sBackend) Sign(ctx context.Context, _ []byte) ([]byte, error) {
	close(q.entered)
	<-ctx.Done()
	return nil, ctx.Err()
}

type iSync struct{ members []uint16 }

func (i *iSync) Synchronize(_ context.Context, f func([]uint16), _ []byte, _ int, _ time.Duration) error {
	f(i.members)
	return nil
}
func (i *iSync) HandleMessage(uint16, []byte) {}

type tcfg struct {
	Mode string            `json:"mode"`
	Op   string            `json:"op"`
	Map  map[uint16]uint16 `json:"map"`
	Self uint16            `json:"self"`
}

func (k tcfg) id() string { return fmt.Sprintf("threads/%s/%s/self%d", k.Mode, k.Op, k.Self) }

func threadRun(c *harness.C, k tcfg, r *explore.Recorder) (got []sendRec, trace []string, unfin []string) {
	rec := c.Bubble(func() {
		lg := &tlog{}
		mem := map[tss.UniversalID]tss.PartyID{}
		var nodes []uint16
		for n, p := range k.Map {
			mem[tss.UniversalID(n)] = tss.PartyID(p)
			nodes = append(nodes, n)
		}
		sort.Slice(nodes, func(i, j int) bool { return nodes[i] < nodes[j] })
		send := func(msgType uint8, topic []byte, msg []byte, to ...uint16) {
			// a transport that looks at its arguments late (after it was scheduled out once)
			sched.Yield()
			if msgType == uint8(tss.MsgTypeMPC) {
				lg.add(sendRec{string(msg), append([]uint16(nil), to...)})
			}
		}
		be := &sBackend{entered: make(chan struct{})}
		var p tss.MpcParty
		mf := func() map[tss.UniversalID]tss.PartyID { return mem }
		if k.Mode == "silent" {
			p = threshold.SilentScheme(k.Self, world.NopLogger{}, func(uint16) tss.KeyGenerator { return be }, func(uint16) tss.Signer { return be }, len(nodes)-1, send, mf, func([]byte, int) []uint16 { return nodes })
		} else {
			p = threshold.LoudScheme(k.Self, world.NopLogger{}, func(uint16) tss.KeyGenerator { return be }, func(uint16) tss.Signer { return be }, len(nodes)-1, send, mf)
			p.(*threshold.Scheme).SyncFactory = func([]uint16, func([]byte), func([]byte, uint16)) tss.Synchronizer { return &iSync{members: nodes} }
		}
		ctx, cancel := context.WithCancel(context.Background())
		done := make(chan struct{})
		go func() {
			defer close(done)
			if k.Op == "sign" {
				p.SetStoredData([]byte("share"))
				p.Sign(ctx, world.Sha([]byte("d")), "topic")
				return
			}
			p.KeyGen(ctx, len(nodes), len(nodes))
		}()
		<-be.entered
		// the other parties, in two groups: one per sending thread
		var others []uint16
		for _, n := range nodes {
			if n != k.Self {
				others = append(others, k.Map[n])
			}
		}
		sc := sched.New()
		sc.Quantum, sc.Horizon = time.Second, 3
		for t := 0; t < 2; t++ {
			t := t
			sc.Go(fmt.Sprintf("S%d", t), func() {
				for i, party := range others {
					if i%2 == t {
						be.send(append([]byte{s.ClassP2P, 1}, []byte(fmt.Sprintf("for-%d", party))...), false, party)
					}
				}
			})
		}
		sc.Run(r)
		unfin = sc.WaitAll()
		trace = sc.Trace
		sc.Close()
		n := int(lg.n.Load())
		got = append(got, lg.e[:min(n, len(lg.e))]...)
		cancel()
		<-done
	})
	if rec != nil && !harness.IsLeakPanic(rec) {
		panic(rec)
	}
	return
}

type threadReplay struct {
	Threads tcfg  `json:"threads"`
	Choices []int `json:"choices"`
}

func threadCases(c *harness.C) []harness.Case {
	c.Note("threads-rule", "thread-level exploration (E3, -race) of two goroutines of one protocol instance emitting point-to-point messages through the real Scheme at once, with a transport that reads its destination list after a scheduling point: every message is transmitted to exactly the node of the addressed party; preemption bound 2 (thorough 3)")
	bound := 2
	if c.Thorough() {
		bound = 3
	}
	var cases []harness.Case
	m := map[uint16]uint16{2: 12, 5: 3, 9: 7, 11: 20}
	for _, mode := range []string{"loud", "silent"} {
		for _, op := range []string{"keygen", "sign"} {
			k := tcfg{Mode: mode, Op: op, Map: m, Self: 5}
			cases = append(cases, harness.Case{ID: k.id(), Run: func(c *harness.C) {
				nodeOf := map[uint16]uint16{}
				for n, p := range k.Map {
					nodeOf[p] = n
				}
				var got []sendRec
				var trace, unfin []string
				reported := map[string]bool{}
				e := &explore.Explorer{Stop: c.Expired}
				e.Run = func(r *explore.Recorder) {
					c.Exec(fmt.Sprintf("[threads] %s %v", k.id(), r.Prefix))
					got, trace, unfin = threadRun(c, k, r)
				}
				e.Visit = func(r *explore.Recorder) {
					c.Add("executions", 1)
					c.Add("transitions", len(trace))
					rp := threadReplay{k, explore.Trim(r.Choices())}
					viol := func(clause, sig, detail string) {
						if !reported[sig] {
							reported[sig] = true
							c.Violation(clause, sig, detail, rp)
						}
					}
					for _, rr := range c.NewRaceReports() {
						if rr.Frames[0] == "" || rr.Frames[1] == "" {
							c.Add("race_reports_with_harness_frames", 1)
							continue
						}
						viol("p2p-destination (no data race on the destination list)", "c06-"+rr.Signature, fmt.Sprintf("%s schedule %v: data race between %s and %s", k.id(), rp.Choices, rr.Frames[0], rr.Frames[1]))
					}
					if len(unfin) > 0 {
						viol("sends-return", "c06-threads-never-return", fmt.Sprintf("%s schedule %v: %v never returned", k.id(), rp.Choices, unfin))
						return
					}
					seen := map[string]int{}
					for _, g := range got {
						if len(g.payload) < 4 || !strings.HasPrefix(g.payload[3:], "for-") {
							continue
						}
						var party uint16
						fmt.Sscanf(g.payload[3:], "for-%d", &party)
						seen[g.payload]++
						if len(g.to) != 1 || g.to[0] != nodeOf[party] {
							viol("p2p-destination", "c06-concurrent-p2p-destination:"+k.Mode, fmt.Sprintf("%s schedule %v: the point-to-point message for party %d was transmitted to nodes %v, expected exactly node %d", k.id(), rp.Choices, party, g.to, nodeOf[party]))
						}
					}
					for n, p := range k.Map {
						if n == k.Self {
							continue
						}
						key := string(append([]byte{255, s.ClassP2P, 1}, []byte(fmt.Sprintf("for-%d", p))...))
						if seen[key] != 1 {
							viol("p2p-destination", "c06-concurrent-p2p-count:"+k.Mode, fmt.Sprintf("%s schedule %v: the point-to-point message for party %d was transmitted %d times", k.id(), rp.Choices, p, seen[key]))
						}
					}
					c.Outcome(k.id() + "|" + strings.Join(trace, ";"))
				}
				if c.Replay != nil {
					var rp threadReplay
					if json.Unmarshal(c.Replay, &rp) == nil {
						e.Explore(rp.Choices, nil, -1)
					}
					return
				}
				e.Explore(nil, nil, bound)
				if e.NondetPrefixes > 0 {
					c.Add("nondeterministic_prefixes", e.NondetPrefixes)
					c.Cap("nondeterministic-prefix")
				}
			}})
		}
	}
	return cases
}
