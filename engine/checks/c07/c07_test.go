package c07

import (
	"context"
	"crypto/hmac"
	"crypto/sha256"
	"encoding/json"
	"fmt"
	"sort"
	"strings"
	"sync"
	"testing"
	"time"

	discovery "github.com/IBM/TSS/disc"
	"github.com/IBM/TSS/threshold"
	tss "github.com/IBM/TSS/types"
	"verif/explore"
	"verif/harness"
	"verif/world"
)

var topic = func() []byte { h := sha256.Sum256([]byte("c07-topic")); return h[:] }()

func tagOf(id uint16) []byte {
	h := hmac.New(sha256.New, topic)
	h.Write([]byte{byte(id), byte(id >> 8)})
	return h.Sum(nil)
}

func encode(msgType byte, tag []byte, view []uint16) []byte {
	b := append([]byte{msgType}, tag...)
	for _, p := range view {
		b = append(b, byte(p), byte(p>>8))
	}
	return b
}

type memberParty struct{ m *discovery.Member }

func (p *memberParty) HandleMessage(m *tss.IncMessage)                      { p.m.HandleMessage(m.Source, m.Data) }
func (p *memberParty) Sign(context.Context, []byte, string) ([]byte, error) { return nil, nil }
func (p *memberParty) KeyGen(context.Context, int, int) ([]byte, error)     { return nil, nil }
func (p *memberParty) SetStoredData([]byte)                                 {}
func (p *memberParty) ThresholdPK() ([]byte, error)                         { return nil, nil }

type scfg struct {
	Name     string   `json:"name"`
	U        []uint16 `json:"universe"`
	E        int      `json:"expected"`
	Invokers []uint16 `json:"invokers"` // honest members that call Synchronize
	Byz      []uint16 `json:"byz"`      // Byzantine members (part of U, no honest object)
	Budget   int      `json:"byz_budget"`
	Rich     bool     `json:"rich"` // full Byzantine alphabet
	Early    bool     `json:"early_advance"`
	// Out: authenticated senders that are not configured members (they hold no tag of their own
	// that anybody registered, but can compute every member's tag from the topic)
	Out []uint16 `json:"outsiders,omitempty"`
	// React: a reactive adversary (Out[0], else Byz[0]): whenever an honest member broadcasts, it
	// announces itself to that member and acknowledges the view it wants to impose.
	// "<tag>:<view>", tag in own|invoker|absent, view in withme|withabsent
	React string `json:"react,omitempty"`
	// Repeat: every schedule is executed this many times (the implementation iterates over a map
	// whose order the harness does not own; the outcome may depend on it)
	Repeat int `json:"repeat,omitempty"`
	// Slow: directed links whose packets are held back until Release probe intervals have passed
	// (an asymmetric partition that heals); SlowMask is its compact form for the case id
	Slow    [][2]uint16 `json:"slow_links,omitempty"`
	Release int         `json:"release_intervals,omitempty"`
	// Retry: an invoker whose Synchronize returned an error invokes it once more on the same topic
	Retry bool `json:"retry,omitempty"`
}

func (k scfg) id() string {
	if len(k.Out) > 0 {
		return fmt.Sprintf("%s/U%v/e%d/inv%v/byz%v/out%v%s", k.Name, k.U, k.E, k.Invokers, k.Byz, k.Out, k.React)
	}
	if k.React != "" {
		return fmt.Sprintf("%s/U%v/e%d/inv%v/byz%v/%s/retry=%v", k.Name, k.U, k.E, k.Invokers, k.Byz, k.React, k.Retry)
	}
	if len(k.Slow) > 0 {
		return fmt.Sprintf("%s/U%v/e%d/inv%v/slow%v/r%d", k.Name, k.U, k.E, k.Invokers, k.Slow, k.Release)
	}
	return fmt.Sprintf("%s/U%v/e%d/inv%v/byz%v", k.Name, k.U, k.E, k.Invokers, k.Byz)
}

type compl struct {
	list  []uint16
	runs  int
	heard map[uint16]bool // members that had sent this one a message when the continuation ran
	err   error
	ret   bool
	at    time.Duration
}

type out struct {
	m     map[uint16]*compl
	trace []string
}

const interval = 200 * time.Millisecond
const deadline = 900 * time.Millisecond // 4.5 probe intervals

func isIn(x uint16, l []uint16) bool {
	for _, y := range l {
		if x == y {
			return true
		}
	}
	return false
}

func (k scfg) byzActions() [][3]interface{} { return nil }

type byzAct struct {
	label string
	from  uint16
	to    uint16
	data  []byte
	more  []byzAct // further messages of a macro action, injected in this order
}

// outsiderActions: an authenticated non-member uses the tag of a configured member (absent, or an
// invoker) or a tag computed for itself; single messages and floods (types 1,2,3 to every invoker).
func (k scfg) outsiderActions() []byzAct {
	var acts []byzAct
	for _, x := range k.Out {
		var absent []uint16
		for _, u := range k.U {
			if !isIn(u, k.Invokers) && !isIn(u, k.Byz) {
				absent = append(absent, u)
			}
		}
		type tg struct {
			n string
			t []byte
		}
		tags := []tg{{"outsider", tagOf(x)}, {"invoker", tagOf(k.Invokers[0])}}
		for _, a := range absent {
			tags = append(tags, tg{fmt.Sprintf("absent%d", a), tagOf(a)})
		}
		withX := append(append([]uint16(nil), k.Invokers...), x)
		sort.Slice(withX, func(i, j int) bool { return withX[i] < withX[j] })
		views := [][]uint16{withX}
		for _, a := range absent {
			v := append(append([]uint16(nil), k.Invokers...), a)
			sort.Slice(v, func(i, j int) bool { return v[i] < v[j] })
			views = append(views, v)
		}
		for _, t := range tags {
			for _, vw := range views {
				var seq []byzAct
				for mt := byte(1); mt <= 3; mt++ {
					for _, v := range k.Invokers {
						one := byzAct{label: fmt.Sprintf("out %d>%d s%d %s %v", x, v, mt, t.n, vw), from: x, to: v, data: encode(mt, t.t, vw)}
						acts = append(acts, one)
						seq = append(seq, one)
					}
				}
				fl := seq[0]
				fl.label = fmt.Sprintf("out %d flood %s %v", x, t.n, vw)
				fl.more = seq[1:]
				acts = append(acts, fl)
			}
		}
	}
	return acts
}

func (k scfg) actions() []byzAct {
	acts := k.outsiderActions()
	for _, b := range k.Byz {
		var views [][]uint16
		all := append([]uint16(nil), k.Invokers...)
		all = append(all, b)
		sort.Slice(all, func(i, j int) bool { return all[i] < all[j] })
		views = append(views, all)
		for _, v := range k.Invokers {
			pair := []uint16{b, v}
			sort.Slice(pair, func(i, j int) bool { return pair[i] < pair[j] })
			views = append(views, pair)
		}
		// views of size E containing b
		if k.E <= len(all) {
			views = append(views, all[:k.E])
			views = append(views, all[len(all)-k.E:])
		}
		if k.Rich {
			us := append([]uint16(nil), k.U...)
			sort.Slice(us, func(i, j int) bool { return us[i] < us[j] })
			views = append(views, nil, []uint16{b}, us, append(append([]uint16(nil), all...), 4242),
				[]uint16{all[len(all)-1], all[0]}, []uint16{b, b})
			for _, v := range k.Invokers {
				views = append(views, []uint16{v})
			}
		}
		tags := []struct {
			n string
			t []byte
		}{{"own", tagOf(b)}}
		if k.Rich {
			tags = append(tags, struct {
				n string
				t []byte
			}{"honest", tagOf(k.Invokers[0])}, struct {
				n string
				t []byte
			}{"random", make([]byte, 32)})
		}
		seen := map[string]bool{}
		for _, v := range k.Invokers {
			for _, tg := range tags {
				for mt := byte(1); mt <= 3; mt++ {
					for _, vw := range views {
						l := fmt.Sprintf("byz %d>%d s%d %s %v", b, v, mt, tg.n, vw)
						if seen[l] {
							continue
						}
						seen[l] = true
						acts = append(acts, byzAct{label: l, from: b, to: v, data: encode(mt, tg.t, vw)})
					}
				}
			}
		}
	}
	return acts
}

func run(c *harness.C, k scfg, r world.Chooser) *out {
	o := &out{m: map[uint16]*compl{}}
	rec := c.Bubble(func() {
		w := world.New(append(append([]uint16(nil), k.U...), k.Out...))
		w.Quantum = interval / 2
		w.EarlyAdvance = k.Early
		var mu sync.Mutex
		attempt := map[uint16]int{}
		heard := map[uint16]map[uint16]bool{}
		for _, id := range k.U {
			heard[id] = map[uint16]bool{}
		}
		w.OnDeliver = func(p *world.Packet) {
			mu.Lock()
			if heard[p.To] == nil {
				heard[p.To] = map[uint16]bool{}
			}
			heard[p.To][p.From] = true
			mu.Unlock()
		}
		for _, id := range k.U {
			if isIn(id, k.Byz) {
				continue
			}
			id := id
			w.AddParty(id, func(send func(uint8, []byte, []byte, ...uint16)) tss.MpcParty {
				var others []uint16
				for _, o := range k.U {
					if o != id {
						others = append(others, o)
					}
				}
				m := &discovery.Member{Membership: k.U, Logger: world.NopLogger{}, ID: id,
					Broadcast: func(msg []byte) { send(1, topic, msg, others...) },
					Send:      func(msg []byte, to uint16) { send(1, topic, msg, to) }}
				return &memberParty{m: m}
			})
		}
		if k.React != "" {
			adv := uint16(0)
			if len(k.Out) > 0 {
				adv = k.Out[0]
			} else {
				adv = k.Byz[0]
			}
			var absent []uint16
			for _, u := range k.U {
				if !isIn(u, k.Invokers) && !isIn(u, k.Byz) {
					absent = append(absent, u)
				}
			}
			if k.React == "retry-split" {
				// two Byzantine members b1, b2; honest h1, h2. b1 gives h1 the view {h1,h2,b1} and
				// confirms it; it gives h2 the same view but never confirms; when h2 tries again,
				// b1 and b2 give it {h2,b1,b2} and confirm that.
				h1, h2, b1, b2 := k.Invokers[0], k.Invokers[1], k.Byz[0], k.Byz[1]
				srt := func(l ...uint16) []uint16 {
					sort.Slice(l, func(i, j int) bool { return l[i] < l[j] })
					return l
				}
				v1, v2 := srt(h1, h2, b1), srt(h2, b1, b2)
				w.Net.Filter = func(p *world.Packet) []*world.Packet {
					if p.Injected || !isIn(p.From, k.Invokers) || p.Type != 1 {
						return []*world.Packet{p}
					}
					first := k.U[0]
					if first == p.From {
						first = k.U[1]
					}
					if p.To != first {
						return []*world.Packet{p}
					}
					out := []*world.Packet{p}
					say := func(from, to uint16, mt byte, view []uint16) {
						mu.Lock()
						heard[to][from] = true
						mu.Unlock()
						out = append(out, &world.Packet{From: from, To: to, Type: 1, Topic: topic, Data: encode(mt, tagOf(from), view)})
					}
					mu.Lock()
					second := attempt[h2] == 2
					mu.Unlock()
					switch {
					case p.From == h1:
						say(b1, h1, 1, v1)
						say(b1, h1, 3, v1)
					case p.From == h2 && !second:
						say(b1, h2, 1, v1)
					case p.From == h2 && second:
						say(b1, h2, 1, v2)
						say(b2, h2, 1, v2)
						say(b1, h2, 3, v2)
						say(b2, h2, 3, v2)
					}
					return out
				}
			}
			if k.React == "split-views" {
				// two Byzantine members: b1 announces {h1,h2,b1} to h1 only, b2 announces {h1,h2,b2} to
				// h2 only; each of them confirms whatever list an honest member asks about
				h1, h2, b1, b2 := k.Invokers[0], k.Invokers[1], k.Byz[0], k.Byz[1]
				srt := func(l ...uint16) []uint16 {
					sort.Slice(l, func(i, j int) bool { return l[i] < l[j] })
					return l
				}
				v1, v2 := srt(h1, h2, b1), srt(h1, h2, b2)
				w.Net.Filter = func(p *world.Packet) []*world.Packet {
					if p.Injected || !isIn(p.From, k.Invokers) || p.Type != 1 || len(p.Data) < 33 {
						return []*world.Packet{p}
					}
					first := k.U[0]
					if first == p.From {
						first = k.U[1]
					}
					if p.To != first {
						return []*world.Packet{p}
					}
					out := []*world.Packet{p}
					say := func(from, to uint16, data []byte) {
						mu.Lock()
						if heard[to] == nil {
							heard[to] = map[uint16]bool{}
						}
						heard[to][from] = true
						mu.Unlock()
						out = append(out, &world.Packet{From: from, To: to, Type: 1, Topic: topic, Data: data})
					}
					switch p.Data[0] {
					case 1: // an announcement: answer with the split view
						if p.From == h1 {
							say(b1, h1, encode(1, tagOf(b1), v1))
						} else {
							say(b2, h2, encode(1, tagOf(b2), v2))
						}
					case 2: // a query: both confirm the very list that is asked about
						for _, b := range []uint16{b1, b2} {
							d := append([]byte{3}, tagOf(b)...)
							d = append(d, p.Data[33:]...)
							say(b, p.From, d)
						}
					}
					return out
				}
			}
			if strings.HasPrefix(k.React, "lie:") {
				// one Byzantine member answers every honest announcement with a fixed lying view of its
				// own (authentic tag) and confirms whatever list it is asked about
				b := k.Byz[0]
				var lie []uint16
				for _, f := range strings.Split(strings.TrimPrefix(k.React, "lie:"), ",") {
					var x int
					fmt.Sscan(f, &x)
					lie = append(lie, uint16(x))
				}
				w.Net.Filter = func(p *world.Packet) []*world.Packet {
					if p.Injected || !isIn(p.From, k.Invokers) || p.Type != 1 || len(p.Data) < 33 {
						return []*world.Packet{p}
					}
					first := k.U[0]
					if first == p.From {
						first = k.U[1]
					}
					if p.To != first {
						return []*world.Packet{p}
					}
					mu.Lock()
					if heard[p.From] == nil {
						heard[p.From] = map[uint16]bool{}
					}
					heard[p.From][b] = true
					mu.Unlock()
					out := []*world.Packet{p}
					switch p.Data[0] {
					case 1:
						out = append(out, &world.Packet{From: b, To: p.From, Type: 1, Topic: topic, Data: encode(1, tagOf(b), lie)})
					case 2:
						d := append(append([]byte{3}, tagOf(b)...), p.Data[33:]...)
						out = append(out, &world.Packet{From: b, To: p.From, Type: 1, Topic: topic, Data: d})
					}
					return out
				}
			}
			if k.React == "stray-responses" {
				// configured members that do not take part answer every announcement and every query
				// of an honest member with a confirmation (of the asked list, or of the invokers' list)
				inv := append([]uint16(nil), k.Invokers...)
				sort.Slice(inv, func(i, j int) bool { return inv[i] < inv[j] })
				w.Net.Filter = func(p *world.Packet) []*world.Packet {
					if p.Injected || !isIn(p.From, k.Invokers) || p.Type != 1 || len(p.Data) < 33 {
						return []*world.Packet{p}
					}
					first := k.U[0]
					if first == p.From {
						first = k.U[1]
					}
					if p.To != first {
						return []*world.Packet{p}
					}
					out := []*world.Packet{p}
					for _, b := range k.Byz {
						var d []byte
						if p.Data[0] == 2 {
							d = append(append([]byte{3}, tagOf(b)...), p.Data[33:]...)
						} else {
							d = encode(3, tagOf(b), inv)
						}
						out = append(out, &world.Packet{From: b, To: p.From, Type: 1, Topic: topic, Data: d})
					}
					return out
				}
			}
			parts := strings.SplitN(k.React+":", ":", 3)
			tg := tagOf(adv)
			switch {
			case parts[0] == "invoker":
				tg = tagOf(k.Invokers[0])
			case parts[0] == "absent" && len(absent) > 0:
				tg = tagOf(absent[0])
			}
			lie := append(append([]uint16(nil), k.Invokers...), adv)
			if len(parts) > 1 && parts[1] == "withabsent" && len(absent) > 0 {
				lie = append(append([]uint16(nil), k.Invokers...), absent[0])
			}
			sort.Slice(lie, func(i, j int) bool { return lie[i] < lie[j] })
			generic := w.Net.Filter == nil
			if generic {
				w.Net.Filter = func(p *world.Packet) []*world.Packet { return []*world.Packet{p} }
			}
			genericFilter := func(p *world.Packet) []*world.Packet {
				if p.Injected || p.From == adv || !isIn(p.From, k.Invokers) || p.Type != 1 {
					return []*world.Packet{p}
				}
				// once per broadcast: react to the copy addressed to the first other member
				first := k.U[0]
				if first == p.From {
					first = k.U[1]
				}
				if p.To != first {
					return []*world.Packet{p}
				}
				mu.Lock()
				heard[p.From][adv] = true
				mu.Unlock()
				out := []*world.Packet{p}
				for mt := byte(1); mt <= 3; mt++ {
					out = append(out, &world.Packet{From: adv, To: p.From, Type: 1, Topic: topic, Data: encode(mt, tg, lie)})
				}
				return out
			}
			if generic {
				w.Net.Filter = genericFilter
			}
		}
		if len(k.Slow) > 0 {
			slow := map[[2]uint16]bool{}
			for _, l := range k.Slow {
				slow[l] = true
			}
			release := time.Duration(k.Release) * interval
			w.Hold = func(p *world.Packet) bool { return slow[[2]uint16{p.From, p.To}] && w.Now() < release }
		}
		started := map[uint16]bool{}
		w.Extra = func() []world.Event {
			var ev []world.Event
			for _, id := range k.Invokers {
				if started[id] {
					continue
				}
				id := id
				ev = append(ev, world.Event{Label: fmt.Sprintf("start %d", id), Do: func() {
					started[id] = true
					cm := &compl{}
					mu.Lock()
					o.m[id] = cm
					mu.Unlock()
					mp := w.Parties[id].Mpc.(*memberParty)
					w.Go(func() {
						ctx, cancel := context.WithTimeout(context.Background(), deadline)
						defer cancel()
						cont := func(l []uint16) {
							mu.Lock()
							cm.runs++
							cm.list = append([]uint16(nil), l...)
							cm.heard = map[uint16]bool{}
							for x := range heard[id] {
								cm.heard[x] = true
							}
							mu.Unlock()
						}
						err := mp.m.Synchronize(ctx, cont, topic, k.E, interval)
						if err != nil && k.Retry {
							mu.Lock()
							attempt[id] = 2
							mu.Unlock()
							ctx2, cancel2 := context.WithTimeout(context.Background(), deadline)
							err = mp.m.Synchronize(ctx2, cont, topic, k.E, interval)
							cancel2()
						}
						mu.Lock()
						cm.err, cm.ret, cm.at = err, true, w.Now()
						mu.Unlock()
					})
				}})
			}
			return ev
		}
		used := 0
		acts := k.actions()
		w.Optional = func() []world.Event {
			if used >= k.Budget {
				return nil
			}
			ev := make([]world.Event, len(acts))
			for i, a := range acts {
				a := a
				ev[i] = world.Event{Label: a.label, Do: func() {
					used++
					mu.Lock()
					heard[a.to][a.from] = true
					mu.Unlock()
					w.Net.Inject(&world.Packet{From: a.from, To: a.to, Type: 1, Topic: topic, Data: a.data})
					for _, m := range a.more {
						mu.Lock()
						heard[m.to][m.from] = true
						mu.Unlock()
						w.Net.Inject(&world.Packet{From: m.from, To: m.to, Type: 1, Topic: topic, Data: m.data})
					}
				}}
			}
			return ev
		}
		horizon := deadline + 2*interval
		if k.Retry {
			horizon += deadline
		}
		w.Loop(r, horizon)
		// everything that returned is recorded; what did not return by the horizon is a hang
		o.trace = w.Trace
		w.Stop()
	})
	if rec != nil && !harness.IsLeakPanic(rec) {
		panic(rec)
	}
	return o
}

type replay struct {
	Cfg     scfg  `json:"cfg"`
	Choices []int `json:"choices"`
}

func oracle(c *harness.C, k scfg, o *out, rp replay, deviations int) {
	bad := func(clause, sig, detail string) {
		c.Violation(clause, sig, k.id()+": "+detail, rp)
	}
	completers := 0
	for _, id := range k.Invokers {
		cm := o.m[id]
		if cm == nil {
			bad("returns", "c07-never-started", fmt.Sprintf("member %d never started", id))
			continue
		}
		if !cm.ret {
			bad("returns-by-deadline", "c07-synchronize-hangs", fmt.Sprintf("member %d: Synchronize did not return by the deadline + 2 probe intervals", id))
			continue
		}
		if cm.err == nil && cm.runs != 1 {
			bad("nil-iff-continuation-once", "c07-nil-without-continuation", fmt.Sprintf("member %d returned nil but the continuation ran %d times", id, cm.runs))
		}
		if cm.err != nil && cm.runs != 0 {
			bad("error-without-continuation", "c07-error-after-continuation", fmt.Sprintf("member %d returned %v but the continuation ran %d times", id, cm.err, cm.runs))
		}
		if cm.runs == 0 {
			continue
		}
		completers++
		l := cm.list
		if !sort.SliceIsSorted(l, func(i, j int) bool { return l[i] < l[j] }) {
			bad("list-sorted", "c07-list-unsorted", fmt.Sprintf("member %d obtained %v", id, l))
		}
		for i := 1; i < len(l); i++ {
			if l[i] == l[i-1] {
				bad("list-duplicate-free", "c07-list-duplicate", fmt.Sprintf("member %d obtained %v", id, l))
			}
		}
		if !isIn(id, l) {
			bad("list-contains-self", "c07-list-without-self", fmt.Sprintf("member %d obtained %v", id, l))
		}
		if len(l) != k.E {
			bad("list-size", "c07-list-size", fmt.Sprintf("member %d obtained %v, expected %d members", id, l, k.E))
		}
		for _, x := range l {
			if !isIn(x, k.U) {
				bad("list-configured-members", "c07-list-unconfigured-member", fmt.Sprintf("member %d obtained %v; %d is not configured", id, l, x))
			} else if x != id && !cm.heard[x] {
				bad("list-announced-members", "c07-list-silent-member", fmt.Sprintf("member %d obtained %v but %d never sent it a message", id, l, x))
			}
		}
	}
	for _, a := range k.Invokers {
		for _, b := range k.Invokers {
			ca, cb := o.m[a], o.m[b]
			if a == b || ca == nil || cb == nil || ca.runs == 0 || cb.runs == 0 {
				continue
			}
			if isIn(b, ca.list) && fmt.Sprint(ca.list) != fmt.Sprint(cb.list) {
				bad("agreement", "c07-lists-differ", fmt.Sprintf("member %d obtained %v, member %d (in that list) obtained %v", a, ca.list, b, cb.list))
			}
		}
	}
	if len(k.Byz) == 0 && len(k.Out) == 0 || k.React == "stray-responses" {
		if len(k.Invokers) == k.E && completers != k.E {
			var errs []string
			for _, id := range k.Invokers {
				if cm := o.m[id]; cm != nil && cm.err != nil {
					errs = append(errs, fmt.Sprintf("%d: %v", id, cm.err))
				}
			}
			bad("liveness", fmt.Sprintf("c07-honest-run-incomplete:dev%d", min(deviations, 1)), fmt.Sprintf("exactly %d honest members invoked, everything was delivered, but only %d completed (%s)", k.E, completers, strings.Join(errs, "; ")))
		}
		if len(k.Invokers) < k.E && completers != 0 {
			bad("too-few-fails", "c07-completes-with-too-few", fmt.Sprintf("%d members invoked, %d expected, yet %d completed", len(k.Invokers), k.E, completers))
		}
	}
}

func dfsCase(k scfg, bound int, pos, alt int, isRoot bool) harness.Case {
	id := fmt.Sprintf("%s/d%d/root", k.id(), bound)
	if !isRoot {
		id = fmt.Sprintf("%s/d%d/task/%d:%d", k.id(), bound, pos, alt)
	}
	return harness.Case{ID: id, Run: func(c *harness.C) {
		if c.Replay != nil {
			var rp replay
			if json.Unmarshal(c.Replay, &rp) == nil {
				for i := 0; i < max(1, rp.Cfg.Repeat); i++ {
					r := &explore.Recorder{Prefix: rp.Choices}
					o := run(c, rp.Cfg, r)
					oracle(c, rp.Cfg, o, rp, r.Deviations())
				}
			}
			return
		}
		var last *out
		e := &explore.Explorer{Stop: c.Expired}
		e.Run = func(r *explore.Recorder) {
			c.Exec(fmt.Sprintf("[c07] %s %v", k.id(), r.Prefix))
			last = run(c, k, r)
		}
		e.Visit = func(r *explore.Recorder) {
			c.Add("executions", 1)
			c.Add("transitions", len(last.trace))
			rp := replay{Cfg: k, Choices: explore.Trim(r.Choices())}
			oracle(c, k, last, rp, r.Deviations())
			for i := 1; i < k.Repeat; i++ {
				o2 := run(c, k, &explore.Recorder{Prefix: r.Choices()})
				c.Add("executions", 1)
				oracle(c, k, o2, rp, r.Deviations())
			}
			var res []string
			for _, id := range k.Invokers {
				if cm := last.m[id]; cm != nil {
					res = append(res, fmt.Sprintf("%d:%v:%v", id, cm.list, cm.err != nil))
				}
			}
			if c.Outcome(k.id()+"|"+strings.Join(last.trace, ";")) && len(rp.Choices) > 0 {
				c.Sample("c07", map[string]interface{}{"cfg": k.id(), "choices": rp.Choices, "results": res, "tail": tail(last.trace, 5)})
			}
			hist := map[string][]string{}
			for _, t := range last.trace {
				if i := strings.Index(t, ">"); i > 0 {
					to := strings.SplitN(t[i+1:], " ", 2)[0]
					hist[to] = append(hist[to], t)
					c.State(k.id() + "|" + to + "|" + strings.Join(hist[to], ";"))
				}
			}
		}
		if isRoot {
			e.Explore(nil, nil, 0)
			return
		}
		e.Explore(explore.TaskPrefix(pos, alt), rootLabels(c, k), bound-1)
		if e.NondetPrefixes > 0 {
			c.Add("nondeterministic_prefixes", e.NondetPrefixes)
			c.Cap("nondeterministic-prefix")
		}
	}}
}

var rootCache = map[string][]string{}

func rootLabels(c *harness.C, k scfg) []string {
	if l, ok := rootCache[k.id()]; ok {
		return l
	}
	root := &explore.Recorder{}
	run(c, k, root)
	rootCache[k.id()] = root.Labels()
	return rootCache[k.id()]
}

func tail(s []string, n int) []string {
	if len(s) > n {
		return s[len(s)-n:]
	}
	return s
}

func subsetsOf(u []uint16, min int) [][]uint16 {
	var out [][]uint16
	for m := 1; m < 1<<len(u); m++ {
		var s []uint16
		for i := range u {
			if m>>i&1 == 1 {
				s = append(s, u[i])
			}
		}
		if len(s) >= min {
			out = append(out, s)
		}
	}
	return out
}

func gen(c *harness.C) []harness.Case {
	c.Note("rule", "real disc.Member objects on the harness network (FIFO links); configurations = universe x expected count x invoking subset x Byzantine members; schedules = default + all <=d deviations (other link first, time advance although messages pending, start order, Byzantine injection from the alphabet at any quiescent point, budget-limited); distinct_nontrivial = distinct class traces")
	type plan struct {
		k     scfg
		bound int
	}
	var plans []plan
	_ = threshold.SyncInterval
	universes := [][]uint16{{1, 2}, {1, 2, 3}, {255, 256, 65535}}
	if c.Thorough() {
		universes = append(universes, []uint16{1, 2, 3, 4}, []uint16{0, 257, 511, 65534})
	} else {
		universes = append(universes, []uint16{1, 2, 3, 4})
	}
	for _, u := range universes {
		for e := 2; e <= len(u); e++ {
			for _, inv := range subsetsOf(u, 1) {
				if len(inv) > e+1 {
					continue
				}
				b := 1
				if len(u) == 2 {
					b = 3
				} else if len(u) == 3 && (c.Thorough() || len(inv) == e) {
					b = 2
				}
				if len(u) == 4 {
					b = 1
					if !c.Thorough() && len(inv) != e {
						b = 0
					}
					if c.Thorough() && len(inv) == e {
						b = 2
					}
				}
				plans = append(plans, plan{scfg{Name: "honest", U: u, E: e, Invokers: inv, Early: true}, b})
			}
		}
	}
	// one Byzantine member
	for _, u := range [][]uint16{{1, 2, 3}, {1, 2, 3, 4}} {
		b := u[len(u)-1]
		hon := u[:len(u)-1]
		for e := 2; e <= len(u); e++ {
			for _, inv := range subsetsOf(hon, 2) {
				if len(inv) > e {
					continue
				}
				// rich alphabet, one action anywhere
				plans = append(plans, plan{scfg{Name: "byz1", U: u, E: e, Invokers: inv, Byz: []uint16{b}, Budget: 1, Rich: true}, 1})
				// small alphabet, two (thorough: three for U=3) actions / deviations
				bb := 1
				if len(u) == 3 || c.Thorough() && len(inv) == e {
					bb = 2
				}
				if len(u) == 3 && c.Thorough() {
					bb = 3
				}
				if bb > 1 {
					plans = append(plans, plan{scfg{Name: "byz1k", U: u, E: e, Invokers: inv, Byz: []uint16{b}, Budget: bb}, bb})
				}
			}
		}
	}
	// an authenticated outsider (not a configured member)
	for _, u := range [][]uint16{{1, 2, 3}, {1, 2, 3, 4}} {
		for e := 2; e <= 3; e++ {
			for _, inv := range [][]uint16{{1, 2}, {1, 2, 3}} {
				if len(inv) > e || len(inv) >= len(u) && e > len(inv) {
					continue
				}
				bd := 1
				if c.Thorough() {
					bd = 2
				}
				plans = append(plans, plan{scfg{Name: "outsider", U: u, E: e, Invokers: inv, Out: []uint16{9}, Budget: bd}, bd})
			}
		}
	}
	// asymmetric partitions that heal: every set of directed links is slow (held back for three probe
	// intervals) - all honest
	slowPlans := func(u []uint16, e int, inv []uint16, bound int) {
		var links [][2]uint16
		for _, a := range inv {
			for _, b := range inv {
				if a != b {
					links = append(links, [2]uint16{a, b})
				}
			}
		}
		for m := 1; m < 1<<len(links); m++ {
			var sl [][2]uint16
			for i := range links {
				if m>>i&1 == 1 {
					sl = append(sl, links[i])
				}
			}
			plans = append(plans, plan{scfg{Name: "slow-links", U: u, E: e, Invokers: inv, Slow: sl, Release: 3}, bound})
		}
	}
	slowPlans([]uint16{1, 2, 3}, 2, []uint16{1, 2, 3}, 1)
	slowPlans([]uint16{1, 2, 3}, 3, []uint16{1, 2, 3}, 1)
	slowPlans([]uint16{1, 2, 3, 4}, 3, []uint16{1, 2, 3, 4}, 0)
	if c.Thorough() {
		slowPlans([]uint16{1, 2, 3, 4}, 2, []uint16{1, 2, 3, 4}, 0)
		slowPlans([]uint16{1, 2, 3, 4}, 4, []uint16{1, 2, 3, 4}, 0)
		slowPlans([]uint16{1, 2, 3, 4}, 3, []uint16{1, 2, 3}, 1)
	}
	// reactive adversaries: an outsider / a Byzantine member that answers every honest broadcast
	for _, rc := range []string{"own:withme", "invoker:withme", "absent:withme", "absent:withabsent", "own:withabsent"} {
		for _, e := range []int{2, 3} {
			bd := 1
			if c.Thorough() {
				bd = 2
			}
			plans = append(plans, plan{scfg{Name: "reactive-outsider", U: []uint16{1, 2, 3}, E: e, Invokers: []uint16{1, 2}, Out: []uint16{9}, React: rc}, bd})
			plans = append(plans, plan{scfg{Name: "reactive-outsider", U: []uint16{1, 2, 3, 4}, E: e, Invokers: []uint16{1, 2}, Out: []uint16{9}, React: rc}, bd - 1})
			if !strings.HasPrefix(rc, "absent") {
				plans = append(plans, plan{scfg{Name: "reactive-byz", U: []uint16{1, 2, 3}, E: e, Invokers: []uint16{1, 2}, Byz: []uint16{3}, React: rc}, bd})
			}
		}
	}
	// a failed attempt followed by a second attempt on the same topic, with two Byzantine members
	// that show the retrying member another view the second time
	for _, rt := range []bool{false, true} {
		bd := 1
		if c.Thorough() {
			bd = 2
		}
		plans = append(plans, plan{scfg{Name: "retry", U: []uint16{1, 2, 3, 4}, E: 3, Invokers: []uint16{1, 2}, Byz: []uint16{3, 4}, React: "retry-split", Retry: rt}, bd})
		plans = append(plans, plan{scfg{Name: "retry", U: []uint16{1, 2, 3, 4}, E: 3, Invokers: []uint16{2, 1}, Byz: []uint16{4, 3}, React: "retry-split", Retry: rt}, bd})
	}
	// two Byzantine members that show each honest member another view and confirm anything; configured
	// members that stay out of the run but send confirmations nobody asked them for (these never
	// announce themselves, so they do not change anybody's view: the honest run completes)
	for _, bd := range []int{1} {
		if c.Thorough() {
			bd = 2
		}
		plans = append(plans, plan{scfg{Name: "split-views", U: []uint16{1, 2, 3, 4}, E: 3, Invokers: []uint16{1, 2}, Byz: []uint16{3, 4}, React: "split-views", Repeat: 24}, bd})
		plans = append(plans, plan{scfg{Name: "split-views", U: []uint16{1, 2, 3, 4}, E: 3, Invokers: []uint16{2, 1}, Byz: []uint16{4, 3}, React: "split-views", Repeat: 24}, bd})
		plans = append(plans, plan{scfg{Name: "stray-responses", U: []uint16{1, 2, 3, 4, 5, 6}, E: 3, Invokers: []uint16{1, 2, 3}, Byz: []uint16{4, 5, 6}, React: "stray-responses"}, bd})
		plans = append(plans, plan{scfg{Name: "stray-responses", U: []uint16{1, 2, 3, 4, 5}, E: 3, Invokers: []uint16{1, 2, 3}, Byz: []uint16{4, 5}, React: "stray-responses"}, bd})
		plans = append(plans, plan{scfg{Name: "stray-responses", U: []uint16{1, 2, 3, 4, 5, 6}, E: 2, Invokers: []uint16{1, 2}, Byz: []uint16{3, 4, 5, 6}, React: "stray-responses"}, bd})
	}
	// one Byzantine member whose announced view is every ordered pair / triple over a universe whose
	// identifiers have one and two digits (views that differ but look alike when written out)
	{
		u := []uint16{1, 3, 12, 23}
		for _, a := range u {
			for _, b2 := range u {
				if a == b2 {
					continue
				}
				plans = append(plans, plan{scfg{Name: "lying-view", U: u, E: 2, Invokers: []uint16{1}, Byz: []uint16{23}, React: fmt.Sprintf("lie:%d,%d", a, b2)}, 0})
				plans = append(plans, plan{scfg{Name: "lying-view", U: u, E: 2, Invokers: []uint16{12}, Byz: []uint16{3}, React: fmt.Sprintf("lie:%d,%d", a, b2)}, 0})
			}
		}
		u2 := []uint16{1, 2, 11, 12, 21, 112}
		for _, lie := range []string{"1,12,2", "11,2,2", "1,1,22", "112,2,1", "11,21,2", "1,121,2", "1,12", "11,2", "112"} {
			plans = append(plans, plan{scfg{Name: "lying-view", U: u2, E: 3, Invokers: []uint16{1, 2}, Byz: []uint16{112}, React: "lie:" + lie}, 0})
			plans = append(plans, plan{scfg{Name: "lying-view", U: u2, E: 3, Invokers: []uint16{11, 2}, Byz: []uint16{12}, React: "lie:" + lie}, 0})
		}
	}
	// honest retries: one member is late, the others fail and try again
	for _, u := range [][]uint16{{1, 2, 3}} {
		plans = append(plans, plan{scfg{Name: "retry-honest", U: u, E: 3, Invokers: []uint16{1, 2}, Retry: true, Early: true}, 1})
	}
	// two Byzantine members, two honest ones
	bb := 1
	if c.Thorough() {
		bb = 2
	}
	plans = append(plans, plan{scfg{Name: "byz2", U: []uint16{1, 2, 3, 4}, E: 3, Invokers: []uint16{1, 2}, Byz: []uint16{3, 4}, Budget: 2}, bb})
	plans = append(plans, plan{scfg{Name: "byz2", U: []uint16{1, 2, 3, 4}, E: 2, Invokers: []uint16{1, 2}, Byz: []uint16{3, 4}, Budget: 2}, bb})
	if c.Thorough() {
		plans = append(plans, plan{scfg{Name: "byz2", U: []uint16{1, 2, 3, 4, 5}, E: 3, Invokers: []uint16{1, 2, 3}, Byz: []uint16{4, 5}, Budget: 1}, 1})
	}
	var cases []harness.Case
	for _, p := range plans {
		cases = append(cases, dfsCase(p.k, p.bound, 0, 0, true))
		if p.bound > 0 {
			root := &explore.Recorder{}
			run(c, p.k, root)
			for _, t := range explore.RootTasks(root) {
				cases = append(cases, dfsCase(p.k, p.bound, t[0], t[1], false))
			}
		}
	}
	return cases
}

func TestCheck(t *testing.T) { harness.Main(t, "C07", gen) }
