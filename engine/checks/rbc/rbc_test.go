package rbc

import (
	"encoding/hex"
	"encoding/json"
	"fmt"
	"os"
	"sort"
	"strings"
	"testing"

	"verif/harness"
)

// ---------------------------------------------------------------------------------------------
// generic search

type searcher struct {
	c         *harness.C
	cfg       rcfg
	init      []Event
	succ      func(w *rw, hist []Event, byzUsed int) []Event
	onTrans   func(before []HO, w *rw, hist []Event, e Event, panicText string)
	onState   func(w *rw, hist []Event, terminal bool)
	maxStates int
	visited   map[string]struct{}
	trans     int
	capped    bool
	prefix    string // state-key prefix (scenario id)
}

func byzCount(hist []Event) int {
	n := 0
	for _, e := range hist {
		if e.Kind == 'B' {
			n++
		}
	}
	return n
}

// replay walks one recorded history and applies the oracles at every step.
func (s *searcher) replay(hist []Event) {
	n := len(s.init)
	if n > len(hist) {
		n = len(hist)
	}
	for i := n; i <= len(hist); i++ {
		h := hist[:i]
		if i > n {
			w := build(s.cfg, hist[:i-1])
			before := append([]HO(nil), w.ho...)
			pt := w.apply(hist[i-1])
			s.onTrans(before, w, h, hist[i-1], pt)
			if pt == "" {
				s.onState(w, h, len(s.succ(w, h, byzCount(h))) == 0)
			}
			w.close()
		}
	}
}

// run explores from the history start (init already included) depth-first with deduplication.
func (s *searcher) run(start []Event) {
	if s.c.Replay != nil {
		var rh replayHist
		if err := json.Unmarshal(s.c.Replay, &rh); err == nil && rh.Scenario == strings.TrimSuffix(s.prefix, "#") {
			s.replay(rh.Hist)
		}
		return
	}
	s.visited = map[string]struct{}{}
	stack := [][]Event{start}
	w0 := build(s.cfg, start)
	k0 := fmt.Sprintf("%d|%s", byzCount(start), w0.key())
	s.visited[k0] = struct{}{}
	s.c.State(s.prefix + k0)
	s.onState(w0, start, len(s.succ(w0, start, byzCount(start))) == 0)
	w0.close()
	for len(stack) > 0 {
		if s.c.Expired() || (s.maxStates > 0 && len(s.visited) >= s.maxStates) {
			s.capped = true
			s.c.Cap("state-or-time-cap")
			return
		}
		h := stack[len(stack)-1]
		stack = stack[:len(stack)-1]
		w := build(s.cfg, h)
		evs := s.succ(w, h, byzCount(h))
		w.close()
		for _, e := range evs {
			nh := append(append([]Event(nil), h...), e)
			w2 := build(s.cfg, h)
			before := append([]HO(nil), w2.ho...)
			pt := w2.apply(e)
			s.trans++
			if s.trans%5000 == 0 {
				s.c.Beat()
			}
			s.c.Add("transitions", 1)
			s.c.Add("evaluations", 1)
			s.onTrans(before, w2, nh, e, pt)
			if pt != "" {
				w2.close()
				continue // a panicking transition is reported, not expanded
			}
			k := fmt.Sprintf("%d|%s", byzCount(nh), w2.key())
			if e.Kind == 'B' && len(h) > 0 && h[len(h)-1] == e {
				// the same injection twice in a row: kept apart from the states it looks like (what
				// a repetition changes may sit where the reflection dump does not reach - a filter
				// in front of the receiver, for instance)
				k += "|repeated:" + e.String()
			}
			if _, seen := s.visited[k]; !seen {
				s.visited[k] = struct{}{}
				s.c.State(s.prefix + k)
				term := len(s.succ(w2, nh, byzCount(nh))) == 0
				s.onState(w2, nh, term)
				if !term {
					stack = append(stack, nh)
				}
			}
			w2.close()
		}
	}
}

func histStrings(h []Event) []string {
	out := make([]string, len(h))
	for i, e := range h {
		out[i] = e.String()
	}
	return out
}

type replayHist struct {
	Scenario string   `json:"scenario"`
	Hist     []Event  `json:"hist"`
	Trace    []string `json:"trace"`
}

// ---------------------------------------------------------------------------------------------
// C04: all honest, exact search

type c04cfg struct {
	wide    bool // identifiers across the byte boundary (1, 2, 257, ...)
	sign    bool
	n       int
	senders int
	rounds  int
	focus   uint16 // 0: global search; otherwise only deliveries to this party branch
	// pair: two senders with explicit (identifier, round) values (C13's slice: every pair of distinct
	// (identifier, round) combinations keeps its own bookkeeping slot)
	pair [4]int // ida, ra, idb, rb (all zero: unused)
	same bool   // all senders broadcast byte-identical payloads
	zero bool   // identifiers 0..n-1
	t    int    // key-generation threshold below n (0: n)
}

func (k c04cfg) String() string {
	op := ""
	if k.sign {
		op = "sign-"
	}
	if k.wide {
		op += "wide-"
	}
	if k.same {
		op += "same-"
	}
	if k.zero {
		op += "zero-"
	}
	if k.t != 0 {
		op += fmt.Sprintf("t%d-", k.t)
	}
	if k.pair != [4]int{} {
		return fmt.Sprintf("%spair-%d.r%d-%d.r%d", op, k.pair[0], k.pair[1], k.pair[2], k.pair[3])
	}
	return fmt.Sprintf("%sN%d-%dx%d-f%d", op, k.n, k.senders, k.rounds, k.focus)
}

func seq(n int) []uint16 {
	out := make([]uint16, n)
	for i := range out {
		out[i] = uint16(i + 1)
	}
	return out
}

func c04case(k c04cfg) harness.Case {
	return harness.Case{ID: "c04/" + k.String(), Run: func(c *harness.C) {
		ids := seq(k.n)
		if k.wide {
			ids[len(ids)-1] = 257
			if len(ids) > 2 {
				ids[1] = 256
			}
		}
		if k.zero {
			for i := range ids {
				ids[i] = uint16(i)
			}
		}
		tagOf := func(id uint16) byte {
			if k.same {
				return 's'
			}
			return byte(id)
		}
		if k.pair != [4]int{} {
			third := uint16(5)
			for third == uint16(k.pair[0]) || third == uint16(k.pair[2]) {
				third++
			}
			ids = []uint16{uint16(k.pair[0]), uint16(k.pair[2]), third}
			sort.Slice(ids, func(i, j int) bool { return ids[i] < ids[j] })
		}
		cfg := rcfg{Sign: k.sign, Participants: ids, Honest: ids, All: ids, T: k.t}
		var init []Event
		type bc struct {
			s uint16
			r uint8
		}
		var bcs []bc
		if k.pair != [4]int{} {
			for _, x := range [][2]int{{k.pair[0], k.pair[1]}, {k.pair[2], k.pair[3]}} {
				init = append(init, Event{Kind: 'S', From: uint16(x[0]), Bcast: true, Data: string(bcastBody(uint8(x[1]), tagOf(uint16(x[0]))))})
				bcs = append(bcs, bc{uint16(x[0]), uint8(x[1])})
			}
		}
		for si := 0; si < k.senders && k.pair == [4]int{}; si++ {
			for r := 1; r <= k.rounds; r++ {
				init = append(init, Event{Kind: 'S', From: ids[si], Bcast: true, Data: string(bcastBody(uint8(r), tagOf(ids[si])))})
				bcs = append(bcs, bc{ids[si], uint8(r)})
			}
		}
		// every party sends one point-to-point message to its successor
		for i, id := range ids {
			if k.pair != [4]int{} {
				break // the pair cases are about the bookkeeping of the two broadcasts only
			}
			to := ids[(i+1)%len(ids)]
			init = append(init, Event{Kind: 'S', From: id, To: to, Bcast: false, Data: string(p2pBody(0, byte(id)))})
		}
		c.Exec("[c04] " + k.String())
		s := &searcher{c: c, cfg: cfg, init: init, prefix: k.String() + "#"}
		s.succ = func(w *rw, hist []Event, _ int) []Event {
			ks := w.inflightKeys()
			var evs []Event
			if k.focus != 0 {
				// eager delivery to everybody but the focus party
				for _, key := range ks {
					if !strings.Contains(key, fmt.Sprintf(">%d:", k.focus)) {
						return []Event{{Kind: 'D', Data: key}}
					}
				}
			}
			for _, key := range ks {
				evs = append(evs, Event{Kind: 'D', Data: key})
			}
			return evs
		}
		reported := map[string]bool{}
		report := func(clause, sig, detail string, hist []Event) {
			if relabel != "" {
				sig = strings.ToLower(relabel) + "-id-round-pair:" + sig
			}
			c.Add("violating_states:"+sig, 1)
			if reported[sig] {
				return
			}
			reported[sig] = true
			c.Violation(clause, sig, detail, replayHist{Scenario: k.String(), Hist: hist, Trace: histStrings(hist)})
		}
		s.onTrans = func(before []HO, w *rw, hist []Event, e Event, pt string) {
			if pt != "" {
				report("no-panic", "c04-panic:"+panicClass(pt), "panic in honest run: "+pt, hist)
			}
		}
		terminals := 0
		s.onState = func(w *rw, hist []Event, terminal bool) {
			for _, id := range ids {
				if eq, ok := w.equivocation(id); ok && eq {
					report("no-equivocation-in-honest-runs", "c04-equivocation-detected", fmt.Sprintf("party %d concluded equivocation in an all-honest run", id), hist)
				} else if !ok {
					c.Note("c04-equivocation-flag", "internal field gone: clause checked only via hand-overs")
				}
			}
			// never more than once, in any state
			cnt := map[HO]int{}
			for _, h := range w.ho {
				cnt[h]++
				if cnt[h] == 2 {
					report("exactly-once", "c04-duplicate-handover", fmt.Sprintf("party %d got %x from %d twice", h.At, h.Payload, h.From), hist)
				}
			}
			if !terminal {
				return
			}
			terminals++
			c.Add("quiescent_states", 1)
			for _, b := range bcs {
				body := string(bcastBody(b.r, tagOf(b.s)))
				for _, id := range ids {
					if id == b.s {
						continue
					}
					if cnt[HO{At: id, From: b.s, Bcast: true, Payload: body}] != 1 {
						report("totality", "c04-broadcast-not-handed-over", fmt.Sprintf("at quiescence party %d has %d hand-overs of broadcast (%d, round %d)", id, cnt[HO{At: id, From: b.s, Bcast: true, Payload: body}], b.s, b.r), hist)
					}
				}
			}
			for i, id := range ids {
				if k.pair != [4]int{} {
					break
				}
				to := ids[(i+1)%len(ids)]
				if cnt[HO{At: to, From: id, Bcast: false, Payload: string(p2pBody(0, byte(id)))}] != 1 {
					report("totality-p2p", "c04-p2p-not-handed-over", fmt.Sprintf("point-to-point %d->%d handed over %d times", id, to, cnt[HO{At: to, From: id, Bcast: false, Payload: string(p2pBody(0, byte(id)))}]), hist)
				}
			}
			if c.Outcome(k.String() + "|" + strings.Join(histStrings(hist), ";")) {
				c.Sample("c04-quiescent-history", map[string]interface{}{"cfg": k.String(), "history": histStrings(hist)})
			}
		}
		s.run(init)
		c.Add("executions", terminals)
		if terminals == 0 && !s.capped {
			report("search-vacuous", "c04-no-quiescent-state", "search found no quiescent state", init)
		}
	}}
}

func panicClass(pt string) string {
	pt = strings.ReplaceAll(pt, "\n", " ")
	if len(pt) > 60 {
		pt = pt[:60]
	}
	return pt
}

// ---------------------------------------------------------------------------------------------
// C02 / C03: Byzantine sender (+ helpers), bounded number of Byzantine actions

type byzcfg struct {
	sign      bool
	name      string
	honest    []uint16
	byz       []uint16
	outsider  uint16 // configured, not participating (0: none)
	unknown   uint16 // not configured (0: none)
	rounds    []uint8
	junk      bool // include an unrelated digest
	aboutSelf bool // acknowledgements about the recipient itself
	honestBc  bool // honest party 1 broadcasts too
	budget    int
	t         int // key-generation threshold below n (0: n)
	// collide: the two payloads of round 1 are a pair whose digests agree on the first ("prefix8")
	// or the last ("suffix8") 8 bytes
	collide string
	// script: a fixed sequence of Byzantine injections executed first (then the search continues
	// with deliveries and the remaining budget). "alias": two Byzantine nodes whose identifiers
	// agree modulo 256 (byz[0], byz[1]) try to pass the equivocation of one off as vouchers for the
	// other.
	script string
	// lenient: see rcfg.Lenient; adds the marker-only payload (an MPC message without content) to
	// the deviator's alphabet
	lenient string
	// perm: a node -> party assignment that is not monotone (parties of nodes 1,2,3,... = 3,1,2,...)
	perm bool
}

func (b byzcfg) scripted() []Event {
	if b.script == "cross-round" {
		// the deviator equivocates in round 1 and slips a broadcast of a later round in between
		// the two conflicting payloads at each honest party
		S := b.byz[0]
		A, B := b.honest[0], b.honest[1]
		X, Y, L := b.body(1, 'x'), b.body(1, 'y'), b.body(2, 'x')
		return []Event{
			{Kind: 'B', From: S, To: A, Data: mpcPayload(X)},
			{Kind: 'B', From: S, To: A, Data: mpcPayload(L)},
			{Kind: 'B', From: S, To: A, Data: mpcPayload(Y)},
			{Kind: 'B', From: S, To: B, Data: mpcPayload(Y)},
			{Kind: 'B', From: S, To: B, Data: mpcPayload(L)},
			{Kind: 'B', From: S, To: B, Data: mpcPayload(X)},
		}
	}
	if b.script == "round1-honest" {
		// the deviator behaves in round 1 (the same payload to everybody); whatever that leaves
		// behind at the honest parties must not count for round 2, where the remaining budget is spent
		S := b.byz[0]
		X := b.body(1, 'x')
		var ev []Event
		for _, h := range b.honest {
			ev = append(ev, Event{Kind: 'B', From: S, To: h, Data: mpcPayload(X)})
		}
		return ev
	}
	if b.script != "alias" {
		return nil
	}
	lo, hi := b.byz[0], b.byz[1]
	A, B := b.honest[0], b.honest[1]
	X, Y := b.body(1, 'x'), b.body(1, 'y')
	return []Event{
		{Kind: 'B', From: hi, To: A, Data: mpcPayload(X)},
		{Kind: 'B', From: hi, To: B, Data: mpcPayload(Y)},
		{Kind: 'B', From: hi, To: A, Data: ackWire(1, lo, digestOf(Y))},
		{Kind: 'B', From: hi, To: B, Data: ackWire(1, lo, digestOf(X))},
		{Kind: 'B', From: lo, To: A, Data: mpcPayload(Y)},
		{Kind: 'B', From: lo, To: B, Data: mpcPayload(X)},
	}
}

var collisions = map[string][2]string{
	// fixtures/digest_collisions.json
	"prefix8": {"01013a9c37e2e602bba5", "0101bb3ccedf07348966"},
	"suffix8": {"010184b90e1618974339", "0101e1765ce6e32c65be"},
}

// body of the deviator's payload with tag t in round r.
func (b byzcfg) body(r uint8, t byte) []byte {
	if b.collide != "" && r == 1 && (t == 'x' || t == 'y') {
		i := 0
		if t == 'y' {
			i = 1
		}
		raw, err := hex.DecodeString(collisions[b.collide][i])
		if err != nil {
			panic(err)
		}
		return raw
	}
	return bcastBody(r, t)
}

func (b byzcfg) rc() rcfg {
	parts := append(append([]uint16(nil), b.honest...), b.byz...)
	sort.Slice(parts, func(i, j int) bool { return parts[i] < parts[j] })
	all := append([]uint16(nil), parts...)
	if b.outsider != 0 {
		all = append(all, b.outsider)
	}
	rc := rcfg{Sign: b.sign, Participants: parts, Honest: b.honest, All: all, T: b.t, Lenient: b.lenient}
	if b.perm {
		rc.PartyOf = map[uint16]uint16{}
		sorted := append([]uint16(nil), all...)
		sort.Slice(sorted, func(i, j int) bool { return sorted[i] < sorted[j] })
		for i, n := range sorted {
			rc.PartyOf[n] = sorted[(i+len(sorted)-1)%len(sorted)] + 100
		}
	}
	return rc
}

func (b byzcfg) actions() []Event {
	var evs []Event
	tags := []byte{'x', 'y'}
	for _, bz := range b.byz {
		for _, h := range b.honest {
			for _, r := range b.rounds {
				for _, t := range tags {
					evs = append(evs, Event{Kind: 'B', From: bz, To: h, Data: mpcPayload(b.body(r, t))})
				}
			}
		}
	}
	if b.lenient != "" {
		for _, bz := range b.byz {
			for _, h := range b.honest {
				evs = append(evs, Event{Kind: 'B', From: bz, To: h, Data: "\xff"})
			}
		}
		// acknowledgements for the digest of the empty payload
		for _, bz := range b.byz {
			for _, h := range b.honest {
				for _, ab := range b.byz {
					evs = append(evs, Event{Kind: 'B', From: bz, To: h, Data: ackWire(1, ab, digestOf(nil))})
				}
			}
		}
	}
	// one point-to-point payload from the first Byzantine party to each honest party
	for _, h := range b.honest {
		evs = append(evs, Event{Kind: 'B', From: b.byz[0], To: h, Data: mpcPayload(p2pBody(0, 'p'))})
	}
	// non-participants also try payloads: nothing of theirs may ever be handed over
	for _, np := range []uint16{b.outsider, b.unknown} {
		if np == 0 {
			continue
		}
		for _, h := range b.honest {
			evs = append(evs, Event{Kind: 'B', From: np, To: h, Data: mpcPayload(p2pBody(0, 'o'))})
			evs = append(evs, Event{Kind: 'B', From: np, To: h, Data: mpcPayload(bcastBody(b.rounds[0], 'o'))})
		}
	}
	ackers := append([]uint16(nil), b.byz...)
	if b.outsider != 0 {
		ackers = append(ackers, b.outsider)
	}
	if b.unknown != 0 {
		ackers = append(ackers, b.unknown)
	}
	for _, a := range ackers {
		for _, h := range b.honest {
			abouts := append([]uint16(nil), b.byz...)
			if b.outsider != 0 && a != b.outsider {
				abouts = append(abouts, b.outsider)
			}
			if b.honestBc && h != b.honest[0] {
				abouts = append(abouts, b.honest[0])
			}
			if b.aboutSelf {
				abouts = append(abouts, h)
			}
			for _, ab := range abouts {
				for _, r := range b.rounds {
					var ds []string
					for _, t := range tags {
						ds = append(ds, digestOf(b.body(r, t)))
					}
					if b.honestBc {
						ds = append(ds, digestOf(bcastBody(r, byte(b.honest[0]))))
					}
					if ab == b.outsider {
						ds = []string{digestOf(bcastBody(r, 'o'))}
					}
					if b.junk {
						ds = append(ds, strings.Repeat("\x07", 32))
					}
					for _, d := range ds {
						evs = append(evs, Event{Kind: 'B', From: a, To: h, Data: ackWire(r, ab, d)})
					}
				}
			}
		}
	}
	return evs
}

func byzCase(prop string, b byzcfg, first int, nfirst int) harness.Case {
	id := fmt.Sprintf("%s/%s/k%d/first%d", strings.ToLower(prop), b.name, b.budget, first)
	return harness.Case{ID: id, Run: func(c *harness.C) {
		cfg := b.rc()
		acts := b.actions()
		var init []Event
		if b.honestBc {
			init = append(init, Event{Kind: 'S', From: b.honest[0], Bcast: true, Data: string(bcastBody(b.rounds[0], byte(b.honest[0])))})
		}
		init = append(init, b.scripted()...)
		c.Exec(fmt.Sprintf("[byz] %s first=%d", b.name, first))
		s := &searcher{c: c, cfg: cfg, init: init, prefix: b.name + "#"}
		isPart := map[uint16]bool{}
		for _, p := range cfg.Participants {
			isPart[p] = true
		}
		s.succ = func(w *rw, hist []Event, used int) []Event {
			var evs []Event
			for _, key := range w.inflightKeys() {
				evs = append(evs, Event{Kind: 'D', Data: key})
			}
			if used < b.budget {
				if len(hist) == len(init) {
					// level-1 sharding: this case owns one first Byzantine action (first == -1: none;
					// the all-honest-deliveries-first subtree)
					if first >= 0 {
						return []Event{acts[first]}
					}
					return evs
				}
				evs = append(evs, acts...)
			}
			return evs
		}
		reported := map[string]bool{}
		report := func(p, clause, sig, detail string, hist []Event) {
			if relabel != "" {
				// C12's slice of this search: a violation of agreement or integrity that involves
				// traffic of a node that is not a participant of the session
				foreign := false
				for _, e := range hist {
					if e.Kind == 'B' && (e.From == b.outsider || e.From == b.unknown) && e.From != 0 {
						foreign = true
					}
				}
				if !foreign {
					return
				}
				clause = "non-participants-do-not-reach-the-session (" + clause + ")"
				sig = strings.ToLower(relabel) + "-foreign-traffic:" + sig
			} else if p != prop {
				return
			}
			c.Add("violating_states:"+sig, 1)
			if reported[sig] {
				return
			}
			reported[sig] = true
			c.Violation(clause, sig, detail, replayHist{Scenario: b.name, Hist: hist, Trace: histStrings(hist)})
		}
		s.onTrans = func(before []HO, w *rw, hist []Event, e Event, pt string) {
			if pt != "" {
				report("C03", "never-an-empty-placeholder/no-panic", "c03-panic:"+panicClass(pt), "panic while handling "+e.String()+": "+pt, hist)
				return
			}
			cnt := map[string]int{}
			for _, h := range before {
				if h.Bcast && len(h.Payload) > 1 {
					cnt[fmt.Sprintf("%d|%d|%d", h.At, h.From, h.Payload[1])]++
				}
			}
			for _, h := range w.ho[len(before):] {
				if h.From == b.outsider || h.From == b.unknown || !isPart[h.From] {
					report("C03", "members-only", "c03-handover-from-non-participant", fmt.Sprintf("party %d handed over a message attributed to non-participant %d", h.At, h.From), hist)
				}
				if len(h.Payload) == 0 {
					report("C03", "non-empty", "c03-empty-handover", fmt.Sprintf("party %d handed over an empty message from %d", h.At, h.From), hist)
					continue
				}
				if h.Bcast {
					if !w.direct[fmt.Sprintf("%d>%d:%s", h.From, h.At, h.Payload)] {
						report("C03", "authentic", "c03-handover-not-sent-by-author", fmt.Sprintf("party %d handed over %x attributed to %d, which never sent it directly", h.At, h.Payload, h.From), hist)
					}
					if len(h.Payload) > 1 {
						k := fmt.Sprintf("%d|%d|%d", h.At, h.From, h.Payload[1])
						cnt[k]++
						if cnt[k] == 2 {
							report("C03", "at-most-once", "c03-duplicate-handover", fmt.Sprintf("party %d handed over a second broadcast of sender %d round %d", h.At, h.From, h.Payload[1]), hist)
						}
					}
				} else {
					src, data := w.lastFrom, w.lastData
					if h.From != src || len(data) == 0 || h.Payload != data[1:] {
						report("C03", "point-to-point-as-received", "c03-p2p-altered", fmt.Sprintf("party %d handed over p2p %x from %d but received %x from %d", h.At, h.Payload, h.From, data, src), hist)
					}
				}
			}
		}
		s.onState = func(w *rw, hist []Event, terminal bool) {
			// C02: agreement among honest parties per (sender, round)
			seen := map[string]HO{}
			for _, h := range w.ho {
				if !h.Bcast || len(h.Payload) < 2 {
					continue
				}
				k := fmt.Sprintf("%d|%d", h.From, h.Payload[1])
				if o, ok := seen[k]; ok && o.Payload != h.Payload && o.At != h.At {
					report("C02", "agreement", "c02-conflicting-handover", fmt.Sprintf("parties %d and %d handed over different payloads (%x vs %x) for sender %d round %d", o.At, h.At, o.Payload, h.Payload, h.From, h.Payload[1]), hist)
				} else if !ok {
					seen[k] = h
				}
			}
			if terminal {
				c.Add("executions", 1)
				if len(w.ho) > 0 {
					if c.Outcome(b.name + "|" + hoKey(w.ho)) {
						c.Sample("byz-terminal", map[string]interface{}{"scenario": b.name, "history": histStrings(hist), "handovers": len(w.ho)})
					}
				}
			}
		}
		s.run(init)
	}}
}

func hoKey(hs []HO) string {
	var ss []string
	for _, h := range hs {
		ss = append(ss, fmt.Sprintf("%d<%d %v %x", h.At, h.From, h.Bcast, h.Payload))
	}
	sort.Strings(ss)
	return strings.Join(ss, ",")
}

// ---------------------------------------------------------------------------------------------

var relabel = os.Getenv("VERIF_RELABEL")

func gen(c *harness.C) []harness.Case {
	prop := os.Getenv("VERIF_PROP")
	c.Property = prop
	if relabel != "" {
		c.Property = relabel
	}
	var cases []harness.Case
	if os.Getenv("VERIF_FAMILY") == "conc" {
		return concCases(c, prop)
	}
	if os.Getenv("VERIF_FAMILY") == "pairs" {
		// every pair of distinct (identifier, round) combinations over boundary values of both:
		// decimal / byte / bit patterns that could collide in a bookkeeping key or on the wire
		idv := []int{1, 11, 2, 25, 12, 255, 256, 257, 6553, 65535}
		rv := []int{1, 2, 5, 6, 12, 51, 56, 100, 127}
		if !c.Thorough() {
			rv = []int{1, 2, 6, 12, 51, 56, 127}
		}
		var all []harness.Case
		for i, a := range idv {
			for _, b := range idv[i+1:] {
				for _, ra := range rv {
					for _, rb := range rv {
						all = append(all, c04case(c04cfg{pair: [4]int{a, ra, b, rb}}))
					}
				}
			}
		}
		return all
	}
	switch prop {
	case "C04":
		c.Note("rule", "explicit-state DFS over all delivery orders of in-flight messages of real Schemes (any-order network), dedup on canonical dump of receivers' private state + in-flight multiset + hand-overs; f0 = global exact search, fK = only deliveries to party K branch (others eager). distinct_nontrivial = distinct quiescent histories")
		global := []c04cfg{{sign: false, n: 2, senders: 1, rounds: 1}, {sign: false, n: 2, senders: 2, rounds: 1}, {sign: false, n: 2, senders: 1, rounds: 2}, {sign: false, n: 2, senders: 2, rounds: 2}, {sign: false, n: 3, senders: 1, rounds: 1}, {sign: false, n: 3, senders: 2, rounds: 1}, {sign: false, n: 3, senders: 1, rounds: 2}, {sign: false, n: 4, senders: 1, rounds: 1},
			{sign: true, n: 2, senders: 2, rounds: 2}, {sign: true, n: 3, senders: 1, rounds: 1}, {sign: true, n: 3, senders: 2, rounds: 1},
			{wide: true, n: 3, senders: 2, rounds: 1}, {wide: true, n: 2, senders: 2, rounds: 2},
			{same: true, n: 3, senders: 3, rounds: 1}, {same: true, n: 3, senders: 2, rounds: 1}, {same: true, sign: true, n: 3, senders: 2, rounds: 1},
			{zero: true, n: 3, senders: 2, rounds: 1}, {zero: true, n: 2, senders: 2, rounds: 1}, {zero: true, sign: true, n: 3, senders: 1, rounds: 1},
			{t: 2, n: 3, senders: 2, rounds: 1}}
		if c.Thorough() {
			global = append(global, c04cfg{n: 3, senders: 2, rounds: 2}, c04cfg{n: 4, senders: 2, rounds: 1}, c04cfg{n: 4, senders: 1, rounds: 2}, c04cfg{n: 5, senders: 1, rounds: 1}, c04cfg{sign: true, n: 3, senders: 1, rounds: 2}, c04cfg{sign: true, n: 4, senders: 1, rounds: 1}, c04cfg{wide: true, n: 4, senders: 1, rounds: 1})
		}
		for _, k := range global {
			cases = append(cases, c04case(k))
		}
		var focus []c04cfg
		for _, n := range []int{3, 4} {
			for _, sr := range [][2]int{{2, 1}, {1, 2}, {2, 2}} {
				for f := 1; f <= n; f++ {
					focus = append(focus, c04cfg{n: n, senders: sr[0], rounds: sr[1], focus: uint16(f)})
				}
			}
		}
		if c.Thorough() {
			for f := 1; f <= 5; f++ {
				focus = append(focus, c04cfg{n: 5, senders: 1, rounds: 1, focus: uint16(f)}, c04cfg{n: 5, senders: 2, rounds: 1, focus: uint16(f)}, c04cfg{n: 5, senders: 2, rounds: 2, focus: uint16(f)})
			}
		}
		for _, k := range focus {
			cases = append(cases, c04case(k))
		}
	case "C02", "C03":
		c.Note("rule", "explicit-state DFS over real Scheme.HandleMessage: honest deliveries in any order, unbounded; Byzantine injections (payloads x/y, forged acknowledgements by participants/outsiders) bounded by k per history; dedup on canonical dump; distinct_nontrivial = distinct terminal hand-over sets with at least one hand-over")
		var bs []byzcfg
		bs = []byzcfg{
			{name: "N3", honest: []uint16{1, 2}, byz: []uint16{3}, outsider: 9, rounds: []uint8{1}, honestBc: true, budget: 4},
			{name: "N4", honest: []uint16{1, 2, 3}, byz: []uint16{4}, outsider: 9, rounds: []uint8{1}, budget: 4},
			{name: "N4b2", honest: []uint16{1, 2}, byz: []uint16{3, 4}, rounds: []uint8{1}, budget: 4},
			{name: "N3-perm-sign", sign: true, honest: []uint16{1, 2}, byz: []uint16{3}, outsider: 9, rounds: []uint8{1}, honestBc: true, budget: 3, perm: true},
			{name: "N3-perm", honest: []uint16{1, 2}, byz: []uint16{3}, rounds: []uint8{1}, honestBc: true, budget: 3, perm: true},
			{name: "N3-lenient-p2p", honest: []uint16{1, 2}, byz: []uint16{3}, rounds: []uint8{1}, budget: 2, lenient: "p2p"},
			{name: "N3-lenient-bcast", honest: []uint16{1, 2}, byz: []uint16{3}, rounds: []uint8{1}, budget: 3, lenient: "bcast"},
			{name: "N3-prefix-collision", honest: []uint16{1, 2}, byz: []uint16{3}, rounds: []uint8{1}, budget: 4, collide: "prefix8"},
			{name: "N3-suffix-collision", honest: []uint16{1, 2}, byz: []uint16{3}, rounds: []uint8{1}, budget: 4, collide: "suffix8"},
			{name: "N4b2-alias-scripted", honest: []uint16{2, 3}, byz: []uint16{1, 257}, rounds: []uint8{1}, budget: 1, script: "alias"},
			{name: "N3-round1-honest-scripted", honest: []uint16{1, 2}, byz: []uint16{3}, rounds: []uint8{1, 2}, budget: 4, script: "round1-honest"},
			{name: "N3-cross-round-scripted", honest: []uint16{1, 2}, byz: []uint16{3}, rounds: []uint8{1, 2}, budget: 1, script: "cross-round"},
			{name: "N4-cross-round-scripted", honest: []uint16{1, 2, 3}, byz: []uint16{4}, rounds: []uint8{1, 2}, budget: 0, script: "cross-round"},
			{name: "N3t2", honest: []uint16{1, 2}, byz: []uint16{3}, rounds: []uint8{1}, budget: 3, t: 2},
			{name: "N4t2", honest: []uint16{1, 2, 3}, byz: []uint16{4}, rounds: []uint8{1}, budget: 3, t: 2},
		}
		if c.Thorough() {
			deeper := []byzcfg{
				{name: "N3", honest: []uint16{1, 2}, byz: []uint16{3}, outsider: 9, unknown: 77, rounds: []uint8{1, 2}, junk: true, aboutSelf: true, honestBc: true, budget: 4},
				{name: "N4", honest: []uint16{1, 2, 3}, byz: []uint16{4}, outsider: 9, rounds: []uint8{1}, honestBc: false, budget: 5},
				{name: "N4b2", honest: []uint16{1, 2}, byz: []uint16{3, 4}, outsider: 9, rounds: []uint8{1}, budget: 5},
				{name: "N5b2", honest: []uint16{1, 2, 3}, byz: []uint16{4, 5}, rounds: []uint8{1}, budget: 5},
				{name: "N3-prefix-collision", honest: []uint16{1, 2}, byz: []uint16{3}, rounds: []uint8{1}, budget: 5, collide: "prefix8"},
				{name: "N3-suffix-collision", honest: []uint16{1, 2}, byz: []uint16{3}, rounds: []uint8{1}, budget: 5, collide: "suffix8"},
				{name: "N4-prefix-collision", honest: []uint16{1, 2, 3}, byz: []uint16{4}, rounds: []uint8{1}, budget: 5, collide: "prefix8"},
				{name: "N3t2", honest: []uint16{1, 2}, byz: []uint16{3}, rounds: []uint8{1}, budget: 4, t: 2},
				{name: "N4t2", honest: []uint16{1, 2, 3}, byz: []uint16{4}, rounds: []uint8{1}, budget: 4, t: 2},
			}
			for _, d := range deeper {
				d.name += "-deep"
				bs = append(bs, d)
			}
		}
		// the same searches on signing sessions (their participant filter and forward closure are
		// separate code)
		for _, b := range append([]byzcfg(nil), bs...) {
			if b.outsider == 0 && !c.Thorough() {
				continue
			}
			b.sign = true
			b.name += "-sign"
			if b.outsider == 0 {
				b.outsider = 9
			}
			bs = append(bs, b)
		}
		for _, b := range bs {
			if relabel != "" && b.outsider == 0 && b.unknown == 0 {
				continue
			}
			if relabel == "C05" && b.sign {
				continue // key generation sessions only
			}
			n := len(b.actions())
			if b.script != "" {
				n = 0 // the injections are fixed: one search over the deliveries
			}
			for f := -1; f < n; f++ {
				cases = append(cases, byzCase(prop, b, f, n))
			}
		}
	default:
		panic("VERIF_PROP must be C02, C03 or C04")
	}
	return cases
}

func TestCheck(t *testing.T) { harness.Main(t, "", gen) }
