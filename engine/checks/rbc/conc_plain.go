//go:build !verifoverlay

package rbc

import "verif/harness"

func concCases(c *harness.C, prop string) []harness.Case {
	c.Note("conc", "built without the sync-shim overlay: thread-level delivery cases not run")
	return nil
}
