//go:build verifoverlay

package rbc

import (
	"context"
	"encoding/json"
	"fmt"
	"sort"
	"strings"
	"sync/atomic"
	"time"

	realrbc "github.com/IBM/TSS/rbc"
	"github.com/IBM/TSS/threshold"
	tss "github.com/IBM/TSS/types"
	"verif/backend/s"
	"verif/dump"
	"verif/explore"
	"verif/harness"
	"verif/shim/sched"
	"verif/world"
)

// Thread-level part of C02/C03/C04 (engine E3). The explicit-state searches deliver one message at
// a time; the library promises the same to its reliable-broadcast instances when several transport
// threads call Scheme.HandleMessage at once (threadSafeRBC). Here two or three dispatcher threads
// deliver their message sequences to one real Scheme concurrently; every interleaving at lock
// granularity plus the harness callbacks (logger, send, backend) within the preemption bound is
// explored. Oracle: the final observable state equals the final state of one of the sequential
// merges of the thread sequences, computed with the same real code (differential, no expected
// values), and the race detector - which sees only the program's own synchronisation - is silent.

type hlog struct {
	n atomic.Int32
	e [256]string
}

func (l *hlog) add(x string) {
	sched.Hidden(func() {
		i := l.n.Add(1) - 1
		if int(i) < len(l.e) {
			l.e[i] = x
		}
	})
}

func (l *hlog) all() []string {
	n := int(l.n.Load())
	if n > len(l.e) {
		n = len(l.e)
	}
	return append([]string(nil), l.e[:n]...)
}

type ylogger struct{}

func (ylogger) DebugEnabled() bool                { return true }
func (ylogger) Debugf(string, ...interface{})     { sched.Yield() }
func (ylogger) Infof(string, ...interface{})      { sched.Yield() }
func (ylogger) Warnf(string, ...interface{})      { sched.Yield() }
func (ylogger) Errorf(string, ...interface{})     { sched.Yield() }
func (ylogger) Panicf(f string, a ...interface{}) { panic(fmt.Sprintf(f, a...)) }

type cbackend struct {
	lg      *hlog
	entered chan struct{}
}

func (p *cbackend) ClassifyMsg(b []byte) (uint8, bool, error)      { return s.Classify(b) }
func (p *cbackend) Init([]uint16, int, func([]byte, bool, uint16)) {}
func (p *cbackend) OnMsg(b []byte, from uint16, bc bool) {
	sched.Yield()
	p.lg.add(fmt.Sprintf("H %d %v %x", from, bc, b))
}
func (p *cbackend) KeyGen(ctx context.Context) ([]byte, error) {
	close(p.entered)
	<-ctx.Done()
	return nil, ctx.Err()
}
func (p *cbackend) SetShareData([]byte) error    { return nil }
func (p *cbackend) ThresholdPK() ([]byte, error) { return []byte("pk"), nil }
func (p *cbackend) Sign(ctx context.Context, _ []byte) ([]byte, error) {
	close(p.entered)
	<-ctx.Done()
	return nil, ctx.Err()
}

type cmsg struct {
	From uint16
	Data string
}

type concScenario struct {
	Name    string
	N       int
	Sign    bool
	Honest  bool // all senders behave: totality is demanded as well
	Threads [][]cmsg
}

func concScenarios(thorough bool) []concScenario {
	A2, B2, A3 := bcastBody(1, 2), bcastBody(1, 9), bcastBody(1, 3)
	R2 := bcastBody(2, 2)
	d := func(from uint16, body []byte) cmsg { return cmsg{from, mpcPayload(body)} }
	a := func(from, about uint16, body []byte) cmsg {
		return cmsg{from, ackWire(body[1], about, digestOf(body))}
	}
	out := []concScenario{
		{Name: "payload-vs-ack", N: 3, Honest: true, Threads: [][]cmsg{{d(2, A2)}, {a(3, 2, A2)}}},
		{Name: "two-senders", N: 3, Honest: true, Threads: [][]cmsg{{d(2, A2), a(2, 3, A3)}, {d(3, A3), a(3, 2, A2)}}},
		{Name: "two-rounds", N: 3, Honest: true, Threads: [][]cmsg{{d(2, A2), d(2, R2)}, {a(3, 2, R2), a(3, 2, A2)}}},
		{Name: "equivocation", N: 3, Threads: [][]cmsg{{d(2, A2), d(2, B2)}, {a(3, 2, A2), a(3, 2, B2)}}},
		{Name: "equivocation-split", N: 3, Threads: [][]cmsg{{d(2, A2), a(3, 2, A2)}, {d(2, B2), a(3, 2, B2)}}},
		{Name: "resend", N: 3, Threads: [][]cmsg{{d(2, A2), d(2, A2)}, {a(3, 2, A2), a(3, 2, A2)}}},
	}
	for _, sc := range append([]concScenario(nil), out[:4]...) {
		sc.Sign = true
		sc.Name += "-sign"
		out = append(out, sc)
	}
	out = append(out, concScenario{Name: "three-threads", N: 4, Honest: true, Threads: [][]cmsg{{d(2, A2)}, {a(3, 2, A2)}, {a(4, 2, A2)}}})
	if thorough {
		out = append(out, concScenario{Name: "three-threads-equivocation", N: 4, Threads: [][]cmsg{{d(2, A2), d(2, B2)}, {a(3, 2, A2), a(3, 2, B2)}, {a(4, 2, B2), a(4, 2, A2)}}})
	}
	return out
}

type concOut struct {
	final    string
	handed   []string
	equiv    bool
	trace    []string
	deadlock bool
	unfin    []string
}

// concRun runs the scenario. order == nil: the threads run under the explorer r; otherwise the
// messages are delivered sequentially by one goroutine in the given merge order (thread indices).
func concRun(c *harness.C, sc concScenario, r *explore.Recorder, order []int) *concOut {
	o := &concOut{}
	rec := c.Bubble(func() {
		lg := &hlog{}
		mem := map[tss.UniversalID]tss.PartyID{}
		var parts []uint16
		for i := 1; i <= sc.N; i++ {
			mem[tss.UniversalID(i)] = tss.PartyID(i)
			parts = append(parts, uint16(i))
		}
		be := &cbackend{lg: lg, entered: make(chan struct{})}
		send := func(msgType uint8, topic []byte, msg []byte, to ...uint16) {
			sched.Yield()
			lg.add(fmt.Sprintf("S %d %x %v", msgType, msg, to))
		}
		p := threshold.LoudScheme(1, ylogger{}, func(uint16) tss.KeyGenerator { return be }, func(uint16) tss.Signer { return be }, sc.N-1, send,
			func() map[tss.UniversalID]tss.PartyID { return mem })
		scm := p.(*threshold.Scheme)
		scm.SyncFactory = func([]uint16, func([]byte), func([]byte, uint16)) tss.Synchronizer { return &instSync{members: parts} }
		var recv *realrbc.Receiver
		oldRBF := scm.RBF
		scm.RBF = func(b tss.BroadcastFunc, f tss.ForwardFunc, n int) tss.ReliableBroadcast {
			x := oldRBF(b, f, n)
			if fv, ok := dump.Field(x, "Receiver"); ok && fv.CanInterface() {
				recv, _ = fv.Interface().(*realrbc.Receiver)
			}
			return x
		}
		ctx, cancel := context.WithCancel(context.Background())
		done := make(chan struct{})
		topic := dkgTopic
		if sc.Sign {
			topic = world.Sha([]byte(signTopic))
		}
		go func() {
			defer close(done)
			if sc.Sign {
				scm.SetStoredData([]byte("share"))
				scm.Sign(ctx, world.Sha([]byte("digest")), signTopic)
				return
			}
			scm.KeyGen(ctx, sc.N, sc.N)
		}()
		<-be.entered
		deliver := func(m cmsg) {
			scm.HandleMessage(&tss.IncMessage{Data: []byte(m.Data), Source: m.From, MsgType: uint8(tss.MsgTypeMPC), Topic: append([]byte(nil), topic...)})
		}
		if order != nil {
			next := make([]int, len(sc.Threads))
			for _, t := range order {
				deliver(sc.Threads[t][next[t]])
				next[t]++
			}
		} else {
			sch := sched.New()
			sch.Quantum, sch.Horizon = time.Second, 3
			for i, seq := range sc.Threads {
				seq := seq
				sch.Go(fmt.Sprintf("D%d", i), func() {
					for _, m := range seq {
						deliver(m)
					}
				})
			}
			sch.Run(r)
			o.deadlock = sch.Deadlock
			o.unfin = sch.WaitAll()
			o.trace = sch.Trace
			sch.Close()
		}
		if len(o.unfin) == 0 {
			ev := lg.all()
			for _, e := range ev {
				if strings.HasPrefix(e, "H ") {
					o.handed = append(o.handed, e)
				}
			}
			sort.Strings(ev)
			st := ""
			if recv != nil {
				st = dump.Fields(recv, "reception", "receivedRoundFromSender", "equivocationDetected")
				if f, ok := dump.Field(recv, "equivocationDetected"); ok {
					o.equiv = f.Bool()
				}
			}
			o.final = strings.Join(ev, "\n") + "\n" + st
		}
		cancel()
		<-done
	})
	if rec != nil && !harness.IsLeakPanic(rec) {
		panic(rec)
	}
	return o
}

func merges(lens []int) [][]int {
	var out [][]int
	left := append([]int(nil), lens...)
	var cur []int
	var rec func()
	rec = func() {
		doneAll := true
		for t := range left {
			if left[t] > 0 {
				doneAll = false
				left[t]--
				cur = append(cur, t)
				rec()
				cur = cur[:len(cur)-1]
				left[t]++
			}
		}
		if doneAll {
			out = append(out, append([]int(nil), cur...))
		}
	}
	rec()
	return out
}

type concReplay struct {
	Conc    string `json:"conc"`
	Choices []int  `json:"choices"`
}

const concShards = 2

func concCases(c *harness.C, prop string) []harness.Case {
	c.Note("conc-rule", "thread-level exploration (engine E3, -race build, scheduler invisible to the detector) of concurrent Scheme.HandleMessage calls for one session: every interleaving within the preemption bound must end in the final state of some sequential merge of the per-thread delivery sequences (computed with the same code) and must be free of data races; this discharges the one-message-at-a-time assumption of the explicit-state searches")
	bound := 2
	if c.Thorough() {
		bound = 3
	}
	var cases []harness.Case
	for _, sc := range concScenarios(c.Thorough()) {
		for k := 0; k < concShards; k++ {
			sc, k := sc, k
			name := "conc/" + sc.Name
			cases = append(cases, harness.Case{ID: fmt.Sprintf("%s/shard%d", name, k), Run: func(c *harness.C) {
				lens := make([]int, len(sc.Threads))
				for i, t := range sc.Threads {
					lens[i] = len(t)
				}
				allowed := map[string][]int{}
				c.Exec(fmt.Sprintf("[%s] sequential merges", name))
				for _, m := range merges(lens) {
					so := concRun(c, sc, nil, m)
					if _, ok := allowed[so.final]; !ok {
						allowed[so.final] = m
					}
				}
				c.NewRaceReports()
				var o *concOut
				reported := map[string]bool{}
				viol := func(clause, sig, detail string, rp concReplay) {
					if !reported[sig] {
						reported[sig] = true
						c.Violation(clause, sig, detail, rp)
					}
				}
				e := &explore.Explorer{Stop: c.Expired}
				e.Run = func(r *explore.Recorder) {
					c.Exec(fmt.Sprintf("[%s] %v", name, r.Prefix))
					o = concRun(c, sc, r, nil)
				}
				e.Visit = func(r *explore.Recorder) {
					c.Add("executions", 1)
					c.Add("transitions", len(o.trace))
					rp := concReplay{Conc: sc.Name, Choices: explore.Trim(r.Choices())}
					for i := range o.trace {
						c.State(name + "|" + strings.Join(o.trace[:i+1], ";"))
					}
					for _, rr := range c.NewRaceReports() {
						if rr.Frames[0] == "" || rr.Frames[1] == "" {
							c.Add("race_reports_with_harness_frames", 1)
							c.Note("harness-race", strings.ReplaceAll(rr.Text, "\n", " | ")[:min(len(rr.Text), 1500)])
							continue
						}
						viol("one-message-at-a-time per instance (no data race)", strings.ToLower(prop)+"-"+rr.Signature, fmt.Sprintf("%s schedule %v: concurrent deliveries to one session race between %s and %s", name, rp.Choices, rr.Frames[0], rr.Frames[1]), rp)
					}
					if o.deadlock || len(o.unfin) > 0 {
						viol("deliveries return", strings.ToLower(prop)+"-conc-deadlock:"+sc.Name, fmt.Sprintf("%s schedule %v: delivering threads %v never returned", name, rp.Choices, o.unfin), rp)
						return
					}
					if _, ok := allowed[o.final]; !ok {
						viol("one-message-at-a-time per instance (serialisable)", strings.ToLower(prop)+"-concurrent-deliveries-not-serialisable:"+sc.Name, fmt.Sprintf("%s schedule %v (%s): the final state (hand-overs %v, equivocation=%v) is not the final state of any of the %d sequential delivery orders", name, rp.Choices, strings.Join(o.trace, " "), o.handed, o.equiv, len(merges(lens))), rp)
					}
					cnt := map[string]int{}
					for _, h := range o.handed {
						cnt[h]++
					}
					if sc.Honest {
						if o.equiv {
							viol("no equivocation in honest runs", strings.ToLower(prop)+"-conc-false-equivocation:"+sc.Name, fmt.Sprintf("%s schedule %v: equivocation flagged although every sender was honest", name, rp.Choices), rp)
						}
						for _, t := range sc.Threads {
							for _, m := range t {
								if m.Data[0] == 255 {
									k := fmt.Sprintf("H %d true %x", m.From, m.Data[1:])
									if cnt[k] != 1 {
										viol("exactly once", strings.ToLower(prop)+"-conc-handover-count:"+sc.Name, fmt.Sprintf("%s schedule %v: broadcast %x of %d handed over %d times", name, rp.Choices, m.Data[1:], m.From, cnt[k]), rp)
									}
								}
							}
						}
					}
					if c.Outcome(name+"|"+o.final) && r.Deviations() > 0 {
						c.Sample("conc", map[string]interface{}{"scenario": sc.Name, "choices": rp.Choices, "schedule": o.trace, "handed": o.handed})
					}
				}
				if c.Replay != nil {
					var rp concReplay
					if json.Unmarshal(c.Replay, &rp) == nil && rp.Conc == sc.Name {
						e.Explore(rp.Choices, nil, -1)
					}
					return
				}
				root := &explore.Recorder{}
				c.Exec(fmt.Sprintf("[%s] root", name))
				concRun(c, sc, root, nil)
				if k == 0 {
					e.Explore(nil, nil, -1)
				} else {
					c.NewRaceReports()
				}
				for i, t := range explore.RootTasks(root) {
					if i%concShards != k {
						continue
					}
					cost := 1
					if root.Points[t[0]].Free {
						cost = 0
					}
					if bound-cost < 0 {
						continue
					}
					e.Explore(explore.TaskPrefix(t[0], t[1]), root.Labels(), bound-cost)
					if e.Capped {
						break
					}
				}
				if e.NondetPrefixes > 0 {
					c.Add("nondeterministic_prefixes", e.NondetPrefixes)
					c.Cap("nondeterministic-prefix")
				}
			}})
		}
	}
	return cases
}
