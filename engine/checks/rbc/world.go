// Package rbc holds the explicit-state search over the real reliable-broadcast path
// (Scheme.HandleMessage -> handleMPC -> classifier -> rbcFilter -> threadSafeRBC -> rbc.Receiver ->
// forward closure -> backend.OnMsg) that decides C02, C03 and C04.
package rbc

import (
	"context"
	"crypto/sha256"
	"encoding/hex"
	"encoding/json"
	"fmt"
	"sort"
	"strings"
	"sync"
	"time"

	realrbc "github.com/IBM/TSS/rbc"
	"github.com/IBM/TSS/threshold"
	tss "github.com/IBM/TSS/types"
	"verif/backend/s"
	"verif/dump"
	"verif/world"
)

var dkgTopic = func() []byte { h := sha256.Sum256([]byte(tss.DkgTopicName)); return h[:] }()

// HO is one hand-over to the backend.
type HO struct {
	At, From uint16
	Bcast    bool
	Payload  string
}

type passive struct {
	node    uint16
	w       *rw
	entered chan struct{}
	send    func(msg []byte, isBroadcast bool, to uint16)
}

func (p *passive) ClassifyMsg(b []byte) (uint8, bool, error) {
	if len(b) == 0 && p.w.cfg.Lenient != "" {
		if p.w.cfg.Lenient == "bcast" {
			return 1, true, nil
		}
		return 0, false, nil
	}
	return s.Classify(b)
}
func (p *passive) Init(parties []uint16, threshold int, sendMsg func(msg []byte, isBroadcast bool, to uint16)) {
	p.send = sendMsg
	p.w.mu.Lock()
	p.w.inits[p.node] = append([]uint16(nil), parties...)
	p.w.mu.Unlock()
}
func (p *passive) OnMsg(b []byte, from uint16, bc bool) {
	p.w.ho = append(p.w.ho, HO{At: p.node, From: p.w.cfg.nodeOfParty(from), Bcast: bc, Payload: string(b)})
}
func (p *passive) KeyGen(ctx context.Context) ([]byte, error) {
	close(p.entered)
	<-ctx.Done()
	return nil, ctx.Err()
}

// Signer side of the passive backend (signing sessions use the same reliable-broadcast path).
func (p *passive) SetShareData([]byte) error    { return nil }
func (p *passive) ThresholdPK() ([]byte, error) { return []byte("pk"), nil }
func (p *passive) Sign(ctx context.Context, _ []byte) ([]byte, error) {
	close(p.entered)
	<-ctx.Done()
	return nil, ctx.Err()
}

const signTopic = "rbc-sign-topic"

// instSync is an instant synchroniser: it agrees at once on the configured participant list.
type instSync struct{ members []uint16 }

func (i *instSync) Synchronize(_ context.Context, f func([]uint16), _ []byte, _ int, _ time.Duration) error {
	f(i.members)
	return nil
}

func (i *instSync) HandleMessage(uint16, []byte) {}

// A packet keeps the sender's slice (as the bundled transport's queue does): what is read at
// delivery is what the slice holds then.
type pkt struct {
	from, to uint16
	raw      []byte
}

func (p pkt) data() string { return string(p.raw) }

func (p pkt) key() string { return fmt.Sprintf("%d>%d:%x", p.from, p.to, p.data()) }

// Event of the search.
type Event struct {
	Kind     byte   // 'D' deliver in-flight, 'B' Byzantine injection, 'S' honest backend sends
	From, To uint16 // B: claimed (= transport) source and target; S: From = sending node
	Data     string // D: packet key; B: raw bytes; S: backend payload
	Bcast    bool
}

type eventJSON struct {
	Kind     string `json:"kind"`
	From, To uint16
	DataHex  string `json:"data_hex"`
	Bcast    bool   `json:"bcast,omitempty"`
}

func (e Event) MarshalJSON() ([]byte, error) {
	return json.Marshal(eventJSON{Kind: string(rune(e.Kind)), From: e.From, To: e.To, DataHex: hex.EncodeToString([]byte(e.Data)), Bcast: e.Bcast})
}

func (e *Event) UnmarshalJSON(b []byte) error {
	var j eventJSON
	if err := json.Unmarshal(b, &j); err != nil {
		return err
	}
	d, err := hex.DecodeString(j.DataHex)
	if err != nil {
		return err
	}
	if len(j.Kind) != 1 {
		return fmt.Errorf("bad kind")
	}
	*e = Event{Kind: j.Kind[0], From: j.From, To: j.To, Data: string(d), Bcast: j.Bcast}
	return nil
}

func (e Event) String() string {
	switch e.Kind {
	case 'D':
		return "D " + e.Data
	case 'B':
		return fmt.Sprintf("B %d>%d %s", e.From, e.To, world.DataClass(2, []byte(e.Data)))
	default:
		return fmt.Sprintf("S %d bc=%v %x", e.From, e.Bcast, e.Data)
	}
}

func shortKey(k string) string {
	i := strings.Index(k, ":")
	if i < 0 || len(k) < i+9 {
		return k
	}
	return k[:i+9]
}

type rcfg struct {
	Sign         bool     // the session is a signing session (Scheme.Sign) instead of a key generation
	Participants []uint16 // session participants (honest + Byzantine)
	Honest       []uint16
	All          []uint16 // configured membership (participants + outsiders)
	T            int      // key-generation threshold (0: number of participants)
	// Lenient: the backend's classifier does not reject an empty message (it calls it
	// point-to-point, round 0 - what the tss-lib adapters do) or, with "bcast", broadcast round 1
	Lenient string
	// PartyOf: node -> party (nil: identity). Hand-overs are recorded in node space (the party the
	// backend is told is translated back), so every oracle compares nodes with nodes.
	PartyOf map[uint16]uint16
}

func (c rcfg) nodeOfParty(p uint16) uint16 {
	if c.PartyOf == nil {
		return p
	}
	for n, q := range c.PartyOf {
		if q == p {
			return n
		}
	}
	return 60000 + p // a party nobody represents
}

// rw is one world of real Schemes.
type rw struct {
	mu     sync.Mutex
	cfg    rcfg
	sch    map[uint16]*threshold.Scheme
	be     map[uint16]*passive
	recv   map[uint16]*realrbc.Receiver
	inits  map[uint16][]uint16
	fl     []pkt
	ho     []HO
	direct map[string]bool // "from>to:payload" delivered directly from its author
	cancel context.CancelFunc
	done   []chan struct{}
	panics []string

	lastFrom uint16
	lastData string
}

func isHonest(c rcfg, id uint16) bool {
	for _, h := range c.Honest {
		if h == id {
			return true
		}
	}
	return false
}

func newRW(cfg rcfg) *rw {
	w := &rw{cfg: cfg, sch: map[uint16]*threshold.Scheme{}, be: map[uint16]*passive{}, recv: map[uint16]*realrbc.Receiver{},
		inits: map[uint16][]uint16{}, direct: map[string]bool{}}
	ctx, cancel := context.WithCancel(context.Background())
	w.cancel = cancel
	mem := map[tss.UniversalID]tss.PartyID{}
	for _, id := range cfg.All {
		mem[tss.UniversalID(id)] = tss.PartyID(id)
		if cfg.PartyOf != nil {
			mem[tss.UniversalID(id)] = tss.PartyID(cfg.PartyOf[id])
		}
	}
	for _, id := range cfg.Honest {
		id := id
		be := &passive{node: id, w: w, entered: make(chan struct{})}
		w.be[id] = be
		send := func(msgType uint8, topic []byte, msg []byte, to ...uint16) {
			if msgType != uint8(tss.MsgTypeMPC) {
				return
			}
			for _, dst := range to {
				if isHonest(cfg, dst) && dst != id {
					w.fl = append(w.fl, pkt{from: id, to: dst, raw: msg})
				}
			}
		}
		p := threshold.LoudScheme(id, world.NopLogger{}, func(uint16) tss.KeyGenerator { return be }, func(uint16) tss.Signer { return be }, len(cfg.Participants)-1, send,
			func() map[tss.UniversalID]tss.PartyID { return mem })
		sc, ok := p.(*threshold.Scheme)
		if !ok {
			panic("LoudScheme no longer returns *threshold.Scheme")
		}
		members := append([]uint16(nil), cfg.Participants...)
		sc.SyncFactory = func([]uint16, func([]byte), func([]byte, uint16)) tss.Synchronizer {
			return &instSync{members: members}
		}
		oldRBF := sc.RBF
		sc.RBF = func(b tss.BroadcastFunc, f tss.ForwardFunc, n int) tss.ReliableBroadcast {
			r := oldRBF(b, f, n)
			if fv, ok := dump.Field(r, "Receiver"); ok && fv.CanInterface() {
				if rr, ok := fv.Interface().(*realrbc.Receiver); ok {
					w.mu.Lock()
					w.recv[id] = rr
					w.mu.Unlock()
				}
			}
			return r
		}
		w.sch[id] = sc
		d := make(chan struct{})
		w.done = append(w.done, d)
		go func() {
			defer close(d)
			if cfg.Sign {
				sc.SetStoredData([]byte("share"))
				sc.Sign(ctx, world.Sha([]byte("digest")), signTopic)
				return
			}
			t := cfg.T
			if t == 0 {
				t = len(cfg.Participants)
			}
			sc.KeyGen(ctx, len(cfg.Participants), t)
		}()
	}
	for _, id := range cfg.Honest {
		<-w.be[id].entered
	}
	return w
}

func (w *rw) close() {
	w.cancel()
	for _, d := range w.done {
		<-d
	}
}

// apply executes one event; it reports a recovered panic text.
func (w *rw) apply(e Event) (panicText string) {
	defer func() {
		if r := recover(); r != nil {
			panicText = fmt.Sprint(r)
			w.panics = append(w.panics, panicText)
		}
	}()
	switch e.Kind {
	case 'D':
		for i, p := range w.fl {
			if p.key() == e.Data {
				w.fl = append(append([]pkt(nil), w.fl[:i]...), w.fl[i+1:]...)
				w.deliver(p.from, p.to, p.data())
				return
			}
		}
		panic("harness: packet " + shortKey(e.Data) + " not in flight")
	case 'B':
		w.deliver(e.From, e.To, e.Data)
	case 'S':
		w.be[e.From].send([]byte(e.Data), e.Bcast, e.To)
	}
	return
}

func (w *rw) deliver(from, to uint16, data string) {
	w.lastFrom, w.lastData = from, data
	if len(data) > 0 && data[0] == 255 {
		w.direct[fmt.Sprintf("%d>%d:%s", from, to, data[1:])] = true
	}
	topic := dkgTopic
	if w.cfg.Sign {
		topic = world.Sha([]byte(signTopic))
	}
	w.sch[to].HandleMessage(&tss.IncMessage{Data: []byte(data), Source: from, MsgType: uint8(tss.MsgTypeMPC), Topic: append([]byte(nil), topic...)})
}

// key is the canonical state: in-flight multiset (2 = many), receivers' private state, hand-overs
// (count capped at 2).
func (w *rw) key() string {
	var sb strings.Builder
	cnt := map[string]int{}
	for _, p := range w.fl {
		cnt[p.key()]++
	}
	var ks []string
	for k, c := range cnt {
		if c > 2 {
			c = 2
		}
		ks = append(ks, fmt.Sprintf("%s*%d", k, c))
	}
	sort.Strings(ks)
	sb.WriteString(strings.Join(ks, ","))
	sb.WriteString("|")
	for _, id := range w.cfg.Honest {
		if r := w.recv[id]; r != nil {
			sb.WriteString(dump.Fields(r, "reception", "receivedRoundFromSender", "equivocationDetected"))
		}
		sb.WriteString("/")
	}
	hc := map[HO]int{}
	for _, h := range w.ho {
		hc[h]++
	}
	var hs []string
	for h, c := range hc {
		if c > 2 {
			c = 2
		}
		hs = append(hs, fmt.Sprintf("%d<%d %v %x*%d", h.At, h.From, h.Bcast, h.Payload, c))
	}
	sort.Strings(hs)
	sb.WriteString(strings.Join(hs, ","))
	return sb.String()
}

func (w *rw) equivocation(id uint16) (bool, bool) {
	r := w.recv[id]
	if r == nil {
		return false, false
	}
	f, ok := dump.Field(r, "equivocationDetected")
	if !ok {
		return false, false
	}
	return f.Bool(), true
}

// inflightKeys returns the distinct in-flight packet keys, sorted.
func (w *rw) inflightKeys() []string {
	seen := map[string]bool{}
	var ks []string
	for _, p := range w.fl {
		k := p.key()
		if !seen[k] {
			seen[k] = true
			ks = append(ks, k)
		}
	}
	sort.Strings(ks)
	return ks
}

// build creates a fresh world and replays the history.
func build(cfg rcfg, hist []Event) *rw {
	w := newRW(cfg)
	for _, e := range hist {
		w.apply(e)
	}
	return w
}

// wire helpers -------------------------------------------------------------------------------

func mpcPayload(body []byte) string { return string(append([]byte{255}, body...)) }

func bcastBody(round uint8, tag byte) []byte { return []byte{s.ClassBcast, round, tag} }
func p2pBody(round uint8, tag byte) []byte   { return []byte{s.ClassP2P, round, tag} }

func digestOf(body []byte) string { h := sha256.Sum256(body); return string(h[:]) }

func ackWire(round uint8, about uint16, digest string) string {
	return string(append([]byte{round, byte(about >> 8), byte(about)}, digest...))
}
