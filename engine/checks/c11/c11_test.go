package c11

import (
	"context"
	"encoding/asn1"
	"encoding/json"
	"fmt"
	"os"
	"sort"
	"strings"
	"testing"
	"time"

	tss "github.com/IBM/TSS/types"
	"verif/backend/blsb"
	"verif/backend/psb"
	"verif/backend/s"
	"verif/explore"
	"verif/harness"
	"verif/scen"
	"verif/world"
)

const (
	deadline = 3 * time.Second
	probe    = 200 * time.Millisecond
)

type fault struct {
	Kind string `json:"kind"`           // none | silent-after | withhold | cancel | precondition
	Peer uint16 `json:"peer,omitempty"` // silent-after: the peer that goes silent; cancel: the caller whose ctx is cancelled
	K    int    `json:"k,omitempty"`    // silent-after: transmissions of Peer beyond the K-th are dropped; withhold: global index; cancel: big step
	Data string `json:"data,omitempty"` // precondition: which unusable stored data
}

func (f fault) String() string { return fmt.Sprintf("%s/p%d/k%d/%s", f.Kind, f.Peer, f.K, f.Data) }

type cfg struct {
	Stack string `json:"stack"` // S | bls | ps
	Mode  string `json:"mode"`
	Op    string `json:"op"` // keygen | sign
	N     int    `json:"n"`
	T     int    `json:"t,omitempty"` // key-generation threshold (0: n)
}

func (k cfg) String() string {
	if k.T != 0 {
		return fmt.Sprintf("%s-%s-%s-n%dt%d", k.Stack, k.Mode, k.Op, k.N, k.T)
	}
	return fmt.Sprintf("%s-%s-%s-n%d", k.Stack, k.Mode, k.Op, k.N)
}

func (k cfg) t() int {
	if k.T != 0 {
		return k.T
	}
	return k.N
}

func ids(n int) []uint16 {
	out := make([]uint16, n)
	for i := range out {
		out[i] = uint16(i + 1)
	}
	return out
}

type out struct {
	dup       *scen.Result // refused-duplicate: the second call of the same operation
	dup2      *scen.Result // ... and the third
	retry     map[uint16]*scen.Result
	res       map[uint16]*scen.Result
	sendCount map[uint16]int
	total     int
	trace     []string
	steps     int
}

func factories(stack string, lg *s.Log) (tss.KeyGenFactory, tss.SignerFactory) {
	switch stack {
	case "bls":
		return blsb.KeyGenFactory, blsb.SignerFactory
	case "ps":
		return psb.KeyGenFactory(1), psb.SignerFactory(1)
	}
	po := func(n uint16) uint16 { return n }
	return func(id uint16) tss.KeyGenerator { return s.New(id, po, lg) }, func(id uint16) tss.Signer { return s.New(id, po, lg) }
}

// storedFor produces stored data for the sign scenarios without running a DKG (backend S).
func storedFor(id uint16, members []uint16) []byte {
	b, _ := json.Marshal(s.Stored{Parties: members, Thr: len(members) - 1, Key: s.DKGKey(members), Self: id})
	return b
}

func run(c *harness.C, k cfg, f fault, r world.Chooser) *out {
	o := &out{res: map[uint16]*scen.Result{}, retry: map[uint16]*scen.Result{}, sendCount: map[uint16]int{}}
	rec := c.Bubble(func() {
		members := ids(k.N)
		w := world.New(members)
		lg := s.NewLog()
		kgf, sf := factories(k.Stack, lg)
		st := &scen.Stack{Mode: k.Mode, KGF: kgf, SF: sf, Threshold: k.N - 1, Membership: scen.Identity(members)}
		for _, id := range members {
			st.Build(w, id)
		}
		cnt := map[uint16]int{}
		total := 0
		w.Net.Filter = func(p *world.Packet) []*world.Packet {
			cnt[p.From]++
			total++
			switch f.Kind {
			case "silent-after":
				if p.From == f.Peer && cnt[p.From] > f.K {
					return nil
				}
			case "refused-duplicate":
				if p.From == f.Peer {
					return nil
				}
			case "withhold":
				if total == f.K {
					return nil
				}
			}
			return []*world.Packet{p}
		}
		var callStart time.Duration
		rs := scen.NewResults()
		cancels := map[uint16]context.CancelFunc{}
		dkgShares := map[uint16][]byte{}
		if k.Op == "sign" && k.Stack != "S" {
			// real shares first (fault-free DKG in the same world)
			saved := w.Net.Filter
			w.Net.Filter = nil
			for _, id := range members {
				scen.StartKeyGen(w, w.Parties[id], rs, fmt.Sprint("dkg", id), k.N, k.N, deadline)
			}
			w.Loop(&explore.Recorder{}, deadline)
			for _, id := range members {
				dkgShares[id] = rs.Get(fmt.Sprint("dkg", id)).Data
			}
			w.Net.Filter = saved
		}
		for _, id := range members {
			// a peer that is silent from the start (k = 0) does not even take part
			if (f.Kind == "silent-after" && f.K == 0 || f.Kind == "refused-duplicate") && id == f.Peer {
				continue
			}
			p := w.Parties[id]
			if k.Op == "keygen" {
				cancels[id] = scen.StartKeyGen(w, p, rs, fmt.Sprint(id), k.N, k.t(), deadline)
			} else {
				data := storedFor(id, members)
				if k.Stack != "S" {
					data = dkgShares[id]
				}
				if f.Kind == "precondition" && id == f.Peer {
					switch f.Data {
					case "nil":
						data = nil
					case "empty":
						data = []byte{}
					case "truncated":
						data = data[:len(data)/2]
					case "random":
						data = []byte("\x30\x82\xff\xff random bytes that are no share")
					case "other-scheme":
						data = []byte(`{"unrelated":true}`)
						if k.Stack == "S" {
							data = []byte("\x30\x03\x04\x01\x01")
						}
					case "public-keys-0", "public-keys-2", "public-keys-n-1", "public-keys-n+1":
						// well-formed stored data that lists another number of public keys
						var sd struct {
							Sk          []byte
							PublicKeys  [][]byte
							ThresholdPK []byte
						}
						if _, err := asn1.Unmarshal(data, &sd); err == nil && len(sd.PublicKeys) > 1 {
							switch f.Data {
							case "public-keys-0":
								sd.PublicKeys = nil
							case "public-keys-2":
								sd.PublicKeys = sd.PublicKeys[:2]
							case "public-keys-n-1":
								sd.PublicKeys = sd.PublicKeys[:len(sd.PublicKeys)-1]
							case "public-keys-n+1":
								sd.PublicKeys = append(sd.PublicKeys, sd.PublicKeys[0])
							}
							data, _ = asn1.Marshal(sd)
						}
					case "fewer-public-keys":
						// well-formed stored data of this scheme that lists fewer public keys than parties
						var sd struct {
							Sk          []byte
							PublicKeys  [][]byte
							ThresholdPK []byte
						}
						if _, err := asn1.Unmarshal(data, &sd); err == nil && len(sd.PublicKeys) > 1 {
							sd.PublicKeys = sd.PublicKeys[:1]
							data, _ = asn1.Marshal(sd)
						}
					}
				}
				p.Mpc.SetStoredData(data)
				callStart = w.Now()
				cancels[id] = scen.StartSign(w, p, rs, fmt.Sprint(id), []byte("digest-c11"), "topic-c11", deadline)
			}
		}
		if f.Kind == "refused-duplicate" {
			// a local precondition fails: while party 1's call is stuck (peer f.Peer vanished), the
			// same operation is invoked again on party 1 (same topic / second key generation); it is
			// refused - and neither call may block beyond its deadline because of that
			// ... and once more one step later (an application that retries): refused as well
			step := 0
			fired := 0
			w.Extra = func() []world.Event {
				step++
				if fired < 2 && step > f.K+fired {
					fired++
					name := "dup"
					if fired == 2 {
						name = "dup2"
					}
					return []world.Event{{Label: "duplicate call at 1 (" + name + ")", Do: func() {
						if k.Op == "keygen" {
							scen.StartKeyGen(w, w.Parties[1], rs, name, k.N, k.t(), deadline)
						} else {
							scen.StartSign(w, w.Parties[1], rs, name, []byte("digest-c11"), "topic-c11", deadline)
						}
					}}}
				}
				return nil
			}
		}
		if f.Kind == "cancel" {
			step := 0
			fired := false
			w.Hold = func(*world.Packet) bool {
				return false
			}
			w.Extra = func() []world.Event {
				step++
				if !fired && step > f.K {
					fired = true
					return []world.Event{{Label: fmt.Sprintf("cancel %d", f.Peer), Do: func() { cancels[f.Peer]() }}}
				}
				return nil
			}
		}
		horizon := deadline + 2*probe
		if f.Kind == "refused-duplicate" {
			horizon += deadline // the duplicate call has a deadline of its own
		}
		w.Loop(r, w.Now()+horizon)
		o.dup = rs.Get("dup")
		o.dup2 = rs.Get("dup2")
		for _, id := range members {
			o.res[id] = rs.Get(fmt.Sprint(id))
			if o.res[id] != nil && o.res[id].Returned {
				o.res[id].At -= callStart
			}
		}
		o.steps = len(w.Trace)
		if k.Op == "sign" && k.Stack == "S" && f.Kind != "none" {
			// the same topic is signed again, without faults: whatever the first attempt left behind
			// must not make this one panic or block
			w.Net.Filter = nil
			w.Advance(probe)
			t0 := w.Now()
			for _, id := range members {
				w.Parties[id].Mpc.SetStoredData(storedFor(id, members))
				scen.StartSign(w, w.Parties[id], rs, fmt.Sprint("retry", id), []byte("digest-c11"), "topic-c11", deadline)
			}
			w.Loop(&explore.Recorder{}, w.Now()+deadline+2*probe)
			for _, id := range members {
				r2 := rs.Get(fmt.Sprint("retry", id))
				if r2 != nil && r2.Returned {
					r2.At -= t0
				}
				o.retry[id] = r2
			}
		}
		// background goroutines keep running after the calls returned: give them a virtual minute
		w.Advance(time.Minute)
		o.sendCount, o.total = cnt, total
		o.trace = w.Trace
		w.Stop()
	})
	if rec != nil && !harness.IsLeakPanic(rec) {
		panic(rec)
	}
	return o
}

type replay struct {
	Cfg   cfg   `json:"cfg"`
	Fault fault `json:"fault"`
}

func oracle(c *harness.C, k cfg, f fault, o *out) {
	rp := replay{k, f}
	what := k.String() + " " + f.String()
	for id, r := range o.res {
		if r == nil {
			continue // did not take part
		}
		if !r.Returned {
			c.Violation("returns-by-deadline", fmt.Sprintf("c11-%s-never-returns:%s/%s/%s", k.Op, k.Stack, k.Mode, f.Kind), fmt.Sprintf("%s: party %d has not returned %v after its deadline", what, id, 2*probe), rp)
			continue
		}
		if r.At > deadline+probe {
			c.Violation("returns-by-deadline", fmt.Sprintf("c11-%s-returns-late:%s/%s/%s", k.Op, k.Stack, k.Mode, f.Kind), fmt.Sprintf("%s: party %d returned at %v (deadline %v)", what, id, r.At, deadline), rp)
		}
		mustFail := false
		switch f.Kind {
		case "cancel":
			mustFail = id == f.Peer && r.Err == nil && false
		case "precondition":
			mustFail = id == f.Peer && f.Data != "fewer-public-keys" && !strings.HasPrefix(f.Data, "public-keys-")
		case "silent-after":
			// a participant is missing altogether: an interactive session cannot complete
			// (BLS/PS signing is non-interactive and may legitimately succeed)
			mustFail = f.K == 0 && (k.Op == "keygen" || k.Stack == "S")
		}
		if mustFail && r.Err == nil {
			c.Violation("error-on-failure", fmt.Sprintf("c11-%s-succeeds-despite:%s/%s/%s", k.Op, k.Stack, k.Mode, f.Kind), fmt.Sprintf("%s: party %d returned success", what, id), rp)
		}
		if r.Err == nil && len(r.Data) == 0 {
			c.Violation("error-or-result", fmt.Sprintf("c11-%s-nil-nil:%s/%s/%s", k.Op, k.Stack, k.Mode, f.Kind), fmt.Sprintf("%s: party %d returned neither data nor error", what, id), rp)
		}
	}
}

func dupOracle(c *harness.C, k cfg, f fault, o *out) {
	if f.Kind != "refused-duplicate" {
		return
	}
	if o.dup == nil {
		c.Note("c11-dup", "the duplicate call was never issued (session ended first)")
		return
	}
	if o.dup2 != nil && !o.dup2.Returned {
		c.Violation("returns-by-deadline", fmt.Sprintf("c11-second-duplicate-call-never-returns:%s/%s/%s", k.Stack, k.Mode, k.Op), fmt.Sprintf("%s %s: the third %s call on party 1 (issued right after a refused second one, while the first was waiting for a vanished peer) has not returned after its deadline", k, f, k.Op), replay{k, f})
	}
	if !o.dup.Returned {
		c.Violation("returns-by-deadline", fmt.Sprintf("c11-duplicate-call-never-returns:%s/%s/%s", k.Stack, k.Mode, k.Op), fmt.Sprintf("%s %s: the second %s call on party 1 (issued while the first was waiting for a vanished peer) has not returned after its deadline", k, f, k.Op), replay{k, f})
	}
}

func retryOracle(c *harness.C, k cfg, f fault, o *out) {
	for id, r := range o.retry {
		if r == nil {
			continue
		}
		if !r.Returned {
			c.Violation("returns-by-deadline", fmt.Sprintf("c11-retry-never-returns:%s/%s/%s", k.Stack, k.Mode, f.Kind), fmt.Sprintf("%s %s: the fault-free retry on the same topic: party %d has not returned", k, f, id), replay{k, f})
		}
	}
}

func outcomeKey(o *out) string {
	var ks []string
	for id, r := range o.res {
		if r == nil {
			ks = append(ks, fmt.Sprintf("%d:absent", id))
		} else {
			ks = append(ks, fmt.Sprintf("%d:%v:%v", id, r.Returned, r.Err != nil))
		}
	}
	sort.Strings(ks)
	return strings.Join(ks, ",")
}

// cell runs one (cfg, fault) execution; the execution is announced with its class so that a crash
// of the process is attributed to it.
func cell(c *harness.C, k cfg, f fault) *out {
	c.Exec(fmt.Sprintf("[%s/%s/%s/%s] %s", k.Stack, k.Mode, k.Op, f.Kind, f.String()))
	o := run(c, k, f, &explore.Recorder{})
	c.Add("executions", 1)
	c.Add("transitions", len(o.trace))
	oracle(c, k, f, o)
	dupOracle(c, k, f, o)
	retryOracle(c, k, f, o)
	if c.Outcome(k.String() + "|" + f.Kind + "|" + outcomeKey(o) + "|" + fmt.Sprint(o.steps)) {
		c.Sample("c11", map[string]interface{}{"cfg": k.String(), "fault": f.String(), "outcome": outcomeKey(o), "steps": o.steps})
	}
	return o
}

func gen(c *harness.C) []harness.Case {
	c.Note("rule", "fault cells on the default schedule of the full real stack: for every peer P and every k, P's transmissions beyond the k-th are dropped; every single message withheld; (backend S) cancellation of one caller's context at every big step; unusable stored data; distinct_nontrivial = distinct (configuration, fault kind, per-party outcome, step count)")
	var cfgs []cfg
	stacks := []string{"S", "bls", "ps"}
	for _, st := range stacks {
		for _, m := range []string{"loud", "silent"} {
			cfgs = append(cfgs, cfg{Stack: st, Mode: m, Op: "keygen", N: 3})
		}
	}
	for _, m := range []string{"loud", "silent"} {
		cfgs = append(cfgs, cfg{Stack: "S", Mode: m, Op: "sign", N: 3}, cfg{Stack: "bls", Mode: m, Op: "sign", N: 3}, cfg{Stack: "ps", Mode: m, Op: "sign", N: 3})
	}
	// key generation with a threshold below n: every participant is still needed
	cfgs = append(cfgs, cfg{Stack: "bls", Mode: "loud", Op: "keygen", N: 3, T: 2}, cfg{Stack: "ps", Mode: "loud", Op: "keygen", N: 3, T: 2}, cfg{Stack: "S", Mode: "silent", Op: "keygen", N: 3, T: 2})
	if c.Thorough() {
		for _, m := range []string{"loud", "silent"} {
			cfgs = append(cfgs, cfg{Stack: "S", Mode: m, Op: "keygen", N: 4}, cfg{Stack: "bls", Mode: m, Op: "keygen", N: 4}, cfg{Stack: "S", Mode: m, Op: "sign", N: 4}, cfg{Stack: "bls", Mode: m, Op: "keygen", N: 4, T: 2})
		}
	}
	var cases []harness.Case
	cases = append(cases, threadCases(c)...)
	cases = append(cases, stallCases()...)
	for _, k := range cfgs {
		k := k
		// fault-free run to learn the send counts (list time)
		base := run(c, k, fault{Kind: "none"}, &explore.Recorder{})
		cases = append(cases, harness.Case{ID: k.String() + "/none", Run: func(c *harness.C) { cell(c, k, fault{Kind: "none"}) }})
		for _, p := range ids(k.N) {
			p := p
			n := base.sendCount[p]
			for lo := 0; lo <= n; lo += 1 {
				lo := lo
				hi := lo + 1
				cases = append(cases, harness.Case{ID: fmt.Sprintf("%s/silent-after/p%d/k%d-%d", k, p, lo, hi-1), Run: func(c *harness.C) {
					for kk := lo; kk < hi; kk++ {
						if c.Expired() {
							return
						}
						cell(c, k, fault{Kind: "silent-after", Peer: p, K: kk})
					}
				}})
			}
		}
		for lo := 1; lo <= base.total; lo += 1 {
			lo := lo
			hi := lo + 1
			cases = append(cases, harness.Case{ID: fmt.Sprintf("%s/withhold/%d-%d", k, lo, hi-1), Run: func(c *harness.C) {
				for kk := lo; kk < hi; kk++ {
					if c.Expired() {
						return
					}
					cell(c, k, fault{Kind: "withhold", K: kk})
				}
			}})
		}
		if k.Stack == "S" {
			for lo := 0; lo <= base.steps; lo += 8 {
				lo := lo
				hi := lo + 8
				cases = append(cases, harness.Case{ID: fmt.Sprintf("%s/cancel/%d-%d", k, lo, hi-1), Run: func(c *harness.C) {
					for kk := lo; kk < hi && kk <= base.steps; kk++ {
						if c.Expired() {
							return
						}
						cell(c, k, fault{Kind: "cancel", Peer: 1, K: kk})
					}
				}})
			}
		}
		if k.Stack == "S" {
			// a refused duplicate call at every 4th big step of a session whose third peer vanished
			for kk := 0; kk <= base.steps/2; kk += 4 {
				kk := kk
				cases = append(cases, harness.Case{ID: fmt.Sprintf("%s/refused-duplicate/%d", k, kk), Run: func(c *harness.C) {
					cell(c, k, fault{Kind: "refused-duplicate", Peer: uint16(k.N), K: kk})
				}})
			}
		}
		if k.Op == "sign" {
			for _, d := range []string{"nil", "empty", "truncated", "random", "other-scheme", "fewer-public-keys", "public-keys-0", "public-keys-2", "public-keys-n-1", "public-keys-n+1"} {
				d := d
				cases = append(cases, harness.Case{ID: k.String() + "/precondition/" + d, Run: func(c *harness.C) {
					cell(c, k, fault{Kind: "precondition", Peer: 2, Data: d})
				}})
			}
		}
	}
	return cases
}

func TestCheck(t *testing.T) {
	harness.Main(t, "C11", func(c *harness.C) []harness.Case {
		if c.Replay != nil && !strings.Contains(string(c.Replay), "\"backend\"") {
			var rp replay
			if json.Unmarshal(c.Replay, &rp) == nil {
				return []harness.Case{{ID: os.Getenv("VERIF_ONLY"), Run: func(c *harness.C) { cell(c, rp.Cfg, rp.Fault) }}}
			}
		}
		return gen(c)
	})
}
