//go:build !verifoverlay

package c11

import "verif/harness"

// without the sync shim overlay the thread-level cancellation cases cannot run
func threadCases(c *harness.C) []harness.Case {
	c.Note("c11-thread-level", "sync shim overlay not active on this tree: thread-level cancellation cases skipped")
	return nil
}
