package c11

import (
	"fmt"
	"time"

	"verif/harness"
	"verif/stalllib"
)

// Stalls inside the orchestrator (fault cells of their own): the handler of a synchronisation
// message never returns (a peer stopped reading, the reply is stuck behind it), or the backend's
// Init outlasts the caller's deadline. The caller's own call must still return by its deadline, and
// a repetition of the call afterwards must return as well (success or error), without a panic.
func stallCases() []harness.Case {
	var cases []harness.Case
	late := func(cl stalllib.Call) bool {
		return !cl.Returned || cl.At > stalllib.Deadline+2*time.Second
	}
	for _, op := range []string{"keygen", "sign"} {
		op := op
		cases = append(cases, harness.Case{ID: "stall/sync-handler/" + op, Run: func(c *harness.C) {
			c.Exec("[stall/sync-handler] " + op)
			var r stalllib.Result
			if rec := c.Bubble(func() { r = stalllib.SyncHandlerStalls(op, "") }); rec != nil && !harness.IsLeakPanic(rec) {
				panic(rec)
			}
			for _, n := range r.Notes {
				c.Note("stall/sync-handler/"+op, n)
			}
			c.Add("executions", 1)
			if len(r.Calls) > 0 && late(r.Calls[0]) {
				c.Violation("returns-by-deadline", "c11-never-returns:sync-handler-stalled:"+op, fmt.Sprintf("%s: a synchronisation message's handler never returns (its reply is stuck behind a peer that stopped reading); the caller's deadline of %v passed and a virtual minute later the call had %s", op, stalllib.Deadline, describe(r.Calls[0])), map[string]interface{}{"stall": "sync-handler", "op": op})
			}
			c.Outcome(fmt.Sprintf("stall|sync-handler|%s|%v", op, r.Calls))
		}})
		cases = append(cases, harness.Case{ID: "stall/slow-init/" + op, Run: func(c *harness.C) {
			c.Exec("[stall/slow-init] " + op)
			var r stalllib.Result
			if rec := c.Bubble(func() { r = stalllib.SlowInit(op) }); rec != nil && !harness.IsLeakPanic(rec) {
				panic(rec)
			}
			c.Add("executions", 1)
			for i, cl := range r.Calls {
				lim := stalllib.Deadline + 2*time.Second
				if i == 1 {
					lim += 2*stalllib.Deadline + 2*time.Second
				}
				if !cl.Returned || cl.At > lim {
					c.Violation("returns-by-deadline", fmt.Sprintf("c11-never-returns:slow-init:%s:call%d", op, i), fmt.Sprintf("%s: the backend's Init of the first session takes %v (deadline %v); call %d had %s", op, 2*stalllib.Deadline, stalllib.Deadline, i, describe(cl)), map[string]interface{}{"stall": "slow-init", "op": op})
				}
			}
			c.Outcome(fmt.Sprintf("stall|slow-init|%s|%v", op, r.Calls))
		}})
	}
	for _, op := range []string{"keygen", "sign"} {
		op := op
		cases = append(cases, harness.Case{ID: "stall/short-deadlines/" + op, Run: func(c *harness.C) {
			c.Exec("[stall/short-deadlines] " + op)
			var calls []stalllib.Call
			if rec := c.Bubble(func() { calls = stalllib.ShortDeadlines(op) }); rec != nil && !harness.IsLeakPanic(rec) {
				panic(rec)
			}
			c.Add("executions", len(calls))
			for i, cl := range calls {
				if !cl.Returned || cl.Err == nil {
					c.Violation("returns-by-deadline", "c11-short-deadline:"+op, fmt.Sprintf("%s with deadline no. %d of the list (already passed / about to pass), nobody answering: the call had %s half a minute later", op, i, describe(cl)), map[string]interface{}{"stall": "short-deadlines", "op": op})
					break
				}
			}
			c.Outcome(fmt.Sprintf("stall|short-deadlines|%s|%d", op, len(calls)))
		}})
	}
	return cases
}

func describe(cl stalllib.Call) string {
	if !cl.Returned {
		return "not returned"
	}
	return fmt.Sprintf("returned %v at %v", cl.Err, cl.At)
}
