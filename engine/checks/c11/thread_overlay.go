//go:build verifoverlay

package c11

import (
	"context"
	"encoding/json"
	"fmt"
	"strings"
	"sync"
	"time"

	"github.com/IBM/TSS/mpc/bls"
	"github.com/IBM/TSS/mpc/ps"
	tss "github.com/IBM/TSS/types"
	math "github.com/IBM/mathlib"
	"verif/explore"
	"verif/harness"
	"verif/shim/sched"
	"verif/world"
)

// Thread-level part of C11: the context of a running BLS/PS KeyGen is cancelled at *any* point of
// its execution (lock granularity) while a peer withholds one message; KeyGen must return.

type captured struct {
	msg   []byte
	bcast bool
}

func newKG(backend string, id uint16) tss.KeyGenerator {
	if backend == "ps" {
		return &ps.TPS{Logger: world.NopLogger{}, Party: id, Curve: math.Curves[1], MessageLength: 1}
	}
	return &bls.TBLS{Logger: world.NopLogger{}, Party: id}
}

func honestMsgs(backend string) map[uint16][]captured {
	parties := []uint16{1, 2, 3}
	inst := map[uint16]tss.KeyGenerator{}
	for _, id := range parties {
		inst[id] = newKG(backend, id)
	}
	var mu sync.Mutex
	cap := map[uint16][]captured{}
	for _, id := range parties {
		id := id
		inst[id].Init(parties, 3, func(msg []byte, bc bool, to uint16) {
			m := append([]byte(nil), msg...)
			for _, dst := range parties {
				if dst == id || (!bc && dst != to) {
					continue
				}
				if dst == 1 {
					mu.Lock()
					cap[id] = append(cap[id], captured{m, bc})
					mu.Unlock()
				}
				inst[dst].OnMsg(m, id, bc)
			}
		})
	}
	var wg sync.WaitGroup
	for _, id := range parties {
		id := id
		wg.Add(1)
		go func() {
			defer wg.Done()
			ctx, cancel := context.WithTimeout(context.Background(), 5*time.Second)
			defer cancel()
			inst[id].KeyGen(ctx)
		}()
	}
	wg.Wait()
	return cap
}

type threadReplay struct {
	Backend  string `json:"backend"`
	Withheld int    `json:"withheld"` // index (0 share, 1 commitment, 2 reveal) of party 3's message that never arrives
	Choices  []int  `json:"choices"`
}

func cancelRun(c *harness.C, backend string, withheld int, r *explore.Recorder) (trace []string, finished bool, err error) {
	return cancelRunX(c, backend, withheld, false, r)
}

// cancelRunX with dup: every message of party 2 is delivered twice (a retransmitting peer) while
// party 3's message is withheld: a duplicate must not stand in for what is missing.
func cancelRunX(c *harness.C, backend string, withheld int, dup bool, r *explore.Recorder) (trace []string, finished bool, err error) {
	rec := c.Bubble(func() {
		msgs := honestMsgs(backend)
		x := newKG(backend, 1)
		sc := sched.New()
		defer sc.Close()
		sc.Quantum, sc.Horizon = time.Second, 3
		ctx, cancel := context.WithCancel(context.Background())
		inited := make(chan struct{})
		done := make(chan struct{})
		sc.Go("T0", func() {
			x.Init([]uint16{1, 2, 3}, 3, func([]byte, bool, uint16) {})
			close(inited)
			_, err = x.KeyGen(ctx)
			close(done)
		})
		sc.Go("D", func() {
			<-inited
			n := len(msgs[2])
			for i := 0; i < n; i++ {
				for _, from := range []uint16{2, 3} {
					if from == 3 && i == withheld {
						continue
					}
					if i < len(msgs[from]) {
						x.OnMsg(msgs[from][i].msg, from, msgs[from][i].bcast)
						if dup && from == 2 {
							x.OnMsg(msgs[from][i].msg, from, msgs[from][i].bcast)
						}
					}
				}
			}
		})
		sc.Go("X", func() {
			<-inited
			cancel()
		})
		sc.Run(r)
		select {
		case <-done:
			finished = true
		default:
		}
		trace = sc.Trace
		cancel()
	})
	if rec != nil && !harness.IsLeakPanic(rec) {
		panic(rec)
	}
	return
}

const threadShards = 4

func threadCases(c *harness.C) []harness.Case {
	bound := 2
	if c.Thorough() {
		bound = 3
	}
	var cases []harness.Case
	for _, be := range []string{"bls", "ps"} {
		for whd := 0; whd < 6; whd++ {
			for k := 0; k < threadShards; k++ {
				be, k := be, k
				dup := whd >= 3
				wh := whd % 3
				name := fmt.Sprintf("thread-cancel/%s/withhold%d", be, wh)
				if dup {
					name += "/peer2-retransmits"
				}
				cases = append(cases, harness.Case{ID: fmt.Sprintf("%s/shard%d", name, k), Run: func(c *harness.C) {
					var tr []string
					var fin bool
					var kerr error
					e := &explore.Explorer{Stop: c.Expired}
					reported := false
					e.Run = func(r *explore.Recorder) {
						c.Exec(fmt.Sprintf("[%s] %v", name, r.Prefix))
						tr, fin, kerr = cancelRunX(c, be, wh, dup, r)
					}
					e.Visit = func(r *explore.Recorder) {
						c.Add("executions", 1)
						c.Add("transitions", len(tr))
						rp := threadReplay{be, wh, explore.Trim(r.Choices())}
						if !fin && !reported {
							reported = true
							c.Violation("returns-after-cancel", "c11-keygen-blocks-after-cancel:"+be, fmt.Sprintf("%s schedule %v: the context was cancelled while a peer withheld message %d, and KeyGen never returned", name, rp.Choices, wh), rp)
						}
						if fin && kerr == nil && !reported {
							reported = true
							c.Violation("error-on-failure", "c11-keygen-succeeds-without-message:"+be, fmt.Sprintf("%s schedule %v: KeyGen returned success although message %d of party 3 never arrived", name, rp.Choices, wh), rp)
						}
						if c.Outcome(name+"|"+strings.Join(tr, ";")) && r.Deviations() > 0 {
							c.Sample("thread-cancel", map[string]interface{}{"case": name, "choices": rp.Choices, "schedule": tr})
						}
					}
					if c.Replay != nil {
						var rp threadReplay
						if json.Unmarshal(c.Replay, &rp) == nil {
							e.Explore(rp.Choices, nil, -1)
						}
						return
					}
					root := &explore.Recorder{}
					cancelRunX(c, be, wh, dup, root)
					if k == 0 {
						e.Explore(nil, nil, -1)
					}
					for i, t := range explore.RootTasks(root) {
						if i%threadShards != k {
							continue
						}
						cost := 1
						if root.Points[t[0]].Free {
							cost = 0
						}
						if bound-cost < 0 {
							continue
						}
						e.Explore(explore.TaskPrefix(t[0], t[1]), root.Labels(), bound-cost)
						if e.Capped {
							break
						}
					}
				}})
			}
		}
	}
	return cases
}
