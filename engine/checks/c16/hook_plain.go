//go:build !verifoverlay

package c16

import "crypto/tls"

// without the overlay the sender side cannot be run over the in-memory transport
const dialSeam = false

func installDial(f func(network, addr string, cfg *tls.Config) (*tls.Conn, error)) {}
