package c16

import (
	"bytes"
	"crypto"
	"crypto/ecdsa"
	"crypto/ed25519"
	"crypto/elliptic"
	"crypto/rand"
	"crypto/rsa"
	"crypto/tls"
	"crypto/x509"
	"crypto/x509/pkix"
	"encoding/json"
	"encoding/pem"
	"fmt"
	"io"
	"math/big"
	"os"
	"strings"
	"testing"
	"testing/synctest"
	"time"

	comm "github.com/IBM/TSS/net"
	"github.com/IBM/TSS/testutil/tlsgen"
	"verif/harness"
	"verif/mutate"
	"verif/netlib"
	"verif/world"
)

func now() time.Time { return time.Now() } // bubble time: the PKI is made inside the bubble

type ident struct {
	id     uint16
	domain string
	pair   *tlsgen.CertKeyPair
}

func (i *ident) key() *ecdsa.PrivateKey { return i.pair.Signer.(*ecdsa.PrivateKey) }

type altID struct {
	id     uint16
	cert   []byte
	signer crypto.Signer
}

type env struct {
	alt   map[string]*altID // identities with other key types, registered under dom1 as nodes 4 (rsa), 5 (ed25519), 6 (p384)
	pki   *netlib.PKI
	ids   []*ident // registered: 1 (dom1), 2 (dom1), 3 (dom2)
	dflt  *ident   // registered as node 7 under the default (empty) domain and as node 9 under "beta"
	bndl  *ident   // node 10 (dom1), registered with a PEM bundle: its own certificate followed by tail's
	tail  *ident   // holder of the key of the bundle's trailing certificate (not registered itself)
	bcert []byte   // the bundle
	unreg *ident
	lis   *netlib.Listener
	col   *netlib.Collector
	stop  func()
}

func newEnv() *env {
	pki, err := netlib.NewPKI(time.Time{})
	if err != nil {
		panic(err)
	}
	e := &env{pki: pki}
	p2id := map[string]uint16{}
	for i, d := range []string{"dom1", "dom1", "dom2"} {
		pair, err := pki.CA.NewClientCertKeyPair()
		if err != nil {
			panic(err)
		}
		id := &ident{id: uint16(i + 1), domain: d, pair: pair}
		e.ids = append(e.ids, id)
		p2id[netlib.LookupKey(d, pair.Cert)] = id.id
	}
	dp, _ := pki.CA.NewClientCertKeyPair()
	e.dflt = &ident{id: 7, domain: "", pair: dp}
	p2id[netlib.LookupKey("", dp.Cert)] = 7
	p2id[netlib.LookupKey("beta", dp.Cert)] = 9
	bp, _ := pki.CA.NewClientCertKeyPair()
	tp, _ := pki.CA.NewClientCertKeyPair()
	e.bndl = &ident{id: 10, domain: "dom1", pair: bp}
	e.tail = &ident{id: 98, domain: "dom1", pair: tp}
	e.bcert = append(append([]byte(nil), bp.Cert...), tp.Cert...)
	p2id[netlib.LookupKey("dom1", e.bcert)] = 10
	up, _ := pki.CA.NewClientCertKeyPair()
	e.unreg = &ident{id: 99, domain: "dom1", pair: up}
	e.alt = map[string]*altID{}
	for i, kt := range []string{"rsa", "ed25519", "p384"} {
		cert, signer := altCert(e, kt)
		e.alt[kt] = &altID{id: uint16(4 + i), cert: cert, signer: signer}
		p2id[netlib.LookupKey("dom1", cert)] = uint16(4 + i)
	}
	e.lis = netlib.NewListener(pki.ServerConfig())
	in, stop := comm.ServiceConnections(e.lis, p2id, world.NopLogger{})
	e.stop = stop
	e.col = &netlib.Collector{}
	go e.col.Run(in)
	return e
}

// connect opens a TLS connection and returns it with its channel binding.
func (e *env) connect(name string) (*tls.Conn, []byte) {
	raw, err := e.lis.DialRaw(name)
	if err != nil {
		panic(err)
	}
	c := tls.Client(raw, e.pki.ClientConfig())
	if err := c.Handshake(); err != nil {
		panic(fmt.Sprintf("TLS handshake failed: %v", err))
	}
	b, err := netlib.Binding(c)
	if err != nil {
		panic(err)
	}
	return c, b
}

func validHandshake(id *ident, binding []byte) comm.Handshake {
	h := comm.Handshake{Domain: id.domain, TLSBinding: append([]byte(nil), binding...), Identity: append([]byte(nil), id.pair.Cert...), Timestamp: now().Unix()}
	if err := netlib.SignHandshake(&h, id.key()); err != nil {
		panic(err)
	}
	return h
}

func topic32(s string) []byte { b := make([]byte, 32); copy(b, s); return b }

// variant produces the bytes the attacker writes on its connection (after TLS), given its own
// binding, the honest connection's recorded handshake and binding. expectFrom: 0 = nothing may be
// attributed; otherwise the (id, domain) the message may be attributed to.
type variant struct {
	name  string
	class string
	build func(e *env, binding []byte, otherBinding []byte, otherFrame []byte) (wire []byte, okID uint16, okDomain string)
}

var altSigners = map[string]crypto.Signer{}

func altCert(e *env, kind string) ([]byte, crypto.Signer) {
	signer := altSigners[kind]
	if signer == nil {
		signer = newAltSigner(kind)
		altSigners[kind] = signer
	}
	return certFor(e, kind, signer), signer
}

func newAltSigner(kind string) crypto.Signer {
	var signer crypto.Signer
	switch kind {
	case "p384":
		k, _ := ecdsa.GenerateKey(elliptic.P384(), rand.Reader)
		signer = k
	case "rsa":
		k, _ := rsa.GenerateKey(rand.Reader, 2048)
		signer = k
	case "ed25519":
		_, k, _ := ed25519.GenerateKey(rand.Reader)
		signer = k
	}
	return signer
}

func certFor(e *env, kind string, signer crypto.Signer) []byte {
	caBlock, _ := pem.Decode(e.pki.CA.CertBytes())
	caCert, _ := x509.ParseCertificate(caBlock.Bytes)
	tpl := &x509.Certificate{SerialNumber: big.NewInt(time.Now().UnixNano()), Subject: pkix.Name{CommonName: kind}, NotBefore: now().Add(-time.Hour), NotAfter: now().Add(time.Hour),
		KeyUsage: x509.KeyUsageDigitalSignature, ExtKeyUsage: []x509.ExtKeyUsage{x509.ExtKeyUsageClientAuth}}
	der, err := x509.CreateCertificate(rand.Reader, tpl, caCert, signer.Public(), e.pki.CA.Signer())
	if err != nil {
		panic(err)
	}
	return pem.EncodeToMemory(&pem.Block{Type: "CERTIFICATE", Bytes: der})
}

func variants(thorough bool) []variant {
	var vs []variant
	add := func(class, name string, f func(e *env, b, ob, of []byte) ([]byte, uint16, string)) {
		vs = append(vs, variant{name: name, class: class, build: f})
	}
	frame := func(h comm.Handshake) []byte { return netlib.FrameHandshake(h.Bytes()) }
	add("control", "valid", func(e *env, b, ob, of []byte) ([]byte, uint16, string) {
		return frame(validHandshake(e.ids[0], b)), 1, "dom1"
	})
	add("control", "valid-old-timestamp-resigned", func(e *env, b, ob, of []byte) ([]byte, uint16, string) {
		h := validHandshake(e.ids[0], b)
		h.Timestamp = 1
		netlib.SignHandshake(&h, e.ids[0].key())
		return frame(h), 1, "dom1"
	})
	// --- every field altered after signing
	nBind, nSig, nId := 32, 72, 16
	for i := 0; i < nBind; i++ {
		i := i
		add("binding", fmt.Sprintf("binding-flip@%d", i), func(e *env, b, ob, of []byte) ([]byte, uint16, string) {
			h := validHandshake(e.ids[0], b)
			h.TLSBinding[i] ^= 1
			return frame(h), 0, ""
		})
		add("binding", fmt.Sprintf("binding-flip-resigned@%d", i), func(e *env, b, ob, of []byte) ([]byte, uint16, string) {
			h := validHandshake(e.ids[0], b)
			h.TLSBinding[i] ^= 1
			netlib.SignHandshake(&h, e.ids[0].key())
			return frame(h), 0, ""
		})
	}
	for i := 0; i < nSig; i++ {
		i := i
		add("signature", fmt.Sprintf("signature-flip@%d", i), func(e *env, b, ob, of []byte) ([]byte, uint16, string) {
			h := validHandshake(e.ids[0], b)
			if i < len(h.Signature) {
				h.Signature[i] ^= 1
			} else {
				h.Signature = append(h.Signature, 0)
			}
			return frame(h), 0, ""
		})
	}
	for i := 0; i < nId; i++ {
		i := i
		add("identity", fmt.Sprintf("identity-flip@%d", i), func(e *env, b, ob, of []byte) ([]byte, uint16, string) {
			h := validHandshake(e.ids[0], b)
			p := (len(h.Identity) * i) / nId
			h.Identity[p] ^= 1
			return frame(h), 0, ""
		})
	}
	for _, ts := range []int64{0, 1, -1, 1 << 40} {
		ts := ts
		add("timestamp", fmt.Sprintf("timestamp=%d-not-resigned", ts), func(e *env, b, ob, of []byte) ([]byte, uint16, string) {
			h := validHandshake(e.ids[0], b)
			h.Timestamp = ts
			return frame(h), 0, ""
		})
	}
	// the domain carried in another ASN.1 string type (the decoder accepts several), with bytes that
	// are legal / not legal in that type: whatever is decoded must be refused or handled - a value
	// that decodes but cannot be encoded again must not take the receiver down
	for _, st := range []struct {
		name string
		tag  byte
	}{{"utf8", 0x0c}, {"printable", 0x13}, {"t61", 0x14}, {"ia5", 0x16}, {"numeric", 0x12}, {"bmp", 0x1e}, {"general", 0x1b}, {"octets", 0x04}} {
		for _, fill := range []struct {
			name string
			b    []byte
		}{{"same-text", []byte("dom1")}, {"high-bytes", []byte{0xff, 0xfe, 0xfd, 0xfc}}, {"zero-bytes", []byte{0, 0, 0, 0}}, {"utf8-overlong", []byte{0xc0, 0xaf, 0xc0, 0xaf}}} {
			st, fill := st, fill
			add("domain", fmt.Sprintf("domain-as-%s-string-%s", st.name, fill.name), func(e *env, b, ob, of []byte) ([]byte, uint16, string) {
				h := validHandshake(e.ids[0], b)
				raw := h.Bytes()
				// the domain is the first element of the sequence: PrintableString, length 4, "dom1"
				i := bytes.Index(raw, append([]byte{0x13, 4}, "dom1"...))
				if i < 0 || i > 8 {
					panic("c16: the domain element was not found where the encoder puts it")
				}
				raw = append([]byte(nil), raw...)
				raw[i] = st.tag
				copy(raw[i+2:], fill.b)
				// accepted only if what was decoded is the registered domain *and* the signature
				// (over the re-encoded handshake) still holds: every other outcome is "nothing"
				if fill.name == "same-text" && (st.tag == 0x0c || st.tag == 0x13 || st.tag == 0x14 || st.tag == 0x16 || st.tag == 0x1b) {
					return netlib.FrameHandshake(raw), 1, "dom1" // decodes to "dom1", re-encodes to the signed bytes
				}
				return netlib.FrameHandshake(raw), 0, ""
			})
		}
	}
	for _, d := range []string{"", "dom2", "dom", "dom11", "DOM1"} {
		d := d
		add("domain", fmt.Sprintf("domain=%q-not-resigned", d), func(e *env, b, ob, of []byte) ([]byte, uint16, string) {
			h := validHandshake(e.ids[0], b)
			h.Domain = d
			return frame(h), 0, ""
		})
		add("domain", fmt.Sprintf("domain=%q-resigned", d), func(e *env, b, ob, of []byte) ([]byte, uint16, string) {
			h := validHandshake(e.ids[0], b)
			h.Domain = d
			netlib.SignHandshake(&h, e.ids[0].key())
			return frame(h), 0, ""
		})
	}
	// an identity registered under the default (empty) domain only
	add("control", "default-domain-identity-valid", func(e *env, b, ob, of []byte) ([]byte, uint16, string) {
		return frame(validHandshake(e.dflt, b)), 7, ""
	})
	for _, d := range []string{"dom1", "dom2", "payments", "\x00"} {
		d := d
		add("domain", fmt.Sprintf("default-domain-identity-claims-%q", d), func(e *env, b, ob, of []byte) ([]byte, uint16, string) {
			h := validHandshake(e.dflt, b)
			h.Domain = d
			netlib.SignHandshake(&h, e.dflt.key())
			return frame(h), 0, ""
		})
	}
	// the same identity registered under two domains: the claimed domain is covered by the signature
	add("control", "two-domain-identity-signs-beta", func(e *env, b, ob, of []byte) ([]byte, uint16, string) {
		h := validHandshake(e.dflt, b)
		h.Domain = "beta"
		netlib.SignHandshake(&h, e.dflt.key())
		return frame(h), 9, "beta"
	})
	add("domain", "two-domain-identity-signed-for-default-claims-beta", func(e *env, b, ob, of []byte) ([]byte, uint16, string) {
		h := validHandshake(e.dflt, b)
		h.Domain = "beta"
		return frame(h), 0, ""
	})
	add("domain", "two-domain-identity-signed-for-beta-claims-default", func(e *env, b, ob, of []byte) ([]byte, uint16, string) {
		h := validHandshake(e.dflt, b)
		h.Domain = "beta"
		netlib.SignHandshake(&h, e.dflt.key())
		h.Domain = ""
		return frame(h), 0, ""
	})
	// an identity registered as a PEM bundle: only the key of its FIRST certificate proves it
	add("control", "bundle-identity-signed-by-first-certificates-key", func(e *env, b, ob, of []byte) ([]byte, uint16, string) {
		h := comm.Handshake{Domain: "dom1", TLSBinding: append([]byte(nil), b...), Identity: append([]byte(nil), e.bcert...), Timestamp: now().Unix()}
		netlib.SignHandshake(&h, e.bndl.key())
		return frame(h), 10, "dom1"
	})
	add("substitution", "bundle-identity-signed-by-trailing-certificates-key", func(e *env, b, ob, of []byte) ([]byte, uint16, string) {
		h := comm.Handshake{Domain: "dom1", TLSBinding: append([]byte(nil), b...), Identity: append([]byte(nil), e.bcert...), Timestamp: now().Unix()}
		netlib.SignHandshake(&h, e.tail.key())
		return frame(h), 0, ""
	})
	add("substitution", "bundle-reordered-signed-by-trailing-certificates-key", func(e *env, b, ob, of []byte) ([]byte, uint16, string) {
		id := append(append([]byte(nil), e.tail.pair.Cert...), e.bndl.pair.Cert...)
		h := comm.Handshake{Domain: "dom1", TLSBinding: append([]byte(nil), b...), Identity: id, Timestamp: now().Unix()}
		netlib.SignHandshake(&h, e.tail.key())
		return frame(h), 0, ""
	})
	// --- substitutions
	add("substitution", "identity-of-party-2-signature-of-party-1", func(e *env, b, ob, of []byte) ([]byte, uint16, string) {
		h := validHandshake(e.ids[0], b)
		h.Identity = e.ids[1].pair.Cert
		netlib.SignHandshake(&h, e.ids[0].key())
		return frame(h), 0, ""
	})
	add("substitution", "identity-of-party-3-own-domain", func(e *env, b, ob, of []byte) ([]byte, uint16, string) {
		h := validHandshake(e.ids[0], b)
		h.Identity = e.ids[2].pair.Cert
		netlib.SignHandshake(&h, e.ids[0].key())
		return frame(h), 0, ""
	})
	add("substitution", "party-3-claims-domain-of-party-1", func(e *env, b, ob, of []byte) ([]byte, uint16, string) {
		h := validHandshake(e.ids[2], b)
		h.Domain = "dom1"
		netlib.SignHandshake(&h, e.ids[2].key())
		return frame(h), 0, ""
	})
	add("substitution", "signed-by-unregistered-key", func(e *env, b, ob, of []byte) ([]byte, uint16, string) {
		h := validHandshake(e.ids[0], b)
		netlib.SignHandshake(&h, e.unreg.key())
		return frame(h), 0, ""
	})
	add("substitution", "unregistered-identity-valid-chain", func(e *env, b, ob, of []byte) ([]byte, uint16, string) {
		return frame(validHandshake(e.unreg, b)), 0, ""
	})
	add("substitution", "signed-by-other-registered-key", func(e *env, b, ob, of []byte) ([]byte, uint16, string) {
		h := validHandshake(e.ids[0], b)
		netlib.SignHandshake(&h, e.ids[1].key())
		return frame(h), 0, ""
	})
	// made-up signatures of every shape a lenient decoder might let through: a well-formed pair of
	// small integers, with and without bytes behind it; the genuine signature with bytes behind it
	// or wrapped again; indefinite / long-form lengths
	for name, mk := range map[string]func(sig []byte) []byte{
		"made-up-r1-s1":               func([]byte) []byte { return []byte{0x30, 0x06, 0x02, 0x01, 0x01, 0x02, 0x01, 0x01} },
		"made-up-r1-s1-trailing-byte": func([]byte) []byte { return []byte{0x30, 0x06, 0x02, 0x01, 0x01, 0x02, 0x01, 0x01, 0x00} },
		"made-up-r1-s1-trailing-junk": func([]byte) []byte {
			return append([]byte{0x30, 0x06, 0x02, 0x01, 0x01, 0x02, 0x01, 0x01}, bytes.Repeat([]byte{0xab}, 64)...)
		},
		"made-up-r0-s0":                   func([]byte) []byte { return []byte{0x30, 0x06, 0x02, 0x01, 0x00, 0x02, 0x01, 0x00} },
		"made-up-r0-s0-trailing-byte":     func([]byte) []byte { return []byte{0x30, 0x06, 0x02, 0x01, 0x00, 0x02, 0x01, 0x00, 0x01} },
		"made-up-negative":                func([]byte) []byte { return []byte{0x30, 0x06, 0x02, 0x01, 0xff, 0x02, 0x01, 0xff} },
		"made-up-empty-sequence":          func([]byte) []byte { return []byte{0x30, 0x00} },
		"made-up-empty-sequence-trailing": func([]byte) []byte { return []byte{0x30, 0x00, 0x00} },
		"made-up-three-integers":          func([]byte) []byte { return []byte{0x30, 0x09, 0x02, 0x01, 0x01, 0x02, 0x01, 0x01, 0x02, 0x01, 0x01} },
		"genuine-trailing-byte":           func(sig []byte) []byte { return append(append([]byte(nil), sig...), 0x00) },
		"genuine-trailing-copy":           func(sig []byte) []byte { return append(append([]byte(nil), sig...), sig...) },
		"genuine-long-form-length": func(sig []byte) []byte {
			if len(sig) < 2 || sig[1] >= 0x80 {
				return nil
			}
			return append([]byte{0x30, 0x81, sig[1]}, sig[2:]...)
		},
	} {
		name, mk := name, mk
		add("signature", "signature-"+name, func(e *env, b, ob, of []byte) ([]byte, uint16, string) {
			h := validHandshake(e.ids[0], b)
			h.Signature = mk(h.Signature)
			return frame(h), 0, ""
		})
	}
	add("replay", "binding-of-other-connection", func(e *env, b, ob, of []byte) ([]byte, uint16, string) {
		return frame(validHandshake(e.ids[0], ob)), 0, ""
	})
	add("replay", "whole-handshake-of-other-connection", func(e *env, b, ob, of []byte) ([]byte, uint16, string) {
		return append([]byte(nil), of...), 0, ""
	})
	// the handshake recorded on the honest connection (same receiver, accepted there a moment ago),
	// re-bound by the attacker to its own connection: identity, timestamp and signature are the
	// recorded ones, only the binding is this connection's. The signature does not cover this
	// binding - a receiver that remembers "this identity with this signature was fine" accepts it
	// (seed C16-p).
	// the identity the receiver accepted on the honest connection a moment ago, on the attacker's
	// own binding, signed by somebody else's registered key / with the recorded signature's bytes
	// flipped: having proved itself on one connection proves nothing on another
	add("replay", "identity-of-accepted-connection-foreign-signature", func(e *env, b, ob, of []byte) ([]byte, uint16, string) {
		h := validHandshake(e.ids[1], b)
		netlib.SignHandshake(&h, e.ids[0].key())
		return frame(h), 0, ""
	})
	add("replay", "identity-of-accepted-connection-recorded-signature-flipped", func(e *env, b, ob, of []byte) ([]byte, uint16, string) {
		var h comm.Handshake
		if err := h.Read(bytes.NewReader(of)); err != nil {
			panic(err)
		}
		h.TLSBinding = append([]byte(nil), b...)
		h.Signature = append([]byte(nil), h.Signature...)
		h.Signature[len(h.Signature)-1] ^= 1
		return frame(h), 0, ""
	})
	for _, redate := range []bool{false, true} {
		redate := redate
		name := "recorded-handshake-rebound-to-own-connection"
		if redate {
			name += "-redated"
		}
		add("replay", name, func(e *env, b, ob, of []byte) ([]byte, uint16, string) {
			var h comm.Handshake
			if err := h.Read(bytes.NewReader(of)); err != nil {
				panic(err)
			}
			h.TLSBinding = append([]byte(nil), b...)
			if redate {
				h.Timestamp = now().Unix()
			}
			return frame(h), 0, ""
		})
	}
	// a handshake the registered key really signed - for another connection, some time ago or
	// post-dated: however old or young it claims to be, it proves nothing about this connection
	for _, off := range []int64{-31, -61, -3600, -86400 * 365, 31, 61, 3600, 86400 * 365} {
		off := off
		for _, abs := range []bool{false, true} {
			abs := abs
			if abs && off != -31 && off != 31 {
				continue
			}
			name := fmt.Sprintf("binding-of-other-connection-signed-at-now%+ds", off)
			if abs {
				name = fmt.Sprintf("binding-of-other-connection-signed-at-epoch%+d", off)
			}
			add("replay", name, func(e *env, b, ob, of []byte) ([]byte, uint16, string) {
				h := validHandshake(e.ids[0], ob)
				h.Timestamp = now().Unix() + off
				if abs {
					h.Timestamp = off
				}
				netlib.SignHandshake(&h, e.ids[0].key())
				return frame(h), 0, ""
			})
		}
		add("binding", fmt.Sprintf("binding-flip-resigned-at-now%+ds", off), func(e *env, b, ob, of []byte) ([]byte, uint16, string) {
			h := validHandshake(e.ids[0], b)
			h.TLSBinding[0] ^= 1
			h.Timestamp = now().Unix() + off
			netlib.SignHandshake(&h, e.ids[0].key())
			return frame(h), 0, ""
		})
	}
	for _, f := range []string{"domain", "binding", "identity", "signature", "all"} {
		f := f
		add("empty", "empty-"+f, func(e *env, b, ob, of []byte) ([]byte, uint16, string) {
			h := validHandshake(e.ids[0], b)
			switch f {
			case "domain":
				h.Domain = ""
			case "binding":
				h.TLSBinding = nil
			case "identity":
				h.Identity = nil
			case "signature":
				h.Signature = nil
			case "all":
				h = comm.Handshake{}
			}
			return frame(h), 0, ""
		})
	}
	// a registered key signs a handshake whose binding is empty, a prefix or an extension of this
	// connection's binding: it does not contain this connection's binding
	for _, n := range []int{0, 1, 8, 16, 31, 33} {
		n := n
		add("binding", fmt.Sprintf("binding-length-%d-resigned", n), func(e *env, b, ob, of []byte) ([]byte, uint16, string) {
			h := validHandshake(e.ids[0], b)
			if n <= len(b) {
				h.TLSBinding = append([]byte(nil), b[:n]...)
			} else {
				h.TLSBinding = append(append([]byte(nil), b...), make([]byte, n-len(b))...)
			}
			netlib.SignHandshake(&h, e.ids[0].key())
			return frame(h), 0, ""
		})
	}
	add("binding", "binding-suffix-16-resigned", func(e *env, b, ob, of []byte) ([]byte, uint16, string) {
		h := validHandshake(e.ids[0], b)
		h.TLSBinding = append([]byte(nil), b[len(b)-16:]...)
		netlib.SignHandshake(&h, e.ids[0].key())
		return frame(h), 0, ""
	})
	// --- key types
	for _, kt := range []string{"p384", "rsa", "ed25519"} {
		kt := kt
		add("keytype", "identity-key-"+kt, func(e *env, b, ob, of []byte) ([]byte, uint16, string) {
			cert, signer := altCert(e, kt)
			h := comm.Handshake{Domain: "dom1", TLSBinding: b, Identity: cert, Timestamp: now().Unix()}
			h.Signature = nil
			d := sha256sum(h.Bytes())
			var opts crypto.SignerOpts = crypto.SHA256
			msg := d
			if kt == "ed25519" {
				opts = crypto.Hash(0)
				msg = h.Bytes()
			}
			sig, err := signer.Sign(rand.Reader, msg, opts)
			if err != nil {
				panic(err)
			}
			h.Signature = sig
			return frame(h), 0, ""
		})
	}
	// identities with other key types that ARE registered: only a signature by their own key counts
	for _, kt := range []string{"rsa", "ed25519", "p384"} {
		kt := kt
		add("keytype", "registered-"+kt+"-identity-signed-by-unrelated-key", func(e *env, b, ob, of []byte) ([]byte, uint16, string) {
			h := comm.Handshake{Domain: "dom1", TLSBinding: b, Identity: e.alt[kt].cert, Timestamp: now().Unix()}
			netlib.SignHandshake(&h, e.unreg.key())
			return frame(h), 0, ""
		})
		add("keytype", "registered-"+kt+"-identity-garbage-signature", func(e *env, b, ob, of []byte) ([]byte, uint16, string) {
			h := comm.Handshake{Domain: "dom1", TLSBinding: b, Identity: e.alt[kt].cert, Timestamp: now().Unix(), Signature: []byte{0x30, 0x06, 0x02, 0x01, 0x01, 0x02, 0x01, 0x01}}
			return frame(h), 0, ""
		})
		add("keytype", "registered-"+kt+"-identity-own-signature", func(e *env, b, ob, of []byte) ([]byte, uint16, string) {
			h := comm.Handshake{Domain: "dom1", TLSBinding: b, Identity: e.alt[kt].cert, Timestamp: now().Unix()}
			h.Signature = nil
			d := sha256sum(h.Bytes())
			var opts crypto.SignerOpts = crypto.SHA256
			msg := d
			if kt == "ed25519" {
				opts = crypto.Hash(0)
				msg = h.Bytes()
			}
			sig, err := e.alt[kt].signer.Sign(rand.Reader, msg, opts)
			if err != nil {
				panic(err)
			}
			h.Signature = sig
			// attributed to its own registration, or (unsupported key type) not at all
			return frame(h), e.alt[kt].id, "dom1"
		})
	}
	add("encoding", "identity-not-pem", func(e *env, b, ob, of []byte) ([]byte, uint16, string) {
		h := validHandshake(e.ids[0], b)
		h.Identity = []byte("this is not a PEM block")
		netlib.SignHandshake(&h, e.ids[0].key())
		return frame(h), 0, ""
	})
	add("encoding", "identity-pem-of-garbage", func(e *env, b, ob, of []byte) ([]byte, uint16, string) {
		h := validHandshake(e.ids[0], b)
		h.Identity = pem.EncodeToMemory(&pem.Block{Type: "CERTIFICATE", Bytes: []byte{1, 2, 3}})
		netlib.SignHandshake(&h, e.ids[0].key())
		return frame(h), 0, ""
	})
	add("encoding", "identity-pem-with-trailing-data", func(e *env, b, ob, of []byte) ([]byte, uint16, string) {
		h := validHandshake(e.ids[0], b)
		h.Identity = append(append([]byte(nil), h.Identity...), []byte("trailing")...)
		netlib.SignHandshake(&h, e.ids[0].key())
		return frame(h), 0, "" // a different byte string than the registered identity
	})
	// --- coordinated: bytes moved across the Domain/Identity boundary, re-signed with the genuine key
	for _, idx := range []int{0, 2} {
		for k := 1; k <= 3; k++ {
			idx, k := idx, k
			add("boundary", fmt.Sprintf("party-%d-moves-%d-bytes-domain-to-identity", idx+1, k), func(e *env, b, ob, of []byte) ([]byte, uint16, string) {
				id := e.ids[idx]
				h := validHandshake(id, b)
				h.Domain = id.domain[:len(id.domain)-k]
				h.Identity = append([]byte(id.domain[len(id.domain)-k:]), id.pair.Cert...)
				netlib.SignHandshake(&h, id.key())
				// if anything is attributed at all it must carry the registered domain
				return frame(h), id.id, id.domain
			})
			add("boundary", fmt.Sprintf("party-%d-moves-%d-bytes-identity-to-domain", idx+1, k), func(e *env, b, ob, of []byte) ([]byte, uint16, string) {
				id := e.ids[idx]
				h := validHandshake(id, b)
				h.Domain = id.domain + string(id.pair.Cert[:k])
				h.Identity = append([]byte(nil), id.pair.Cert[k:]...)
				netlib.SignHandshake(&h, id.key())
				return frame(h), id.id, id.domain
			})
		}
	}
	// --- framing of the handshake
	for _, lp := range []string{"0", "len-1", "len+1", "65535"} {
		lp := lp
		add("length-prefix", "length-prefix-"+lp, func(e *env, b, ob, of []byte) ([]byte, uint16, string) {
			w := frame(validHandshake(e.ids[0], b))
			n := len(w) - 2
			switch lp {
			case "0":
				n = 0
			case "len-1":
				n--
			case "len+1":
				n++
			case "65535":
				n = 65535
			}
			w[0], w[1] = byte(n), byte(n>>8)
			return w, 0, ""
		})
	}
	return vs
}

func sha256sum(b []byte) []byte { h := sha256New(); h.Write(b); return h.Sum(nil) }

type replay struct {
	Variant string `json:"variant"`
	Trunc   int    `json:"truncate_to,omitempty"`
}

// runVariant: an honest connection (party 2) is interleaved with the attacker's connection.
// mode "plain": attacker writes wire, then one well-formed frame. mode "trunc:N": only the first N
// bytes of the valid handshake, then the connection is closed.
func runVariant(c *harness.C, v variant, wireOverride func(valid []byte) []byte) (got []comm.InMsg, okID uint16, okDomain string, honestOK bool) {
	rec := c.Bubble(func() {
		e := newEnv()
		// honest connection, first half
		hc, hb := e.connect("honest")
		hh := validHandshake(e.ids[1], hb)
		hframe := netlib.FrameHandshake(hh.Bytes())
		hc.Write(hframe)
		hc.Write(netlib.Frame(2, topic32("honest-topic"), []byte("honest-1")))
		synctest.Wait()
		// attacker
		ac, ab := e.connect("attacker")
		wire, id, dom := v.build(e, ab, hb, hframe)
		okID, okDomain = id, dom
		if wireOverride != nil {
			wire = wireOverride(wire)
			okID, okDomain = 0, ""
		}
		ac.Write(wire)
		synctest.Wait()
		ac.Write(netlib.Frame(2, topic32("attack-topic"), []byte("attacker-payload")))
		synctest.Wait()
		// honest connection, second half
		hc.Write(netlib.Frame(1, topic32("honest-topic"), []byte("honest-2")))
		synctest.Wait()
		time.Sleep(2 * time.Second)
		synctest.Wait()
		got = e.col.Snapshot()
		ac.Close()
		hc.Close()
		e.stop()
		time.Sleep(time.Second)
	})
	if rec != nil && !harness.IsLeakPanic(rec) {
		panic(rec)
	}
	n := 0
	honestOK = true
	for _, m := range got {
		if strings.HasPrefix(string(m.Data), "honest-") {
			n++
			if m.From != 2 || m.Domain != "dom1" {
				honestOK = false
			}
		}
	}
	if n != 2 {
		honestOK = false
	}
	return
}

func judge(c *harness.C, name, class string, got []comm.InMsg, okID uint16, okDomain string, honestOK bool, rp replay) {
	for _, m := range got {
		if !bytes.Equal(m.Data, []byte("attacker-payload")) {
			continue
		}
		if okID == 0 {
			c.Violation("no-attribution-without-proof", "c16-attributed:"+class, fmt.Sprintf("handshake variant %s: the connection's message was attributed to node %d (domain %q)", name, m.From, m.Domain), rp)
		} else if m.From != okID || m.Domain != okDomain {
			c.Violation("attribution-matches-registration", "c16-misattributed:"+class, fmt.Sprintf("handshake variant %s: message attributed to node %d under domain %q, but the identity that signed is registered as node %d under domain %q", name, m.From, m.Domain, okID, okDomain), rp)
		}
	}
	if class == "control" {
		found := false
		for _, m := range got {
			if bytes.Equal(m.Data, []byte("attacker-payload")) {
				found = true
			}
		}
		if !found {
			c.Violation("valid-handshake-accepted", "c16-control-rejected", fmt.Sprintf("control %s: the message of a correctly authenticated connection did not arrive", name), rp)
		}
	}
	if !honestOK {
		c.Violation("honest-connection-unaffected", "c16-honest-connection-disturbed:"+class, fmt.Sprintf("handshake variant %s: the concurrent honest connection's messages did not all arrive with the right attribution", name), rp)
	}
}

func gen(c *harness.C) []harness.Case {
	c.Note("rule", "real net.ServiceConnections over in-memory TLS 1.3 in a bubble; 3 registered identities in 2 domains + 1 unregistered identity with a valid chain; from a valid handshake every field is altered (each byte of binding and signature, 16 positions of the identity, domain and timestamp values; with and without re-signing), substituted (other party's identity/domain/key, other connection's binding, whole handshake replayed), emptied; P-384/RSA/Ed25519 identity keys; non-PEM / trailing data; bytes moved across the Domain/Identity boundary and re-signed; every truncation length and wrong length prefixes; each interleaved with an honest connection; distinct_nontrivial = distinct variants")
	var cases []harness.Case
	if os.Getenv("VERIF_FAMILY") == "stall" {
		// the same family decides the handshake part of C10 (no hang, service continues)
		if p := os.Getenv("VERIF_PROP"); p != "" {
			c.Property = p
		}
		return stallCases(c)
	}
	vs := variants(c.Thorough())
	byName := map[string]variant{}
	for _, v := range vs {
		byName[v.name] = v
	}
	if r := c.Replay; r != nil {
		var rp replay
		if json.Unmarshal(r, &rp) == nil {
			if v, ok := byName[rp.Variant]; ok {
				return []harness.Case{{ID: os.Getenv("VERIF_ONLY"), Run: func(c *harness.C) { one(c, v, rp.Trunc) }}}
			}
		}
	}
	for _, v := range vs {
		v := v
		cases = append(cases, harness.Case{ID: "variant/" + v.name, Run: func(c *harness.C) { one(c, v, -1) }})
	}
	cases = append(cases, libraryReplayCase())
	cases = append(cases, stallCases(c)...)
	// truncations of the valid handshake frame: every length
	valid := byName["valid"]
	step := 1
	for lo := 0; lo < 1100; lo += 25 {
		lo := lo
		cases = append(cases, harness.Case{ID: fmt.Sprintf("truncate/%d-%d", lo, lo+24), Run: func(c *harness.C) {
			for n := lo; n < lo+25; n += step {
				if c.Expired() {
					return
				}
				one(c, valid, n)
			}
		}})
	}
	// the mutate catalogue on the handshake body (substitutions / ASN.1 element removal and duplication)
	cases = append(cases, harness.Case{ID: "catalogue/handshake-body", Run: func(c *harness.C) {
		// a body is only valid for its own connection; the catalogue is applied inside runVariant
		probe := variant{name: "catalogue", class: "catalogue", build: valid.build}
		// number of catalogue entries is learnt from a throw-away handshake
		tmp := comm.Handshake{Domain: "dom1", TLSBinding: make([]byte, 32), Identity: bytes.Repeat([]byte("x"), 600), Timestamp: 1, Signature: make([]byte, 71)}
		n := len(mutate.All(tmp.Bytes(), c.Seed, !c.Thorough()))
		for i := 0; i < n; i++ {
			if c.Expired() {
				return
			}
			i := i
			c.Exec(fmt.Sprintf("[catalogue] entry %d", i))
			got, _, _, honestOK := runVariant(c, probe, func(w []byte) []byte {
				ms := mutate.All(w[2:], c.Seed, !c.Thorough())
				if i >= len(ms) {
					return w
				}
				if bytes.Equal(ms[i].Data, w[2:]) {
					return w
				}
				return netlib.FrameHandshake(ms[i].Data)
			})
			c.Add("executions", 1)
			c.Add("evaluations", 1)
			judgeCatalogue(c, i, got, honestOK)
		}
		c.Outcome("catalogue")
	}})
	return cases
}

// stallRun: a connection that stalls during connection set-up (says nothing, stops in the middle of
// the TLS or of the library handshake) is kept open; afterwards a NEW honest peer connects and an
// honest peer connected earlier keeps sending. Service to both must continue.
func stallRun(c *harness.C, kind string, n int) (oldOK, newOK bool, total int) {
	rec := c.Bubble(func() {
		e := newEnv()
		hc, hb := e.connect("honest")
		hc.Write(netlib.FrameHandshake(validHandshake(e.ids[1], hb).Bytes()))
		hc.Write(netlib.Frame(2, topic32("honest-topic"), []byte("old-1")))
		synctest.Wait()
		var keep []interface{ Close() error }
		go func() {
			switch kind {
			case "tcp-silent":
				if raw, err := e.lis.DialRaw("stall"); err == nil {
					keep = append(keep, raw)
				}
			case "tls-partial-record":
				if raw, err := e.lis.DialRaw("stall"); err == nil {
					keep = append(keep, raw)
					// the beginning of a TLS record, then silence
					raw.Write([]byte{0x16, 0x03, 0x01, 0x02, 0x00, 0x01})
				}
			case "tls-silent":
				ac, _ := e.connect("stall")
				keep = append(keep, ac)
			case "partial-handshake":
				ac, ab := e.connect("stall")
				keep = append(keep, ac)
				wire := netlib.FrameHandshake(validHandshake(e.ids[0], ab).Bytes())
				total = len(wire)
				if n < len(wire) {
					ac.Write(wire[:n])
				} else {
					ac.Write(wire)
				}
			case "huge-length-prefix":
				ac, _ := e.connect("stall")
				keep = append(keep, ac)
				ac.Write([]byte{0xff, 0xff})
			}
		}()
		time.Sleep(time.Second)
		synctest.Wait()
		go func() {
			nc, nb := e.connect("new")
			nc.Write(netlib.FrameHandshake(validHandshake(e.ids[2], nb).Bytes()))
			nc.Write(netlib.Frame(2, topic32("new-topic"), []byte("new-1")))
		}()
		hc.Write(netlib.Frame(1, topic32("honest-topic"), []byte("old-2")))
		time.Sleep(10 * time.Second)
		synctest.Wait()
		olds := 0
		for _, m := range e.col.Snapshot() {
			switch string(m.Data) {
			case "old-1", "old-2":
				if m.From == 2 && m.Domain == "dom1" {
					olds++
				}
			case "new-1":
				if m.From == 3 && m.Domain == "dom2" {
					newOK = true
				}
			}
		}
		oldOK = olds == 2
		for _, k := range keep {
			k.Close()
		}
		hc.Close()
		e.stop()
		e.lis.Close()
		time.Sleep(time.Second)
	})
	if rec != nil && !harness.IsLeakPanic(rec) {
		panic(rec)
	}
	return
}

type stallReplay struct {
	Stall string `json:"stall"`
	N     int    `json:"n"`
}

func stallOne(c *harness.C, kind string, n int) int {
	c.Exec(fmt.Sprintf("[stall] %s %d", kind, n))
	oldOK, newOK, total := stallRun(c, kind, n)
	c.Add("executions", 1)
	c.Add("evaluations", 1)
	rp := stallReplay{kind, n}
	pfx := strings.ToLower(c.Property)
	if !newOK {
		c.Violation("service-to-other-peers-continues", pfx+"-new-peer-starved-by-stalled-connection:"+kind, fmt.Sprintf("a connection that stalls during set-up (%s, %d bytes of the handshake) is open; a new honest peer then connected, authenticated and sent a message, which did not arrive within 10 virtual seconds", kind, n), rp)
	}
	if !oldOK {
		c.Violation("service-to-other-peers-continues", pfx+"-connected-peer-starved-by-stalled-connection:"+kind, fmt.Sprintf("a connection that stalls during set-up (%s, %d bytes of the handshake) is open; the messages of an honest peer connected earlier did not all arrive", kind, n), rp)
	}
	c.Outcome(fmt.Sprintf("stall|%s|%d|%v|%v", kind, n, oldOK, newOK))
	return total
}

func stallCases(c *harness.C) []harness.Case {
	var cases []harness.Case
	if r := c.Replay; r != nil {
		var rp stallReplay
		if json.Unmarshal(r, &rp) == nil && rp.Stall != "" {
			return []harness.Case{{ID: os.Getenv("VERIF_ONLY"), Run: func(c *harness.C) { stallOne(c, rp.Stall, rp.N) }}}
		}
	}
	for _, k := range []string{"tcp-silent", "tls-partial-record", "tls-silent", "huge-length-prefix"} {
		k := k
		cases = append(cases, harness.Case{ID: "stall/" + k, Run: func(c *harness.C) { stallOne(c, k, 0) }})
	}
	step := 40
	if c.Thorough() {
		step = 1
	}
	const shards = 8
	for sh := 0; sh < shards; sh++ {
		sh := sh
		cases = append(cases, harness.Case{ID: fmt.Sprintf("stall/partial-handshake/shard%d", sh), Run: func(c *harness.C) {
			total := 1200
			for i, n := 0, 0; n < total; i, n = i+1, n+step {
				if i%shards != sh {
					continue
				}
				if c.Expired() {
					c.Cap("time")
					return
				}
				if t := stallOne(c, "partial-handshake", n); t > 0 && t < total {
					total = t
				}
			}
		}})
	}
	return cases
}

// libraryReplayCase: the library's own sender (party 1) connects to a misbehaving registered node,
// which records the handshake it receives and replays it on a connection of its own to the victim.
func libraryReplayCase() harness.Case {
	return harness.Case{ID: "library-sender/replayed-handshake", Run: func(c *harness.C) {
		if !dialSeam {
			c.Note("c16-dial-seam", "tls.Dial could not be redirected on this tree: library-sender replay case skipped")
			return
		}
		c.Exec("[replay] library-sender handshake recorded by a malicious node and replayed to the victim")
		var got []comm.InMsg
		recorded := false
		rec := c.Bubble(func() {
			e := newEnv()
			// the malicious node's listener: terminates TLS and records what the sender writes
			mal := netlib.NewListener(e.pki.ServerConfig())
			var recordedHS []byte
			done := make(chan struct{})
			go func() {
				conn, err := mal.Accept()
				if err != nil {
					return
				}
				lenb := make([]byte, 2)
				if _, err := io.ReadFull(conn, lenb); err != nil {
					close(done)
					return
				}
				body := make([]byte, int(lenb[0])|int(lenb[1])<<8)
				if _, err := io.ReadFull(conn, body); err != nil {
					close(done)
					return
				}
				recordedHS = append(lenb, body...)
				close(done)
			}()
			never := make(chan struct{})
			down := false
			installDial(func(network, addr string, cfg *tls.Config) (*tls.Conn, error) {
				if down {
					<-never
				}
				raw, err := mal.DialRaw("to-malicious")
				if err != nil {
					return nil, err
				}
				cc := cfg.Clone()
				cc.ServerName = "mem"
				conn := tls.Client(raw, cc)
				if err := conn.Handshake(); err != nil {
					return nil, err
				}
				return conn, nil
			})
			id := e.ids[0]
			rp := comm.NewSocketRemoteParty(comm.PartyConnectionConfig{
				AuthFunc: func(binding []byte) comm.Handshake {
					// (the sender overwrites Domain with its configured domain after this function
					// returns, so the function has to sign that very domain)
					h := comm.Handshake{Domain: id.domain, TLSBinding: binding, Identity: id.pair.Cert, Timestamp: now().Unix()}
					netlib.SignHandshake(&h, id.key())
					return h
				}, Domain: id.domain, Id: 3, Endpoint: "malicious", TlsCAs: e.pki.Pool}, world.NopLogger{})
			comm.SocketRemoteParties{3: rp}.Send(2, topic32("t"), []byte("hello malicious node"), 3)
			synctest.Wait()
			<-done
			if recordedHS != nil {
				recorded = true
				// replay on an own connection to the victim
				ac, _ := e.connect("replayer")
				ac.Write(recordedHS)
				ac.Write(netlib.Frame(2, topic32("attack-topic"), []byte("attacker-payload")))
				synctest.Wait()
				time.Sleep(2 * time.Second)
				synctest.Wait()
				ac.Close()
			}
			got = e.col.Snapshot()
			down = true
			mal.Close()
			e.stop()
			time.Sleep(time.Second)
		})
		if rec != nil && !harness.IsLeakPanic(rec) {
			panic(rec)
		}
		c.Add("executions", 1)
		c.Add("evaluations", 1)
		if !recorded {
			c.Violation("control", "c16-library-sender-handshake-not-recorded", "the library's sender did not deliver a handshake to the recording node", nil)
			return
		}
		for _, m := range got {
			if bytes.Equal(m.Data, []byte("attacker-payload")) {
				c.Violation("no-attribution-without-proof", "c16-attributed:replayed-library-handshake", fmt.Sprintf("a handshake the library's sender produced on its connection to another node was replayed on a different connection and the message was attributed to node %d", m.From), nil)
			}
		}
		c.Outcome("library-replay")
	}}
}

func judgeCatalogue(c *harness.C, i int, got []comm.InMsg, honestOK bool) {
	// an altered body is either rejected or - if the alteration does not change any signed value
	// (e.g. bytes after the end of the structure) - attributed to the right identity
	for _, m := range got {
		if bytes.Equal(m.Data, []byte("attacker-payload")) && (m.From != 1 || m.Domain != "dom1") {
			c.Violation("attribution-matches-registration", "c16-misattributed:catalogue", fmt.Sprintf("catalogue entry %d: message attributed to node %d domain %q", i, m.From, m.Domain), map[string]int{"entry": i})
		}
	}
	if !honestOK {
		c.Violation("honest-connection-unaffected", "c16-honest-connection-disturbed:catalogue", fmt.Sprintf("catalogue entry %d disturbed the honest connection", i), map[string]int{"entry": i})
	}
}

func one(c *harness.C, v variant, trunc int) {
	name := v.name
	class := v.class
	var ov func([]byte) []byte
	if trunc >= 0 {
		name = fmt.Sprintf("truncate-to-%d", trunc)
		class = "truncate"
		ov = func(w []byte) []byte {
			if trunc >= len(w) {
				return w
			}
			return w[:trunc]
		}
	}
	c.Exec(fmt.Sprintf("[%s] %s", class, name))
	got, okID, okDomain, honestOK := runVariant(c, v, ov)
	c.Add("executions", 1)
	c.Add("evaluations", 1)
	if trunc >= 0 {
		// a complete frame (trunc >= len) is the control; anything shorter must yield nothing
		full := false
		for _, m := range got {
			if bytes.Equal(m.Data, []byte("attacker-payload")) {
				full = true
			}
		}
		_ = full
		okID, okDomain = 1, "dom1" // if attributed at all, then correctly (only a complete handshake can verify)
	}
	judge(c, name, class, got, okID, okDomain, honestOK, replay{Variant: v.name, Trunc: trunc})
	if c.Outcome(class+"|"+name) && class != "truncate" {
		c.Sample("c16", map[string]interface{}{"variant": name, "class": class, "attributed_messages": len(got)})
	}
}

func TestCheck(t *testing.T) { harness.Main(t, "C16", gen) }
