//go:build verifoverlay

package c16

import (
	"crypto/tls"

	comm "github.com/IBM/TSS/net"
)

const dialSeam = true

func installDial(f func(network, addr string, cfg *tls.Config) (*tls.Conn, error)) {
	comm.VerifDial = f
}
