package c16

import (
	"crypto/sha256"
	"hash"
)

func sha256New() hash.Hash { return sha256.New() }
