//go:build go1.25

package harness

import (
	"testing"
	"testing/synctest"
)

// Bubble runs f inside a synctest bubble in a sub-test. It returns the recovered panic of the
// bubble's own goroutine (including synctest's "blocked goroutines remain" at the end).
func (c *C) Bubble(f func()) (rec interface{}) {
	c.LastBubbleFailed = !c.T.Run("b", func(t *testing.T) {
		defer func() {
			if r := recover(); r != nil {
				rec = r
			}
		}()
		synctest.Test(t, func(t *testing.T) { f() })
	})
	return rec
}
