// Package harness is the worker side of the check protocol. A check binary is a Go test binary
// whose single test calls Main with a generator of cases. The Python driver (bin/check) lists the
// cases, shards them over worker processes, attributes crashes to the case in flight, matches
// violations against known_findings.json and writes the evidence.
//
// Protocol (stdout lines starting with "@@"):
//
//	@@CASE <id>            (mode list)
//	@@BEGIN <id>
//	@@X <text>             execution about to start (for crash attribution)
//	@@V <json>             violation
//	@@END <id>
//	@@DONE <json>          totals of this worker
package harness

import (
	"crypto/sha256"
	"encoding/binary"
	"encoding/json"
	"fmt"
	"os"
	"path/filepath"
	"sort"
	"strconv"
	"strings"
	"sync"
	"testing"
	"time"
)

type Case struct {
	ID  string
	Run func(c *C)
}

type Violation struct {
	Property  string      `json:"property"`
	Case      string      `json:"case"`
	Clause    string      `json:"clause"`
	Signature string      `json:"signature"`
	Detail    string      `json:"detail"`
	Replay    interface{} `json:"replay,omitempty"`
}

type totals struct {
	Counters  map[string]int64  `json:"counters"`
	Samples   []interface{}     `json:"samples"`
	Notes     map[string]string `json:"notes"`
	Capped    bool              `json:"capped"`
	StatesF   string            `json:"states_file"`
	OutcomesF string            `json:"outcomes_file"`
	Cases     int               `json:"cases"`
}

// C is the per-worker reporting context handed to every case.
type C struct {
	T        *testing.T
	Property string
	Tier     string
	Seed     int64
	Replay   json.RawMessage // non-nil in replay mode
	lastExec string
	Deadline time.Time

	mu       sync.Mutex
	cur      string
	tot      totals
	states   map[uint64]struct{}
	outcomes map[uint64]struct{}
	sampleBy map[string]int

	newStates, newOutcomes []uint64

	// LastBubbleFailed: the sub-test of the last Bubble failed (under -race: a race was reported
	// during that execution).
	LastBubbleFailed bool
	raceOff          int64
}

// RaceReport is one parsed data-race report.
type RaceReport struct {
	Text      string
	Frames    [2]string // first repository function of each of the two accesses ("" if none)
	Signature string
}

// NewRaceReports returns the race reports written to GORACE's log_path since the last call.
func (c *C) NewRaceReports() []RaceReport {
	lp := ""
	for _, kv := range strings.Fields(os.Getenv("GORACE")) {
		if strings.HasPrefix(kv, "log_path=") {
			lp = kv[len("log_path="):]
		}
	}
	if lp == "" {
		return nil
	}
	b, err := os.ReadFile(fmt.Sprintf("%s.%d", lp, os.Getpid()))
	if err != nil || int64(len(b)) <= c.raceOff {
		return nil
	}
	txt := string(b[c.raceOff:])
	c.raceOff = int64(len(b))
	var out []RaceReport
	for _, blk := range strings.Split(txt, "==================") {
		if !strings.Contains(blk, "DATA RACE") {
			continue
		}
		r := RaceReport{Text: blk}
		secs := strings.Split(blk, "\n\n")
		n := 0
		for _, sec := range secs {
			ls := strings.Split(strings.TrimSpace(sec), "\n")
			if len(ls) == 0 {
				continue
			}
			head := ls[0]
			if strings.HasPrefix(head, "WARNING: DATA RACE") && len(ls) > 1 {
				ls = ls[1:]
				head = ls[0]
			}
			if !(strings.Contains(head, " by goroutine ") || strings.Contains(head, " by main goroutine")) {
				continue
			}
			if n < 2 {
				for _, l := range ls[1:] {
					l = strings.TrimSpace(l)
					if strings.HasPrefix(l, "github.com/IBM/TSS") {
						f := l
						if i := strings.LastIndex(f, "("); i > 0 {
							f = f[:i]
						}
						r.Frames[n] = strings.TrimPrefix(f, "github.com/IBM/TSS/")
						break
					}
				}
				n++
			}
		}
		fs := []string{r.Frames[0], r.Frames[1]}
		sort.Strings(fs)
		r.Signature = "race:" + fs[0] + "|" + fs[1]
		out = append(out, r)
	}
	return out
}

func h64(s string) uint64 {
	d := sha256.Sum256([]byte(s))
	return binary.BigEndian.Uint64(d[:8])
}

func (c *C) Add(name string, n int) {
	c.mu.Lock()
	c.tot.Counters[name] += int64(n)
	c.mu.Unlock()
}

// State records a distinct explored state (or per-party history) by canonical key.
func (c *C) State(key string) bool {
	c.mu.Lock()
	defer c.mu.Unlock()
	h := h64(key)
	if _, ok := c.states[h]; ok {
		return false
	}
	c.states[h] = struct{}{}
	c.newStates = append(c.newStates, h)
	return true
}

// Outcome records a distinct non-trivial case/outcome by canonical key.
func (c *C) Outcome(key string) bool {
	c.mu.Lock()
	defer c.mu.Unlock()
	h := h64(key)
	if _, ok := c.outcomes[h]; ok {
		return false
	}
	c.outcomes[h] = struct{}{}
	c.newOutcomes = append(c.newOutcomes, h)
	return true
}

// Sample keeps up to 3 samples per kind.
func (c *C) Sample(kind string, v interface{}) {
	c.mu.Lock()
	defer c.mu.Unlock()
	if c.sampleBy[kind] >= 3 {
		return
	}
	c.sampleBy[kind]++
	c.tot.Samples = append(c.tot.Samples, map[string]interface{}{"kind": kind, "case": c.cur, "value": v})
}

func (c *C) Note(k, v string) {
	c.mu.Lock()
	c.tot.Notes[k] = v
	c.mu.Unlock()
}

// Exec announces an execution (crash attribution).
func (c *C) Exec(desc string) {
	c.lastExec = desc
	fmt.Printf("@@X %s\n", desc)
}

// Beat repeats the last Exec line: long searches that are one "execution" for crash attribution
// tell the driver's per-execution watchdog that they are alive.
func (c *C) Beat() {
	fmt.Printf("@@X %s\n", c.lastExec)
}

func (c *C) Violation(clause, signature, detail string, replay interface{}) {
	v := Violation{Property: c.Property, Case: c.cur, Clause: clause, Signature: signature, Detail: detail, Replay: replay}
	b, _ := json.Marshal(v)
	fmt.Printf("@@V %s\n", b)
	c.Add("violations_raw", 1)
}

// Expired reports whether the worker's deadline has passed; it marks the run as capped.
func (c *C) Expired() bool {
	if !c.Deadline.IsZero() && time.Now().After(c.Deadline) {
		c.mu.Lock()
		c.tot.Capped = true
		c.mu.Unlock()
		return true
	}
	return false
}

func (c *C) Cap(reason string) {
	c.mu.Lock()
	c.tot.Capped = true
	c.tot.Notes["cap:"+reason] = "hit"
	c.mu.Unlock()
}

// Thorough reports whether the thorough tier is requested.
func (c *C) Thorough() bool { return c.Tier == "thorough" }

// IsLeakPanic tells whether a recovered bubble panic is synctest complaining about goroutines that
// are still blocked when the bubble's main function returns.
func IsLeakPanic(r interface{}) bool {
	if r == nil {
		return false
	}
	s := fmt.Sprint(r)
	return strings.Contains(s, "blocked goroutines remain")
}

// Main is the entry point of every check binary.
func Main(t *testing.T, property string, gen func(c *C) []Case) {
	mode := os.Getenv("VERIF_MODE")
	c := &C{T: t, Property: property, Tier: os.Getenv("VERIF_TIER"),
		states: map[uint64]struct{}{}, outcomes: map[uint64]struct{}{}, sampleBy: map[string]int{}}
	if c.Tier == "" {
		c.Tier = "quick"
	}
	c.Seed, _ = strconv.ParseInt(os.Getenv("VERIF_SEED"), 10, 64)
	c.tot.Counters = map[string]int64{}
	c.tot.Notes = map[string]string{}
	if d, err := strconv.ParseInt(os.Getenv("VERIF_DEADLINE"), 10, 64); err == nil && d > 0 {
		c.Deadline = time.Unix(d, 0)
	}
	if r := os.Getenv("VERIF_REPLAY"); r != "" {
		c.Replay = json.RawMessage(r)
	}
	cases := gen(c)
	switch mode {
	case "list":
		for _, k := range cases {
			fmt.Printf("@@CASE %s\n", k.ID)
		}
		return
	case "", "run", "replay":
	default:
		t.Fatalf("unknown VERIF_MODE %q", mode)
	}
	want := map[string]bool{}
	if f := os.Getenv("VERIF_CASES"); f != "" {
		b, err := os.ReadFile(f)
		if err != nil {
			t.Fatal(err)
		}
		for _, l := range strings.Split(string(b), "\n") {
			if l = strings.TrimSpace(l); l != "" {
				want[l] = true
			}
		}
	}
	if o := os.Getenv("VERIF_ONLY"); o != "" {
		want[o] = true
	}
	for _, k := range cases {
		if len(want) > 0 && !want[k.ID] {
			continue
		}
		if c.Expired() {
			c.Add("cases_skipped_deadline", 1)
			continue
		}
		c.cur = k.ID
		fmt.Printf("@@BEGIN %s\n", k.ID)
		k.Run(c)
		// auxiliary race pass: in a -race build, reports the case did not consume itself become
		// violations when both stacks lie in repository code (free-running code: not exhaustive)
		for _, rr := range c.NewRaceReports() {
			if rr.Frames[0] == "" || rr.Frames[1] == "" {
				c.Add("race_reports_with_harness_frames", 1)
				continue
			}
			c.Add("race_reports", 1)
			c.Violation("no-data-race (auxiliary free-running pass)", strings.ToLower(c.Property)+"-"+rr.Signature, fmt.Sprintf("case %s: data race between %s and %s", k.ID, rr.Frames[0], rr.Frames[1]), json.RawMessage(c.Replay))
		}
		fmt.Printf("@@END %s\n", k.ID)
		c.tot.Cases++
		c.flush(false)
	}
	c.flush(true)
}

// flush writes the totals so far (so that a later crash of this worker loses nothing) and the
// newly seen state/outcome hashes.
func (c *C) flush(final bool) {
	c.mu.Lock()
	defer c.mu.Unlock()
	if out := os.Getenv("VERIF_OUT"); out != "" {
		tag := os.Getenv("VERIF_WORKER")
		c.tot.StatesF = filepath.Join(out, "w"+tag+".states")
		c.tot.OutcomesF = filepath.Join(out, "w"+tag+".outcomes")
		appendSet(c.tot.StatesF, c.newStates)
		appendSet(c.tot.OutcomesF, c.newOutcomes)
		c.newStates, c.newOutcomes = c.newStates[:0], c.newOutcomes[:0]
	}
	c.tot.Counters["states_local"] = int64(len(c.states))
	c.tot.Counters["outcomes_local"] = int64(len(c.outcomes))
	b, _ := json.Marshal(c.tot)
	if final {
		fmt.Printf("@@DONE %s\n", b)
	} else {
		fmt.Printf("@@C %s\n", b)
	}
}

func appendSet(path string, ks []uint64) {
	if len(ks) == 0 {
		return
	}
	buf := make([]byte, 8*len(ks))
	for i, k := range ks {
		binary.BigEndian.PutUint64(buf[8*i:], k)
	}
	f, err := os.OpenFile(path, os.O_APPEND|os.O_CREATE|os.O_WRONLY, 0o644)
	if err != nil {
		return
	}
	f.Write(buf)
	f.Close()
}
