//go:build !go1.25

package harness

// Bubble is not available when a check is built with the repository's own, older toolchain (the
// `oldgo` builds: behaviour that depends on the standard library the code is compiled against).
func (c *C) Bubble(f func()) (rec interface{}) {
	panic("harness: synctest bubbles need go >= 1.25")
}
