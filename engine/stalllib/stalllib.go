// Package stalllib holds the "something inside the orchestrator takes its time" scenarios shared by
// C11 (calls return) and C12 (sessions do not influence one another, later calls are admitted): one
// real threshold.Scheme in a synctest bubble, fake synchronisers and backends that stall at a chosen
// place, virtual time. Each scenario returns what the calls did; the oracles belong to the checks.
package stalllib

import (
	"context"
	"fmt"
	"sync"
	"testing/synctest"
	"time"

	"github.com/IBM/TSS/threshold"
	tss "github.com/IBM/TSS/types"
	"verif/backend/s"
	"verif/world"
)

// Call is the outcome of one API call.
type Call struct {
	Returned bool
	Err      error
	At       time.Duration // virtual time of the return, measured from the start of the scenario
}

// Result of a scenario: the calls in the order they were issued.
type Result struct {
	Calls []Call
	Notes []string
}

// --- fakes

type instSync struct{ members []uint16 }

func (i *instSync) Synchronize(_ context.Context, f func([]uint16), _ []byte, _ int, _ time.Duration) error {
	f(i.members)
	return nil
}
func (i *instSync) HandleMessage(uint16, []byte) {}

// blockSync never completes (its peers do not answer); its message handler never returns (the reply
// it wants to send is stuck behind a peer that stopped reading).
type blockSync struct {
	bcast   func([]byte)
	release chan struct{}
	inside  chan struct{}
}

func (b *blockSync) Synchronize(ctx context.Context, _ func([]uint16), _ []byte, _ int, _ time.Duration) error {
	b.bcast([]byte("probe")) // lets the harness learn the topic of this synchronisation
	<-ctx.Done()
	return ctx.Err()
}

func (b *blockSync) HandleMessage(uint16, []byte) {
	select {
	case b.inside <- struct{}{}:
	default:
	}
	<-b.release
}

type backend struct {
	initDelay time.Duration
}

func (q *backend) ClassifyMsg(b []byte) (uint8, bool, error) { return s.Classify(b) }
func (q *backend) Init([]uint16, int, func([]byte, bool, uint16)) {
	if q.initDelay > 0 {
		time.Sleep(q.initDelay)
	}
}
func (q *backend) OnMsg([]byte, uint16, bool)                   {}
func (q *backend) KeyGen(ctx context.Context) ([]byte, error)   { return []byte("share"), nil }
func (q *backend) SetShareData([]byte) error                    { return nil }
func (q *backend) Sign(context.Context, []byte) ([]byte, error) { return []byte("sig"), nil }
func (q *backend) ThresholdPK() ([]byte, error)                 { return []byte("pk"), nil }

const Deadline = 5 * time.Second

type env struct {
	p       tss.MpcParty
	scm     *threshold.Scheme
	mu      sync.Mutex
	topics  [][]byte // topics of sync messages sent, in order
	start   time.Time
	backend func() *backend
}

func newEnv() *env {
	e := &env{start: time.Now()}
	e.backend = func() *backend { return &backend{} }
	mem := func() map[tss.UniversalID]tss.PartyID { return map[tss.UniversalID]tss.PartyID{1: 1, 2: 2, 3: 3} }
	send := func(mt uint8, topic []byte, _ []byte, _ ...uint16) {
		if mt == uint8(tss.MsgTypeSync) {
			e.mu.Lock()
			e.topics = append(e.topics, append([]byte(nil), topic...))
			e.mu.Unlock()
		}
	}
	e.p = threshold.LoudScheme(1, world.NopLogger{}, func(uint16) tss.KeyGenerator { return e.backend() }, func(uint16) tss.Signer { return e.backend() }, 1, send, mem)
	e.scm = e.p.(*threshold.Scheme)
	return e
}

func (e *env) call(op string, topic string, res *Call) {
	go func() {
		ctx, cancel := context.WithTimeout(context.Background(), Deadline)
		defer cancel()
		var err error
		if op == "keygen" {
			_, err = e.p.KeyGen(ctx, 3, 2)
		} else {
			_, err = e.p.Sign(ctx, world.Sha([]byte("d")), topic)
		}
		e.mu.Lock()
		*res = Call{Returned: true, Err: err, At: time.Since(e.start)}
		e.mu.Unlock()
	}()
}

// SyncHandlerStalls: a session (op on topic "a") is waiting in its first synchronisation; a
// synchronisation message for it arrives and its handler never returns. Then (other != "") another
// call is made: a Sign on topic "b" or a KeyGen. Everything is given a virtual minute past the
// deadline. Calls[0] is the stalled session's own call, Calls[1] the other one.
func SyncHandlerStalls(op, other string) Result {
	var r Result
	e := newEnv()
	e.p.SetStoredData([]byte("x"))
	release := make(chan struct{})
	inside := make(chan struct{}, 1)
	n := 0
	e.scm.SyncFactory = func(_ []uint16, bcast func([]byte), _ func([]byte, uint16)) tss.Synchronizer {
		n++
		if n == 1 {
			return &blockSync{bcast: bcast, release: release, inside: inside}
		}
		if other == "keygen" {
			return &instSync{members: []uint16{1, 2, 3}}
		}
		return &instSync{members: []uint16{1, 2}}
	}
	r.Calls = make([]Call, 1)
	if other != "" {
		r.Calls = make([]Call, 2)
	}
	e.call(op, "a", &r.Calls[0])
	synctest.Wait()
	e.mu.Lock()
	var topic []byte
	if len(e.topics) > 0 {
		topic = e.topics[0]
	}
	e.mu.Unlock()
	if topic == nil {
		r.Notes = append(r.Notes, "the first synchronisation sent nothing: scenario not applicable")
		close(release)
		time.Sleep(Deadline + time.Minute)
		return r
	}
	go e.p.HandleMessage(&tss.IncMessage{Data: []byte("sync"), Source: 2, MsgType: uint8(tss.MsgTypeSync), Topic: topic})
	synctest.Wait()
	select {
	case <-inside:
	default:
		r.Notes = append(r.Notes, "the synchronisation message did not reach the session's handler")
	}
	if other != "" {
		time.Sleep(time.Second)
		if other == "keygen" {
			e.call("keygen", "", &r.Calls[1])
		} else {
			e.call("sign", "b", &r.Calls[1])
		}
	}
	time.Sleep(Deadline + time.Minute)
	e.mu.Lock()
	out := Result{Calls: append([]Call(nil), r.Calls...), Notes: r.Notes}
	e.mu.Unlock()
	close(release)
	time.Sleep(time.Minute)
	return out
}

// SlowInit: the backend's Init of the first session takes longer than the caller's deadline; the
// call is repeated (same operation, same topic) after Init has finally returned. Calls[0] is the
// first call, Calls[1] the repetition.
func SlowInit(op string) Result {
	var r Result
	e := newEnv()
	e.p.SetStoredData([]byte("x"))
	k := 0
	e.backend = func() *backend {
		k++
		if k == 1 {
			return &backend{initDelay: 2 * Deadline}
		}
		return &backend{}
	}
	e.scm.SyncFactory = func([]uint16, func([]byte), func([]byte, uint16)) tss.Synchronizer {
		if op == "keygen" {
			return &instSync{members: []uint16{1, 2, 3}}
		}
		return &instSync{members: []uint16{1, 2}}
	}
	r.Calls = make([]Call, 2)
	e.call(op, "a", &r.Calls[0])
	time.Sleep(2*Deadline + 2*time.Second)
	e.call(op, "a", &r.Calls[1])
	time.Sleep(Deadline + time.Minute)
	e.mu.Lock()
	out := Result{Calls: append([]Call(nil), r.Calls...)}
	e.mu.Unlock()
	return out
}

// lateSync: Synchronize fails only when released (after its context is over); HandleMessage reports
// that it was reached.
type lateSync struct {
	bcast   func([]byte)
	release chan struct{}
	reached chan struct{}
}

func (l *lateSync) Synchronize(ctx context.Context, _ func([]uint16), _ []byte, _ int, _ time.Duration) error {
	if l.bcast != nil {
		l.bcast([]byte("probe"))
	}
	<-ctx.Done()
	if l.release != nil {
		<-l.release
	}
	return ctx.Err()
}

func (l *lateSync) HandleMessage(uint16, []byte) {
	select {
	case l.reached <- struct{}{}:
	default:
	}
}

// LateSyncFailure: a Sign on topic "a" times out; the goroutine that ran its synchronisation learns
// of the failure only later. Meanwhile the caller retries on the same topic (the retry waits in its
// own synchronisation). After the old goroutine has finished, the retry must still be registered:
// a synchronisation message for the topic reaches it (Reached), and a third, concurrent Sign on the
// topic is refused at once (ThirdRefused).
type LateResult struct {
	First, Third Call
	Reached      bool
	Notes        []string
}

func LateSyncFailure() LateResult {
	var r LateResult
	e := newEnv()
	e.p.SetStoredData([]byte("x"))
	release1 := make(chan struct{})
	reached2 := make(chan struct{}, 1)
	n := 0
	e.scm.SyncFactory = func(_ []uint16, bcast func([]byte), _ func([]byte, uint16)) tss.Synchronizer {
		n++
		switch n {
		case 1:
			return &lateSync{bcast: bcast, release: release1, reached: make(chan struct{}, 1)}
		default:
			return &lateSync{reached: reached2}
		}
	}
	var second Call
	e.call("sign", "a", &r.First)
	synctest.Wait()
	e.mu.Lock()
	var topic []byte
	if len(e.topics) > 0 {
		topic = e.topics[0]
	}
	e.mu.Unlock()
	time.Sleep(Deadline + 500*time.Millisecond) // the first call has timed out and returned
	go func() {
		ctx, cancel := context.WithTimeout(context.Background(), time.Minute)
		defer cancel()
		_, err := e.p.Sign(ctx, world.Sha([]byte("d")), "a")
		e.mu.Lock()
		second = Call{Returned: true, Err: err, At: time.Since(e.start)}
		e.mu.Unlock()
	}()
	synctest.Wait()
	close(release1) // now the old synchronisation goroutine reports its failure
	synctest.Wait()
	time.Sleep(100 * time.Millisecond)
	if topic == nil {
		r.Notes = append(r.Notes, "the first synchronisation sent nothing: scenario not applicable")
		r.Reached = true
	} else {
		e.p.HandleMessage(&tss.IncMessage{Data: []byte("sync"), Source: 2, MsgType: uint8(tss.MsgTypeSync), Topic: topic})
		synctest.Wait()
		select {
		case <-reached2:
			r.Reached = true
		default:
		}
	}
	e.call("sign", "a", &r.Third)
	time.Sleep(2 * time.Second)
	e.mu.Lock()
	out := LateResult{First: r.First, Third: r.Third, Reached: r.Reached, Notes: r.Notes}
	if second.Returned {
		out.Notes = append(out.Notes, fmt.Sprintf("the retry returned early: %v", second.Err))
	}
	e.mu.Unlock()
	time.Sleep(2 * time.Minute)
	return out
}

// ShortDeadlines: KeyGen / Sign called with contexts whose deadline has already passed or is about to
// (real synchroniser, nobody answers): every call returns an error soon after its deadline.
func ShortDeadlines(op string) []Call {
	var out []Call
	for _, d := range []time.Duration{-time.Second, 0, time.Nanosecond, time.Millisecond, 100 * time.Millisecond, 999 * time.Millisecond, time.Second, 1500 * time.Millisecond} {
		e := newEnv()
		e.p.SetStoredData([]byte("x"))
		var cl Call
		done := make(chan struct{})
		go func() {
			ctx, cancel := context.WithDeadline(context.Background(), time.Now().Add(d))
			defer cancel()
			var err error
			if op == "keygen" {
				_, err = e.p.KeyGen(ctx, 3, 2)
			} else {
				_, err = e.p.Sign(ctx, world.Sha([]byte("d")), "a")
			}
			e.mu.Lock()
			cl = Call{Returned: true, Err: err, At: time.Since(e.start)}
			e.mu.Unlock()
			close(done)
		}()
		time.Sleep(d + 30*time.Second)
		e.mu.Lock()
		out = append(out, cl)
		e.mu.Unlock()
		time.Sleep(time.Minute)
	}
	return out
}
