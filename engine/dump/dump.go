// Package dump renders the private state of real objects canonically by reflection (read-only,
// unexported fields included): maps are sorted, pointers followed, functions, channels, locks and
// loggers skipped. A field that a refactoring removed simply does not appear; nothing fails.
package dump

import (
	"fmt"
	"reflect"
	"sort"
	"strings"
	"unicode"
	"unsafe"
)

// Field returns the named (possibly unexported) field of struct pointer/struct v; ok=false if absent.
func Field(v interface{}, name string) (reflect.Value, bool) {
	rv := reflect.ValueOf(v)
	for rv.Kind() == reflect.Ptr || rv.Kind() == reflect.Interface {
		if rv.IsNil() {
			return reflect.Value{}, false
		}
		rv = rv.Elem()
	}
	if rv.Kind() != reflect.Struct {
		return reflect.Value{}, false
	}
	f := rv.FieldByName(name)
	return f, f.IsValid()
}

// Fields dumps the named fields of v as "name=value;..." (absent fields are skipped).
func Fields(v interface{}, names ...string) string {
	var sb strings.Builder
	for _, n := range names {
		if f, ok := Field(v, n); ok {
			sb.WriteString(n)
			sb.WriteByte('=')
			write(&sb, f, 0)
			sb.WriteByte(';')
		}
	}
	return sb.String()
}

// Value dumps any value canonically.
func Value(v interface{}) string {
	var sb strings.Builder
	write(&sb, reflect.ValueOf(v), 0)
	return sb.String()
}

// Len returns the length of a map/slice field, -1 if absent.
func Len(v interface{}, name string) int {
	f, ok := Field(v, name)
	if !ok {
		return -1
	}
	switch f.Kind() {
	case reflect.Map, reflect.Slice, reflect.Array, reflect.String, reflect.Chan:
		return f.Len()
	}
	return -1
}

// MapKeys returns the dumped keys of a map field, sorted.
func MapKeys(v interface{}, name string) []string {
	f, ok := Field(v, name)
	if !ok || f.Kind() != reflect.Map {
		return nil
	}
	var ks []string
	it := f.MapRange()
	for it.Next() {
		var sb strings.Builder
		write(&sb, it.Key(), 0)
		ks = append(ks, sb.String())
	}
	sort.Strings(ks)
	return ks
}

func printable(s string) bool {
	for _, r := range s {
		if r > unicode.MaxASCII || !unicode.IsPrint(r) {
			return false
		}
	}
	return true
}

func write(sb *strings.Builder, v reflect.Value, depth int) {
	if !v.IsValid() {
		sb.WriteString("<nil>")
		return
	}
	if depth > 12 {
		sb.WriteString("<deep>")
		return
	}
	switch v.Kind() {
	case reflect.Bool:
		fmt.Fprintf(sb, "%t", v.Bool())
	case reflect.Int, reflect.Int8, reflect.Int16, reflect.Int32, reflect.Int64:
		fmt.Fprintf(sb, "%d", v.Int())
	case reflect.Uint, reflect.Uint8, reflect.Uint16, reflect.Uint32, reflect.Uint64, reflect.Uintptr:
		fmt.Fprintf(sb, "%d", v.Uint())
	case reflect.Float32, reflect.Float64:
		fmt.Fprintf(sb, "%g", v.Float())
	case reflect.String:
		s := v.String()
		if printable(s) {
			fmt.Fprintf(sb, "%q", s)
		} else {
			fmt.Fprintf(sb, "x%x", s)
		}
	case reflect.Slice, reflect.Array:
		if v.Kind() == reflect.Slice && v.IsNil() {
			sb.WriteString("nil")
			return
		}
		if v.Type().Elem().Kind() == reflect.Uint8 {
			b := make([]byte, v.Len())
			for i := range b {
				b[i] = byte(v.Index(i).Uint())
			}
			fmt.Fprintf(sb, "x%x", b)
			return
		}
		sb.WriteByte('[')
		for i := 0; i < v.Len(); i++ {
			if i > 0 {
				sb.WriteByte(',')
			}
			write(sb, v.Index(i), depth+1)
		}
		sb.WriteByte(']')
	case reflect.Map:
		if v.IsNil() {
			sb.WriteString("nil")
			return
		}
		type kv struct{ k, v string }
		var kvs []kv
		it := v.MapRange()
		for it.Next() {
			var a, b strings.Builder
			write(&a, it.Key(), depth+1)
			write(&b, it.Value(), depth+1)
			kvs = append(kvs, kv{a.String(), b.String()})
		}
		sort.Slice(kvs, func(i, j int) bool { return kvs[i].k < kvs[j].k })
		sb.WriteByte('{')
		for i, e := range kvs {
			if i > 0 {
				sb.WriteByte(',')
			}
			sb.WriteString(e.k)
			sb.WriteByte(':')
			sb.WriteString(e.v)
		}
		sb.WriteByte('}')
	case reflect.Ptr, reflect.Interface:
		if v.IsNil() {
			sb.WriteString("nil")
			return
		}
		write(sb, v.Elem(), depth+1)
	case reflect.Struct:
		t := v.Type()
		if skipType(t) {
			sb.WriteString("_")
			return
		}
		sb.WriteByte('(')
		for i := 0; i < v.NumField(); i++ {
			f := t.Field(i)
			if skipType(f.Type) || f.Type.Kind() == reflect.Func || f.Type.Kind() == reflect.Chan {
				continue
			}
			sb.WriteString(f.Name)
			sb.WriteByte('=')
			write(sb, v.Field(i), depth+1)
			sb.WriteByte(' ')
		}
		sb.WriteByte(')')
	case reflect.Func, reflect.Chan, reflect.UnsafePointer:
		sb.WriteString("_")
	default:
		sb.WriteString("?")
	}
}

func skipType(t reflect.Type) bool {
	for t.Kind() == reflect.Ptr {
		t = t.Elem()
	}
	p := t.PkgPath()
	if p == "sync" || p == "sync/atomic" || p == "time" && t.Name() == "Ticker" {
		return true
	}
	n := t.Name()
	return strings.Contains(n, "Logger") || strings.Contains(n, "logger")
}

// FieldV is Field for a reflect.Value (which may itself come from an unexported field).
func FieldV(rv reflect.Value, name string) (reflect.Value, bool) {
	for rv.IsValid() && (rv.Kind() == reflect.Ptr || rv.Kind() == reflect.Interface) {
		if rv.IsNil() {
			return reflect.Value{}, false
		}
		rv = rv.Elem()
	}
	if !rv.IsValid() || rv.Kind() != reflect.Struct {
		return reflect.Value{}, false
	}
	f := rv.FieldByName(name)
	return f, f.IsValid()
}

// Iface returns the value as interface{} even if it was obtained through unexported fields,
// provided it is addressable (reached through a pointer).
func Iface(v reflect.Value) (interface{}, bool) {
	if !v.IsValid() {
		return nil, false
	}
	if v.CanInterface() {
		return v.Interface(), true
	}
	if v.CanAddr() {
		return reflect.NewAt(v.Type(), unsafe.Pointer(v.UnsafeAddr())).Elem().Interface(), true
	}
	return nil, false
}

// ValueV dumps a reflect.Value canonically.
func ValueV(v reflect.Value) string {
	var sb strings.Builder
	write(&sb, v, 0)
	return sb.String()
}

// BoolNoRace reads a (possibly unexported) bool field without race instrumentation: for predicates
// that the thread-level scheduler evaluates while the system is quiescent. An instrumented read
// would be reported as a race with the program's own writes - and, worse, would use up the
// detector's one report per address, hiding the program's own races on that field.
func BoolNoRace(v interface{}, name string) (val, ok bool) {
	f, found := Field(v, name)
	if !found || f.Kind() != reflect.Bool || !f.CanAddr() {
		return false, false
	}
	return readBool(unsafe.Pointer(f.UnsafeAddr())), true
}

//go:norace
func readBool(p unsafe.Pointer) bool { return *(*bool)(p) }
