// Package scen builds real orchestrator parties (threshold.LoudScheme / SilentScheme) in a world
// and offers the API-call helpers shared by the checks.
package scen

import (
	"context"
	"sort"
	"sync"
	"time"

	"github.com/IBM/TSS/threshold"
	tss "github.com/IBM/TSS/types"
	"verif/world"
)

// Stack describes how the parties of a world are built.
type Stack struct {
	Mode       string // "loud" or "silent"
	KGF        tss.KeyGenFactory
	SF         tss.SignerFactory
	Threshold  int               // Scheme.Threshold (Sign synchronises Threshold+1 nodes)
	Membership map[uint16]uint16 // node id -> party id
	// Pick decides the participants in silent mode (default: all nodes, sorted).
	Pick func(topic []byte, expected int) []uint16
	// Wrap, if set, post-processes the party (e.g. to wrap factories) before it is registered.
	Wrap func(id uint16, p tss.MpcParty) tss.MpcParty
}

func (st *Stack) membership() map[tss.UniversalID]tss.PartyID {
	m := map[tss.UniversalID]tss.PartyID{}
	for u, p := range st.Membership {
		m[tss.UniversalID(u)] = tss.PartyID(p)
	}
	return m
}

// Identity returns the identity membership over ids.
func Identity(ids []uint16) map[uint16]uint16 {
	m := map[uint16]uint16{}
	for _, id := range ids {
		m[id] = id
	}
	return m
}

// Nodes returns the sorted node ids of the membership.
func (st *Stack) Nodes() []uint16 {
	var ids []uint16
	for u := range st.Membership {
		ids = append(ids, u)
	}
	sort.Slice(ids, func(i, j int) bool { return ids[i] < ids[j] })
	return ids
}

// Build creates the party for node id in w.
func (st *Stack) Build(w *world.World, id uint16) *world.Party {
	return w.AddParty(id, func(send func(uint8, []byte, []byte, ...uint16)) tss.MpcParty {
		var p tss.MpcParty
		if st.Mode == "silent" {
			pick := st.Pick
			if pick == nil {
				all := st.Nodes()
				pick = func([]byte, int) []uint16 { return all }
			}
			p = threshold.SilentScheme(id, world.NopLogger{}, st.KGF, st.SF, st.Threshold, send, st.membership, pick)
		} else {
			p = threshold.LoudScheme(id, world.NopLogger{}, st.KGF, st.SF, st.Threshold, send, st.membership)
		}
		if st.Wrap != nil {
			p = st.Wrap(id, p)
		}
		return p
	})
}

// Result of one API call.
type Result struct {
	Node     uint16
	Data     []byte
	Err      error
	Returned bool
	At       time.Duration // virtual time of return
	Panic    interface{}
}

// Results collects API call results.
type Results struct {
	mu sync.Mutex
	M  map[string]*Result
}

func NewResults() *Results { return &Results{M: map[string]*Result{}} }

func (r *Results) Set(key string, res *Result) {
	r.mu.Lock()
	r.M[key] = res
	r.mu.Unlock()
}

func (r *Results) Get(key string) *Result {
	r.mu.Lock()
	defer r.mu.Unlock()
	return r.M[key]
}

// StartKeyGen starts KeyGen on party p with a virtual deadline; the result lands in rs[key].
func StartKeyGen(w *world.World, p *world.Party, rs *Results, key string, n, t int, deadline time.Duration) context.CancelFunc {
	ctx, cancel := context.WithTimeout(context.Background(), deadline)
	res := &Result{Node: p.ID}
	rs.Set(key, res)
	w.Go(func() {
		defer cancel()
		d, err := p.Mpc.KeyGen(ctx, n, t)
		rs.mu.Lock()
		res.Data, res.Err, res.Returned, res.At = d, err, true, w.Now()
		rs.mu.Unlock()
	})
	return cancel
}

// StartSign starts Sign on party p.
func StartSign(w *world.World, p *world.Party, rs *Results, key string, digest []byte, topic string, deadline time.Duration) context.CancelFunc {
	ctx, cancel := context.WithTimeout(context.Background(), deadline)
	res := &Result{Node: p.ID}
	rs.Set(key, res)
	w.Go(func() {
		defer cancel()
		d, err := p.Mpc.Sign(ctx, digest, topic)
		rs.mu.Lock()
		res.Data, res.Err, res.Returned, res.At = d, err, true, w.Now()
		rs.mu.Unlock()
	})
	return cancel
}
