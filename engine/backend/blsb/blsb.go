// Package blsb wires the repository's threshold BLS backend into a world.
package blsb

import (
	"github.com/IBM/TSS/mpc/bls"
	tss "github.com/IBM/TSS/types"
	"verif/world"
)

func KeyGenFactory(id uint16) tss.KeyGenerator {
	return &bls.TBLS{Logger: world.NopLogger{}, Party: id}
}

func SignerFactory(id uint16) tss.Signer {
	return &bls.TBLS{Logger: world.NopLogger{}, Party: id}
}
