// Package psb wires the repository's threshold Pointcheval-Sanders backend into a world.
package psb

import (
	math "github.com/IBM/mathlib"
	"github.com/IBM/TSS/mpc/ps"
	tss "github.com/IBM/TSS/types"
	"verif/world"
)

var Curve = math.Curves[1]

func KeyGenFactory(msgLen int) func(id uint16) tss.KeyGenerator {
	return func(id uint16) tss.KeyGenerator {
		return &ps.TPS{Logger: world.NopLogger{}, Party: id, Curve: Curve, MessageLength: msgLen}
	}
}

func SignerFactory(msgLen int) func(id uint16) tss.Signer {
	return func(id uint16) tss.Signer {
		return &ps.TPS{Logger: world.NopLogger{}, Party: id, Curve: Curve, MessageLength: msgLen}
	}
}
