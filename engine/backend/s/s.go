// Package s is the scripted MPC backend "S": a tiny deterministic protocol (one point-to-point
// message to every other party, then two broadcast rounds) that logs every Init, OnMsg and
// outgoing sendMsg call. Its only job is to let the real orchestration, synchroniser and
// broadcast code run, fast, with observable hand-overs.
package s

import (
	"context"
	"crypto/sha256"
	"encoding/json"
	"fmt"
	"sort"
	"sync"
)

// Rec is one logged call.
type Rec struct {
	Node      uint16 // node (universal) id the backend instance was created for
	Kind      string // "init", "onmsg", "send", "keygen", "sign", "ret"
	Session   int    // instance number at this node
	Parties   []uint16
	Threshold int
	Payload   []byte
	From      uint16
	To        uint16
	Broadcast bool
	Err       string
}

// Log is shared by all instances of a world.
type Log struct {
	mu   sync.Mutex
	Recs []Rec
	inst map[uint16]int
}

func NewLog() *Log { return &Log{inst: map[uint16]int{}} }

func (l *Log) add(r Rec) {
	l.mu.Lock()
	l.Recs = append(l.Recs, r)
	l.mu.Unlock()
}

// Snapshot returns a copy of the records.
func (l *Log) Snapshot() []Rec {
	l.mu.Lock()
	defer l.mu.Unlock()
	return append([]Rec(nil), l.Recs...)
}

func (l *Log) nextInst(node uint16) int {
	l.mu.Lock()
	defer l.mu.Unlock()
	l.inst[node]++
	return l.inst[node]
}

// Wire format of S: [class, round, payload...]; class 0 = point-to-point, 1 = broadcast.
const (
	ClassP2P   = 0
	ClassBcast = 1
)

// Classify is the receiver-side classifier of S.
func Classify(b []byte) (uint8, bool, error) {
	if len(b) < 2 {
		return 0, false, fmt.Errorf("S: short message")
	}
	switch b[0] {
	case ClassP2P:
		return b[1], false, nil
	case ClassBcast:
		return b[1], true, nil
	}
	return 0, false, fmt.Errorf("S: unknown class %d", b[0])
}

// Instance implements both KeyGenerator and Signer.
type Instance struct {
	Node    uint16 // node id given to the factory
	PartyOf func(node uint16) uint16
	L       *Log
	sess    int

	mu      sync.Mutex
	parties []uint16
	thr     int
	send    func(msg []byte, isBroadcast bool, to uint16)
	self    uint16
	got     map[uint8]map[uint16][]byte // round -> from -> payload body
	wake    chan struct{}
	share   *Stored
	inited  bool
}

// Stored is what KeyGen returns / Sign needs.
type Stored struct {
	Parties []uint16
	Thr     int
	Key     []byte
	Self    uint16
}

// New creates an instance for a node; partyOf translates the node id into the party id the
// orchestrator will use for it.
func New(node uint16, partyOf func(uint16) uint16, l *Log) *Instance {
	i := &Instance{Node: node, PartyOf: partyOf, L: l, wake: make(chan struct{}, 1), got: map[uint8]map[uint16][]byte{}}
	i.sess = l.nextInst(node)
	i.self = partyOf(node)
	return i
}

func (i *Instance) ClassifyMsg(b []byte) (uint8, bool, error) { return Classify(b) }

func (i *Instance) Init(parties []uint16, threshold int, sendMsg func(msg []byte, isBroadcast bool, to uint16)) {
	i.mu.Lock()
	i.parties = append([]uint16(nil), parties...)
	i.thr = threshold
	i.send = sendMsg
	i.inited = true
	i.mu.Unlock()
	i.L.add(Rec{Node: i.Node, Kind: "init", Session: i.sess, Parties: append([]uint16(nil), parties...), Threshold: threshold})
}

func (i *Instance) OnMsg(b []byte, from uint16, broadcast bool) {
	i.L.add(Rec{Node: i.Node, Kind: "onmsg", Session: i.sess, Payload: append([]byte(nil), b...), From: from, Broadcast: broadcast})
	if len(b) < 2 {
		return
	}
	i.mu.Lock()
	r := b[1]
	if i.got[r] == nil {
		i.got[r] = map[uint16][]byte{}
	}
	if _, dup := i.got[r][from]; !dup {
		i.got[r][from] = append([]byte(nil), b[2:]...)
	}
	i.mu.Unlock()
	select {
	case i.wake <- struct{}{}:
	default:
	}
}

func (i *Instance) out(class, round uint8, body []byte, to uint16) {
	m := append([]byte{class, round}, body...)
	i.L.add(Rec{Node: i.Node, Kind: "send", Session: i.sess, Payload: append([]byte(nil), m...), To: to, Broadcast: class == ClassBcast})
	i.send(m, class == ClassBcast, to)
}

func (i *Instance) others() []uint16 {
	var o []uint16
	for _, p := range i.parties {
		if p != i.self {
			o = append(o, p)
		}
	}
	return o
}

// waitRound blocks until round r has a message from every other party.
func (i *Instance) waitRound(ctx context.Context, r uint8) error {
	for {
		i.mu.Lock()
		n := 0
		for _, p := range i.others() {
			if _, ok := i.got[r][p]; ok {
				n++
			}
		}
		need := len(i.parties) - 1
		i.mu.Unlock()
		if n >= need {
			return nil
		}
		select {
		case <-ctx.Done():
			return fmt.Errorf("S: round %d incomplete (%d/%d): %w", r, n, need, ctx.Err())
		case <-i.wake:
		}
	}
}

func h(parts ...[]byte) []byte {
	x := sha256.New()
	for _, p := range parts {
		x.Write([]byte{byte(len(p) >> 8), byte(len(p))})
		x.Write(p)
	}
	return x.Sum(nil)
}

func u16(v uint16) []byte { return []byte{byte(v >> 8), byte(v)} }

// P2PBody is the value party a sends to party b in round 0 of a session with seed.
func P2PBody(a, b uint16, seed []byte) []byte { return h([]byte("p2p"), u16(a), u16(b), seed)[:8] }

// protocol runs the three rounds and returns the agreed value.
func (i *Instance) protocol(ctx context.Context, seed []byte) ([]byte, error) {
	if !i.inited {
		return nil, fmt.Errorf("S: not initialised")
	}
	found := false
	for _, p := range i.parties {
		if p == i.self {
			found = true
		}
	}
	if !found {
		return nil, fmt.Errorf("S: own party %d not in %v", i.self, i.parties)
	}
	for _, p := range i.others() {
		i.out(ClassP2P, 0, P2PBody(i.self, p, seed), p)
	}
	if err := i.waitRound(ctx, 0); err != nil {
		return nil, err
	}
	i.mu.Lock()
	for _, p := range i.others() {
		if string(i.got[0][p]) != string(P2PBody(p, i.self, seed)) {
			i.mu.Unlock()
			return nil, fmt.Errorf("S: point-to-point value from %d is not the one meant for %d", p, i.self)
		}
	}
	i.mu.Unlock()
	v1 := h([]byte("r1"), u16(i.self), seed)[:8]
	i.out(ClassBcast, 1, v1, 0)
	if err := i.waitRound(ctx, 1); err != nil {
		return nil, err
	}
	v2 := i.fold(1, v1)
	i.out(ClassBcast, 2, v2, 0)
	if err := i.waitRound(ctx, 2); err != nil {
		return nil, err
	}
	return i.fold(2, v2), nil
}

func (i *Instance) fold(r uint8, own []byte) []byte {
	i.mu.Lock()
	defer i.mu.Unlock()
	ps := append([]uint16(nil), i.parties...)
	sort.Slice(ps, func(a, b int) bool { return ps[a] < ps[b] })
	var parts [][]byte
	for _, p := range ps {
		if p == i.self {
			parts = append(parts, own)
		} else {
			parts = append(parts, i.got[r][p])
		}
	}
	return h(parts...)[:8]
}

func (i *Instance) KeyGen(ctx context.Context) ([]byte, error) {
	i.L.add(Rec{Node: i.Node, Kind: "keygen", Session: i.sess})
	key, err := i.protocol(ctx, []byte("dkg"))
	if err != nil {
		i.L.add(Rec{Node: i.Node, Kind: "ret", Session: i.sess, Err: err.Error()})
		return nil, err
	}
	st := Stored{Parties: i.parties, Thr: i.thr, Key: key, Self: i.self}
	b, _ := json.Marshal(st)
	i.L.add(Rec{Node: i.Node, Kind: "ret", Session: i.sess, Payload: key})
	return b, nil
}

func (i *Instance) SetShareData(d []byte) error {
	var st Stored
	if err := json.Unmarshal(d, &st); err != nil {
		return fmt.Errorf("S: unusable share data: %w", err)
	}
	if len(st.Key) == 0 {
		return fmt.Errorf("S: unusable share data: no key")
	}
	i.mu.Lock()
	i.share = &st
	i.mu.Unlock()
	return nil
}

func (i *Instance) ThresholdPK() ([]byte, error) {
	i.mu.Lock()
	defer i.mu.Unlock()
	if i.share == nil {
		return nil, fmt.Errorf("S: no share data")
	}
	return i.share.Key, nil
}

// Sign returns H(key, digest, session value): identical on all participants of a session.
func (i *Instance) Sign(ctx context.Context, digest []byte) ([]byte, error) {
	i.L.add(Rec{Node: i.Node, Kind: "sign", Session: i.sess, Payload: append([]byte(nil), digest...)})
	i.mu.Lock()
	sh := i.share
	i.mu.Unlock()
	if sh == nil {
		err := fmt.Errorf("S: no share data")
		i.L.add(Rec{Node: i.Node, Kind: "ret", Session: i.sess, Err: err.Error()})
		return nil, err
	}
	v, err := i.protocol(ctx, append([]byte("sign"), digest...))
	if err != nil {
		i.L.add(Rec{Node: i.Node, Kind: "ret", Session: i.sess, Err: err.Error()})
		return nil, err
	}
	sig := h(sh.Key, digest, v)
	i.L.add(Rec{Node: i.Node, Kind: "ret", Session: i.sess, Payload: sig})
	return sig, nil
}

// VerifySig checks a signature of S given the key, digest and the signer party set.
func VerifySig(key, digest []byte, parties []uint16, sig []byte) bool {
	ps := append([]uint16(nil), parties...)
	sort.Slice(ps, func(a, b int) bool { return ps[a] < ps[b] })
	seed := append([]byte("sign"), digest...)
	var r1 [][]byte
	for _, p := range ps {
		r1 = append(r1, h([]byte("r1"), u16(p), seed)[:8])
	}
	v2 := h(r1...)[:8]
	var r2 [][]byte
	for range ps {
		r2 = append(r2, v2)
	}
	v := h(r2...)[:8]
	return string(h(key, digest, v)) == string(sig)
}

// DKGKey is the key every party must obtain from a DKG among the given parties.
func DKGKey(parties []uint16) []byte {
	ps := append([]uint16(nil), parties...)
	sort.Slice(ps, func(a, b int) bool { return ps[a] < ps[b] })
	seed := []byte("dkg")
	var r1 [][]byte
	for _, p := range ps {
		r1 = append(r1, h([]byte("r1"), u16(p), seed)[:8])
	}
	v2 := h(r1...)[:8]
	var r2 [][]byte
	for range ps {
		r2 = append(r2, v2)
	}
	return h(r2...)[:8]
}
