package net

// Demonstration for the finding "a pre-authentication handshake whose Domain is a T61String /
// GeneralString with bytes that are not valid UTF-8 takes the node down" (properties C10 / C16).
// Copy to net/ in the repository and run with the repository's own toolchain (go 1.23.x):
//
//	go test ./net/ -run TestHandshakeDomainT61StringDoesNotCrash -count=1
//
// Before the fix the process dies with "panic: asn1: string not valid UTF-8" in the connection's
// goroutine (Handshake.Bytes, called to verify the signature): encoding/asn1 of go <= 1.23 decodes a
// T61String into the Go string byte for byte and refuses to encode such a string again. (go >= 1.24
// decodes T61String as ISO 8859-1 into valid UTF-8, so the same input is merely rejected there.)

import (
	"bytes"
	"crypto/tls"
	"encoding/binary"
	"testing"
	"time"

	"github.com/IBM/TSS/testutil/tlsgen"
)

type t61NopLogger struct{}

func (t61NopLogger) Debugf(string, ...interface{}) {}
func (t61NopLogger) Infof(string, ...interface{})  {}
func (t61NopLogger) Warnf(string, ...interface{})  {}
func (t61NopLogger) Errorf(string, ...interface{}) {}
func (t61NopLogger) DebugEnabled() bool            { return false }

func TestHandshakeDomainT61StringDoesNotCrash(t *testing.T) {
	ca, err := tlsgen.NewCA()
	if err != nil {
		t.Fatal(err)
	}
	srv, err := ca.NewServerCertKeyPair("127.0.0.1")
	if err != nil {
		t.Fatal(err)
	}
	cert, err := tls.X509KeyPair(srv.Cert, srv.Key)
	if err != nil {
		t.Fatal(err)
	}
	lis, err := tls.Listen("tcp", "127.0.0.1:0", &tls.Config{Certificates: []tls.Certificate{cert}})
	if err != nil {
		t.Fatal(err)
	}
	in, stop := ServiceConnections(lis, participant2ID{}, t61NopLogger{})
	defer stop()
	go func() {
		for range in {
		}
	}()

	// anybody who can open a TLS connection: no client certificate, identity not registered
	stranger, err := ca.NewClientCertKeyPair()
	if err != nil {
		t.Fatal(err)
	}
	for _, tag := range []byte{0x14, 0x1b} {
		conn, err := tls.Dial("tcp", lis.Addr().String(), &tls.Config{InsecureSkipVerify: true})
		if err != nil {
			t.Fatal(err)
		}
		h := Handshake{Domain: "dom1", TLSBinding: extractTLSBinding(conn), Identity: stranger.Cert, Timestamp: time.Now().Unix()}
		raw := h.Bytes()
		i := bytes.Index(raw, append([]byte{0x13, 4}, "dom1"...))
		if i < 0 {
			t.Fatal("domain element not found")
		}
		raw[i] = tag // T61String / GeneralString instead of PrintableString
		copy(raw[i+2:], []byte{0xff, 0xfe, 0xfd, 0xfc})
		l := make([]byte, 2)
		binary.LittleEndian.PutUint16(l, uint16(len(raw)))
		conn.Write(l)
		conn.Write(raw)
		time.Sleep(300 * time.Millisecond) // the receiver's goroutine has processed the handshake by now
		conn.Close()
	}
}
