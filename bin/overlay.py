"""Overlay generation from /repo's current files (import rewrite for the sync shim, seam redirections)."""
import os, json, re

REPO = "/repo"


def generate(kind, outdir):
    os.makedirs(outdir, exist_ok=True)
    raise RuntimeError("no overlay kinds defined yet")
