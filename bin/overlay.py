"""Overlay generation from /repo's current files.

kinds:
  shim:<file>,<file>,...   rewrite the imports "sync" / "sync/atomic" of the listed repository files
                           to the shim packages verif/shim/vsync and verif/shim/vatomic
"""
import os, json, re

REPO = "/repo"


def rewrite_sync_imports(src):
    n = 0
    def sub_sync(m):
        nonlocal n
        n += 1
        return m.group(1) + 'sync "verif/shim/vsync"'
    def sub_atomic(m):
        nonlocal n
        n += 1
        return m.group(1) + 'atomic "verif/shim/vatomic"'
    out = re.sub(r'(^\s*)"sync"', sub_sync, src, flags=re.M)
    out = re.sub(r'(^\s*)"sync/atomic"', sub_atomic, out, flags=re.M)
    return out, n


def generate(kind, outdir):
    os.makedirs(outdir, exist_ok=True)
    notes = {}
    replace = {}
    if kind.startswith("shim:"):
        files = kind[5:].split(",")
        done = []
        for rel in files:
            path = os.path.join(REPO, rel)
            if not os.path.exists(path):
                notes["overlay_missing:" + rel] = "file gone"
                continue
            src = open(path).read()
            out, n = rewrite_sync_imports(src)
            if n == 0:
                notes["overlay_nosync:" + rel] = "no sync import"
                continue
            dst = os.path.join(outdir, rel.replace("/", "__"))
            with open(dst, "w") as f:
                f.write(out)
            replace[path] = dst
            done.append(rel)
        if not done:
            raise RuntimeError("no file could be instrumented")
        notes["overlay_instrumented"] = ",".join(done)
    else:
        raise RuntimeError("unknown overlay kind %r" % kind)
    oj = os.path.join(outdir, "overlay.json")
    with open(oj, "w") as f:
        json.dump({"Replace": replace}, f)
    return oj, notes
