"""Overlay generation from /repo's current files.

kinds:
  shim:<file>,<file>,...   rewrite the imports "sync" / "sync/atomic" of the listed repository files
                           to the shim packages verif/shim/vsync and verif/shim/vatomic
"""
import os, json, re

REPO = "/repo"


def rewrite_sync_imports(src):
    n = 0
    def sub_sync(m):
        nonlocal n
        n += 1
        return m.group(1) + 'sync "verif/shim/vsync"'
    def sub_atomic(m):
        nonlocal n
        n += 1
        return m.group(1) + 'atomic "verif/shim/vatomic"'
    out = re.sub(r'(^\s*)"sync"', sub_sync, src, flags=re.M)
    out = re.sub(r'(^\s*)"sync/atomic"', sub_atomic, out, flags=re.M)
    return out, n


def generate(kind, outdir):
    os.makedirs(outdir, exist_ok=True)
    notes = {}
    replace = {}
    if kind.startswith("shim:"):
        files = kind[5:].split(",")
        done = []
        for rel in files:
            path = os.path.join(REPO, rel)
            if not os.path.exists(path):
                notes["overlay_missing:" + rel] = "file gone"
                continue
            src = open(path).read()
            out, n = rewrite_sync_imports(src)
            if n == 0:
                notes["overlay_nosync:" + rel] = "no sync import"
                continue
            dst = os.path.join(outdir, rel.replace("/", "__"))
            with open(dst, "w") as f:
                f.write(out)
            replace[path] = dst
            done.append(rel)
        if not done:
            raise RuntimeError("no file could be instrumented")
        notes["overlay_instrumented"] = ",".join(done)
    elif kind == "netshim":
        # both: the dial seam and the sync shims in net/net.go
        oj, n1 = generate("net", outdir)
        data = json.load(open(oj))
        path = os.path.join(REPO, "net/net.go")
        dst = data["Replace"][path]
        out, n = rewrite_sync_imports(open(dst).read())
        if n == 0:
            raise RuntimeError("net/net.go has no sync import to instrument")
        open(dst, "w").write(out)
        notes.update(n1)
        notes["overlay_instrumented"] = "net/net.go"
        replace.update(data["Replace"])
    elif kind == "net":
        # one-token redirection of the dial seam: tls.Dial( -> verifDial(, plus an added file that
        # defines verifDial (falls back to tls.Dial unless the harness installs VerifDial)
        path = os.path.join(REPO, "net/net.go")
        src = open(path).read()
        if src.count("tls.Dial(") != 1:
            raise RuntimeError("expected exactly one tls.Dial( in net/net.go, found %d" % src.count("tls.Dial("))
        dst = os.path.join(outdir, "net__net.go")
        open(dst, "w").write(src.replace("tls.Dial(", "verifDial("))
        replace[path] = dst
        add = os.path.join(outdir, "net__verif_dial.go")
        open(add, "w").write("""package net

import "crypto/tls"

// VerifDial, when set by the verification harness, replaces tls.Dial (in-memory transport).
var VerifDial func(network, addr string, cfg *tls.Config) (*tls.Conn, error)

func verifDial(network, addr string, cfg *tls.Config) (*tls.Conn, error) {
	if VerifDial != nil {
		return VerifDial(network, addr, cfg)
	}
	return tls.Dial(network, addr, cfg)
}
""")
        replace[os.path.join(REPO, "net/verif_dial.go")] = add
        notes["overlay_net"] = "tls.Dial redirected"
    elif kind == "psforge":
        # a copy of mpc/ps Blind (generated from the current source) in which the last message
        # component m' is chosen by the caller instead of being derived from the commitment: the
        # request is internally consistent for that m' (commitment, h, ciphertexts, proof)
        path = os.path.join(REPO, "mpc/ps/ps.go")
        src = open(path).read()
        m = re.search(r"^func Blind\((.*?)\) \((.*?)\) \{\n(.*?)^\}\n", src, flags=re.M | re.S)
        if not m:
            raise RuntimeError("func Blind not found in mpc/ps/ps.go")
        body = m.group(3)
        body2, n = re.subn(r"^(\s*)(mPrime := .*)$", r"\1\2\n\1if VerifChosenMPrime != nil {\n\1\tmPrime = VerifChosenMPrime\n\1}", body, count=1, flags=re.M)
        if n != 1:
            raise RuntimeError("the derivation of mPrime was not found in Blind")
        # the ciphertexts may be altered before the proof is computed over them
        body2, n = re.subn(r"^(\s*)(a, b, (\w+) := encrypt\(.*)$", r"\1\2\n\1if VerifTamper != nil {\n\1\tVerifTamper(a, b)\n\1}", body2, count=1, flags=re.M)
        notes["overlay_psforge_tamper"] = "hook inserted" if n == 1 else "encrypt call not found: ciphertext-tamper requests not buildable"
        imports = re.search(r"^import \((.*?)^\)", src, flags=re.M | re.S)
        imp = imports.group(1) if imports else ""
        keep = []
        for line in imp.splitlines():
            l = line.strip()
            if not l:
                continue
            name = l.split()[0].strip('"') if l.startswith('"') else l.split()[0]
            pkg = l.split('"')[1]
            ident = name if not l.startswith('"') else pkg.split("/")[-1]
            if re.search(r"\b" + re.escape(ident) + r"\.", body2):
                keep.append("\t" + l)
        add = os.path.join(outdir, "mpc__ps__verif_forge.go")
        open(add, "w").write("package ps\n\nimport (\n" + "\n".join(keep) + "\n)\n\n"
                              "// VerifChosenMPrime is the last message component used by VerifBlindChosen.\n"
                              "var VerifChosenMPrime *math.Zr\n\n"
                              "// VerifTamper, when set, may alter the ciphertexts before the proof is computed over them.\n"
                              "var VerifTamper func(a, b []*math.G1)\n\n"
                              "// VerifBlindChosen is Blind with a caller-chosen m' (generated by the verification overlay).\n"
                              "func VerifBlindChosen(" + m.group(1) + ") (" + m.group(2) + ") {\n" + body2 + "}\n")
        replace[os.path.join(REPO, "mpc/ps/verif_forge.go")] = add
        notes["overlay_psforge"] = "VerifBlindChosen generated from Blind"
        # exported pass-through wrappers of the two Fiat-Shamir random oracles (same parameter lists)
        wrappers = []
        for fn, exported in (("randomOracleForPoKofSignature", "VerifOraclePoK"), ("randomOracleForBlindingProof", "VerifOracleBlinding")):
            mm = re.search(r"^func " + fn + r"\((.*?)\) \[\]byte \{", src, flags=re.M)
            if not mm:
                raise RuntimeError(fn + " not found in mpc/ps/ps.go")
            params = mm.group(1)
            names = []
            for piece in params.split(","):
                piece = piece.strip()
                if piece:
                    names.append(piece.split()[0])
            wrappers.append("// %s passes its arguments to %s (generated by the verification overlay).\nfunc %s(%s) []byte {\n\treturn %s(%s)\n}\n" % (exported, fn, exported, params, fn, ", ".join(names)))
        add2 = os.path.join(outdir, "mpc__ps__verif_oracle.go")
        open(add2, "w").write("package ps\n\nimport math \"github.com/IBM/mathlib\"\n\n" + "\n".join(wrappers))
        replace[os.path.join(REPO, "mpc/ps/verif_oracle.go")] = add2
    else:
        raise RuntimeError("unknown overlay kind %r" % kind)
    oj = os.path.join(outdir, "overlay.json")
    with open(oj, "w") as f:
        json.dump({"Replace": replace}, f)
    return oj, notes
