"""Per-property configuration of the driver (bin/check)."""

ASSUMPTIONS_COMMON = [
    "the code under check is /repo's working tree, rebuilt at the start of the command with go1.26.8 (testing/synctest); "
    "language semantics follow each module's own go directive; timer channels are synchronous (harness module go 1.26.8)",
    "executions run inside a synctest bubble: virtual clock, quiescence detection by the Go runtime",
    "values outside the stated alphabets (digests, polynomials, curve points) are drawn by crypto/rand inside the library or seeded by VERIF_SEED",
]

NOT_APPLICABLE = {}

MANIFEST_NOTES = ("All checks are exhaustive bounded explorations of the real Go code (no separate model); "
                  "bounds, caps and what was covered are in each evidence file. Genuine defects found are in known_findings.json.")

CHECKS = {
    "C01": {
        "pkg": "checks/c01", "level": "model_checking", "engine": "E1 bubble-net",
        "technique": "stateless model checking: deviation-bounded DFS over delivery schedules of real parties in a synctest bubble + exhaustive subset/digest enumeration",
        "level_text": "every delivery schedule (FIFO links) of the full real stack within the stated deviation bound, for every listed (n,t) and mode; all signer subsets x digest alphabet on the resulting shares",
        "level_note": "bounded: deviations <= bound per configuration, n <= 5(6); digests from a fixed alphabet; go1.26.8 runtime and synctest trusted",
        "budget_s": {"quick": 150, "thorough": 900},
        "assumptions": ["links are FIFO per sender->receiver pair (what the bundled TLS transport provides)"],
    },
    "C02": {
        "pkg": "checks/rbc", "env": {"VERIF_PROP": "C02"}, "level": "model_checking", "engine": "E2 explicit-state",
        "technique": "explicit-state model checking: DFS with canonical-state deduplication over the real Scheme.HandleMessage/rbc.Receiver handlers, Byzantine actions bounded per history",
        "level_text": "every reachable state of real receivers under any-order delivery and every sequence of at most k Byzantine actions from the stated alphabet satisfies agreement",
        "level_note": "bounded: N in {3,4,5}, k Byzantine actions per history, payload alphabet {x,y}, rounds {1(,2)}; state identity = reflection dump of rbc.Receiver private state + in-flight multiset + hand-overs",
        "budget_s": {"quick": 150, "thorough": 900},
    },
    "C03": {
        "pkg": "checks/rbc", "env": {"VERIF_PROP": "C03"}, "level": "model_checking", "engine": "E2 explicit-state",
        "technique": "explicit-state model checking: DFS with canonical-state deduplication over the real Scheme.HandleMessage/rbc.Receiver handlers, Byzantine actions bounded per history",
        "level_text": "every transition of the same search satisfies integrity: authentic, participants only, at most once per (sender, round), never an empty placeholder, point-to-point as received",
        "level_note": "same bounds as C02",
        "budget_s": {"quick": 150, "thorough": 900},
    },
    "C04": {
        "pkg": "checks/rbc", "env": {"VERIF_PROP": "C04"}, "level": "model_checking", "engine": "E2 explicit-state",
        "technique": "explicit-state model checking: exhaustive search over all delivery interleavings of all-honest sessions on the real handlers with canonical-state deduplication",
        "level_text": "all interleavings (any-order network, acknowledgements overtaking payloads, several senders and rounds in flight) for the stated session sizes; global exact search for small sizes, per-receiver exhaustive search (other parties eager) for larger ones",
        "level_note": "per-receiver searches assume that what other honest parties emit does not depend on their own delivery order (validated by the global searches on the smaller sizes); N <= 5",
        "budget_s": {"quick": 150, "thorough": 900},
    },
    "C13": {
        "pkg": "checks/c13", "level": "exploration", "engine": "E4 bounded-exhaustive + E1",
        "technique": "exhaustive enumeration: all 65536 identifiers through the real acknowledgement and synchroniser codecs (via public seams of real Schemes/Members), all pairs/triples over the byte-boundary set in full-stack sessions with a differential oracle",
        "level_text": "codec level is truly exhaustive over the 16-bit identifier range (x rounds x two digests); session level enumerates every pair and a triple cover (thorough: all 364 triples) of boundary identifiers, loud and silent, and compares class traces with the 1..n session",
        "level_note": "default delivery schedule per session; digests are 32 bytes (what the library produces)",
        "budget_s": {"quick": 170, "thorough": 900},
    },
    "C06": {
        "pkg": "checks/c06", "level": "model_checking", "engine": "E1 bubble-net",
        "technique": "stateless model checking: enumeration of membership maps x participant sets x modes, each explored under the default and all <=1-deviation delivery schedules of the real stack with a logging backend",
        "level_text": "for every listed map (identity, injective incl. order-reversing and 16-bit boundary values, replicas) and participant choice: Init arguments, OnMsg attribution, point-to-point destinations and duplicate-party refusal are checked on every explored schedule of KeyGen and Sign",
        "level_note": "maps and participant sets from a fixed catalogue; Go map iteration order inside computeMembership is not owned: replica cells are repeated 16 times",
        "budget_s": {"quick": 150, "thorough": 900},
    },
    "C07": {
        "pkg": "checks/c07", "level": "model_checking", "engine": "E1 bubble-net",
        "technique": "stateless model checking: deviation-bounded DFS over delivery orders, timer advances, start orders and Byzantine injections on real disc.Member objects in a synctest bubble",
        "level_text": "every schedule within the deviation bound for every universe (2..4, thorough 5), expected count, invoking subset and Byzantine member set; safety oracles on every completer, liveness oracle on honest complete runs",
        "level_note": "FIFO links; Byzantine alphabet: membership/query/response with own, replayed and random tags and a catalogue of views; bounds per configuration in the case ids (dN)",
        "budget_s": {"quick": 170, "thorough": 900},
    },
    "C11": {
        "pkg": "checks/c11", "level": "fault_enumeration", "engine": "E1 bubble-net + E3 thread-level",
        "overlay": "shim:mpc/bls/mpc.go,mpc/ps/tps.go", "overlay_fallback": True,
        "technique": "exhaustive fault enumeration on the real stack in a synctest bubble: every peer x every cut-off point of its transmissions, every single withheld message, cancellation at every big step, unusable stored data",
        "level_text": "for every listed stack/mode/operation every fault cell derived from the default schedule's send log is executed to the virtual deadline plus one further virtual minute; a panic in any goroutine kills the worker and is attributed to the cell",
        "level_note": "default delivery schedule under each fault; n=3 (thorough: 4); deadlines are virtual",
        "budget_s": {"quick": 170, "thorough": 900},
    },
    "C12": {
        "pkg": "checks/c12", "level": "model_checking", "engine": "E1 bubble-net",
        "technique": "bounded-exhaustive exploration of operation histories (all sequences up to depth d over a 14-operation alphabet) on persistent real Schemes in a synctest bubble, with reflection-based residue oracle after every operation",
        "level_text": "every history of successful / failed / timed-out / concurrent KeyGen and Sign operations with late, duplicated and foreign traffic up to depth 3 (thorough 4), loud and silent; residue, admission, non-interference and filtering oracles after every operation",
        "level_note": "default delivery schedule inside each operation; the lock-level window between a result being sent and the tables being cleaned is not explored here (event level waits for quiescence)",
        "budget_s": {"quick": 170, "thorough": 900},
    },
    "C05": {
        "pkg": "checks/c05", "level": "model_checking", "engine": "E1 bubble-net",
        "extra_builds": [{"name": "psown", "modfile": "go.ps.mod", "tags": ["psonly"]}],
        "technique": "exhaustive enumeration of a deviation-strategy catalogue x victim sets x (n,t) x deviator position on the full real stack in a synctest bubble (deviator = real instance behind an output filter), default and <=1-deviation schedules",
        "level_text": "every cell of the catalogue is executed to the virtual deadline; oracles: no panic, return by deadline, identical public material among completers, every honest t-subset signs under the reported key, reveal only after all commitments",
        "level_note": "strategy catalogue is finite (26 strategies); BLS and PS (message length 1); n <= 4; loud mode",
        "budget_s": {"quick": 170, "thorough": 900},
    },
    "C14": {
        "pkg": "checks/c14", "level": "model_checking", "engine": "E3 thread-level",
        "overlay": "shim:msg/msgbox.go", "overlay_fallback": False,
        "technique": "stateless model checking of thread interleavings: cooperative scheduler at lock/atomic granularity (sync shim injected by overlay), preemption-bounded DFS, oracle at the end of every interleaving",
        "level_text": "every interleaving of concurrent Box.HandleMessage / Box.Send calls on the real msg.Box within the preemption bound (2-thread scenarios: all interleavings); exactly-once and per-sender order are checked after each",
        "level_note": "scheduling points: every Lock/RLock/Once.Do/atomic operation of msg/msgbox.go; code between points is assumed thread-local or protected (data races are C20's business); 9 scenarios of 2-3 threads",
        "budget_s": {"quick": 170, "thorough": 900},
    },
    "C20": {
        "pkg": "checks/c20", "level": "model_checking", "engine": "E3 thread-level", "race": True,
        "overlay": "shim:msg/msgbox.go,mpc/bls/mpc.go,mpc/ps/tps.go,threshold/threshold.go", "overlay_fallback": False,
        "technique": "stateless model checking of thread interleavings with per-schedule race detection: cooperative scheduler at lock/atomic granularity (sync shim by overlay) in a -race build whose detector sees only the program's own synchronisation",
        "level_text": "every interleaving within the preemption bound of (a) BLS/PS Init+KeyGen against dispatcher threads delivering real peer messages (in phase, early, duplicated), (b) concurrent receive/send/tick calls on msg.Box, (c) Scheme.HandleMessage on two dispatcher threads against KeyGen/Sign entering and leaving; zero data-race reports with both stacks in repository code",
        "level_note": "exhaustive at lock/atomic granularity for the instrumented files only (msgbox.go, bls/mpc.go, ps/tps.go, threshold.go); channel operations are real and not scheduling points; discovery.go and the adapters are not instrumented; Go memory model (no hardware reorderings of racy code)",
        "budget_s": {"quick": 170, "thorough": 900},
        "confirm": 2,
    },
    "C15": {
        "pkg": "checks/c15", "level": "model_checking", "engine": "E2 explicit-state",
        "technique": "explicit-state BFS over operation histories of the real msg.Box (receive, burst, send, tick, idle) with deduplication on a reflection dump, checked against a map-based reference model, plus a release horizon from every shallow state and long generated cycles",
        "level_text": "every history up to the depth bound over the alphabet, two expiry settings; no call fails, bounds hold in every state, messages within the limits are handed over by the next send, and after the release horizon nothing is retained for started or expired topics",
        "level_note": "sequential histories (thread interleavings are C14/C20); small limits (2 topics per sender, GCSweep 1s, GCExpire 2s/4s); the per-sender message limit is the constant 100; lazy expiry is tolerated inside a history and demanded only after the release horizon",
        "budget_s": {"quick": 170, "thorough": 900},
    },
    "C18": {
        "pkg": "checks/c18", "level": "exploration", "engine": "E4 bounded-exhaustive",
        "extra_builds": [{"name": "psown", "modfile": "go.ps.mod", "tags": ["psonly"]}],
        "technique": "exhaustive enumeration of (n,t) and of all subsets through the public API on real DKG outputs; per-position off-polynomial fault",
        "level_text": "all 2 <= t <= n <= 7 (thorough 9) for BLS and n <= 4 (5) for PS; every subset of size >= t reconstructs in the exponent, every subset of size t-1 does not; a key off the polynomial is detected at every position",
        "level_note": "polynomials are random (3 per cell): a random evaluation decides each identity up to 2^-240 (as the property states); internal helpers (chooseKoutOfN, reconstruct) are exercised only through KeyGen/Verifier",
        "budget_s": {"quick": 170, "thorough": 900},
    },
    "C08": {
        "pkg": "checks/c08", "level": "exploration", "engine": "E4 bounded-exhaustive + E1",
        "modfile": "go.ps.mod", "tags": ["psonly"],
        "technique": "exhaustive enumeration of (n,t) x message length x message-vector alphabet x all signer subsets through the public PS API on real DKG outputs; DKG also through the full stack under all <=1-deviation schedules",
        "level_text": "blind / sign / unblind / prove / verify completes for every enumerated case; public material identical on all parties",
        "level_note": "message entries from a fixed alphabet (empty, 1 byte, 0x00, 32 bytes, 1 kB); party ids 1..n (the PS prover uses the party id as evaluation point); built with engine/go.ps.mod so that mpc/ps is compiled against the mathlib version of its own go.mod (v0.0.2)",
        "budget_s": {"quick": 170, "thorough": 900},
    },
    "C09": {
        "pkg": "checks/c09", "level": "exploration", "engine": "E4 bounded-exhaustive",
        "extra_builds": [{"name": "psown", "modfile": "go.ps.mod", "tags": ["psonly"]}],
        "technique": "exhaustive enumeration of a perturbation catalogue (every field x perturbation kind, every transposition/shift, every subset below t) over real signatures, requests and proofs; every verdict taken twice",
        "level_text": "every perturbed object of the catalogue is rejected, every genuine one accepted, and repeating a verification or a signing of the same bytes / the same parsed object gives the same verdict",
        "level_note": "algebraic perturbations are +generator / +1 / substitution (not arbitrary values); MPrime of the request is deliberately not in the catalogue (the signer recomputes it from cm, it is not bound by the proof)",
        "budget_s": {"quick": 170, "thorough": 900},
    },
    "C10": {
        "pkg": "checks/c10", "level": "exploration", "engine": "E4 bounded-exhaustive over E1 states",
        "extra_builds": [{"name": "psown", "modfile": "go.ps.mod", "tags": ["psonly"]}],
        "technique": "exhaustive enumeration of a structure-aware input catalogue (truncations, extensions, substitutions, ASN.1 element removal/duplication, topic and message-type variants) x sources x session states, fired at the real dispatcher of live sessions in a synctest bubble and at the direct backend / verification entry points; process crashes attributed by the worker protocol",
        "level_text": "no input of the catalogue, in any of the listed session states and from any source, makes the process panic or a call hang; input from non-participants never disturbs the honest session; the session is driven to its end after every batch",
        "level_note": "byte values outside the catalogue are not covered; ECDSA/EdDSA adapters and the connection handshake are covered by C19/C16's catalogues",
        "budget_s": {"quick": 170, "thorough": 900},
    },
    "C16": {
        "pkg": "checks/c16", "level": "exploration", "engine": "E4 bounded-exhaustive",
        "overlay": "net", "overlay_fallback": True,
        "technique": "exhaustive enumeration of handshake alterations / substitutions / replays / truncations against the real net.ServiceConnections over in-memory TLS 1.3 in a synctest bubble, each interleaved with an honest connection",
        "level_text": "a message is attributed only to the identity whose key signed this connection's binding, under the domain it is registered for; every other handshake of the catalogue yields no attributed message and no panic; the concurrent honest connection is unaffected",
        "level_note": "crypto/tls and crypto/x509 are trusted; byte flips cover every position of binding and signature and 16 positions of the identity; kernel TCP is replaced by an in-memory stream",
        "budget_s": {"quick": 170, "thorough": 900},
    },
    "C17": {
        "pkg": "checks/c17", "level": "fault_enumeration", "engine": "E4 bounded-exhaustive",
        "overlay": "net", "overlay_fallback": True,
        "technique": "exhaustive enumeration of payload lengths x type/topic combinations, of all interleavings of concurrent Send calls, and of peer faults (refuse, stall with back-pressure, break after every byte count over the first frames, garble, full queue) on the real net package over in-memory TLS in a synctest bubble (dial seam redirected by overlay)",
        "level_text": "every enumerated message arrives exactly once, unmodified, in enqueue order per sender goroutine; oversized frames deliver nothing; with each fault of one peer the process survives a virtual minute of continued sending and the traffic to the healthy peer all arrives",
        "level_note": "crypto/tls trusted; in-memory stream instead of kernel TCP (short reads happen at TLS-record granularity only); if tls.Dial cannot be redirected on the tree under check only the receiver-side cases run",
        "budget_s": {"quick": 170, "thorough": 900},
    },
    "C19": {
        "pkg": "checks/c19", "level": "exploration", "engine": "E4 bounded-exhaustive",
        "technique": "exhaustive enumeration over every message type emitted by complete tss-lib key-generation and signing runs for several (n,t), every (claimed sender, actual sender) pair and a digest alphabet, against the real ECDSA/EdDSA adapters",
        "level_text": "receiver-side classification agrees with the library's routing for every captured message, broadcast rounds are distinct per phase, re-fed messages are attributed to the transport sender or dropped, Sign returns a signature verifying for exactly the requested digest (incl. leading zero bytes) and never for a digest the party was not asked to sign",
        "level_note": "real time (the tss-lib runs are not executed in a bubble); ECDSA key generation runs the library directly on fixture pre-parameters (the adapter's own KeyGen generates safe primes and is not run); digests from a fixed alphabet",
        "budget_s": {"quick": 200, "thorough": 900}, "workers": 6, "exec_timeout_s": 400,
    },
}
