"""Per-property configuration of the driver (bin/check)."""

ASSUMPTIONS_COMMON = [
    "the code under check is /repo's working tree, rebuilt at the start of the command with go1.26.8 (testing/synctest); "
    "language semantics follow each module's own go directive; timer channels are synchronous (harness module go 1.26.8)",
    "executions run inside a synctest bubble: virtual clock, quiescence detection by the Go runtime",
    "values outside the stated alphabets (digests, polynomials, curve points) are drawn by crypto/rand inside the library or seeded by VERIF_SEED",
]

NOT_APPLICABLE = {}

MANIFEST_NOTES = ("All checks are exhaustive bounded explorations of the real Go code (no separate model); "
                  "bounds, caps and what was covered are in each evidence file. Genuine defects found are in known_findings.json.")

CHECKS = {
    "C01": {
        "pkg": "checks/c01", "level": "model_checking", "engine": "E1 bubble-net",
        "technique": "stateless model checking: deviation-bounded DFS over delivery schedules of real parties in a synctest bubble + exhaustive subset/digest enumeration",
        "level_text": "every delivery schedule (FIFO links) of the full real stack within the stated deviation bound, for every listed (n,t) and mode; all signer subsets x digest alphabet on the resulting shares",
        "level_note": "bounded: deviations <= bound per configuration, n <= 5(6); digests from a fixed alphabet; go1.26.8 runtime and synctest trusted",
        "budget_s": {"quick": 150, "thorough": 900},
        "assumptions": ["links are FIFO per sender->receiver pair (what the bundled TLS transport provides)"],
    },
}
