"""Per-property configuration of the driver (bin/check)."""

ASSUMPTIONS_COMMON = [
    "the code under check is /repo's working tree, rebuilt at the start of the command with go1.26.8 (testing/synctest); "
    "language semantics follow each module's own go directive; timer channels are synchronous (harness module go 1.26.8)",
    "executions run inside a synctest bubble: virtual clock, quiescence detection by the Go runtime",
    "values outside the stated alphabets (digests, polynomials, curve points) are drawn by crypto/rand inside the library or seeded by VERIF_SEED",
]

CHECKS = {
    "C01": {
        "pkg": "checks/c01", "level": "model_checking",
        "budget_s": {"quick": 150, "thorough": 900},
        "assumptions": ["links are FIFO per sender->receiver pair (what the bundled TLS transport provides)"],
    },
}
