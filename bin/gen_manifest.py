#!/usr/bin/env python3
"""Regenerates MANIFEST.json from bin/checks_config.py (single source of truth)."""
import json, os, sys
VERIF = os.path.dirname(os.path.dirname(os.path.abspath(__file__)))
sys.path.insert(0, os.path.join(VERIF, "bin"))
from checks_config import CHECKS, NOT_APPLICABLE, MANIFEST_NOTES  # noqa

props = [json.loads(l)["id"] for l in open(os.path.join(VERIF, "properties.jsonl"))]
checks = []
for pid in props:
    if pid not in CHECKS:
        continue
    c = CHECKS[pid]
    checks.append({
        "property_id": pid,
        "quick_cmd": "bin/check %s --tier quick" % pid,
        "thorough_cmd": "bin/check %s --tier thorough" % pid,
        "evidence_file": "/verif/evidence/%s.json" % pid,
        "replay_cmd_template": "bin/check --replay {path}",
        "engine": c.get("engine", ""),
        "level_claimed": {"category": c["level"], "text": c["level_text"], "design_ref": c.get("design_ref", "DESIGN.md §4 " + pid)},
        "level_note": c["level_note"],
        "technique": c["technique"],
    })
na = [{"property_id": p, "reason": NOT_APPLICABLE.get(p, "check not built yet in this round; see DESIGN.md")} for p in props if p not in CHECKS]
m = {
    "version": 1,
    "setup_cmd": "bin/setup",
    "hooks": {
        "guard": "verif",
        "enable": "no hooks are compiled into /repo: instrumentation is injected at build time with `go test -overlay` generated from the current files (bin/overlay.py); the reserved build tag `verif` is unused",
        "baseline_off_cmd": "for m in . mpc/binance/ecdsa mpc/binance/eddsa mpc/bls mpc/ps test; do (cd /repo/$m && GOFLAGS=-mod=mod go test -vet=off -count=1 -timeout 25m ./...) || exit 1; done",
        "source_commits": [],
        "add_only": True,
    },
    "engines": [
        {"name": "E1 bubble-net", "path": "engine/world engine/explore", "serves_properties": ["C01", "C05", "C06", "C07", "C11", "C12", "C13"], "kind_free_text": "stateless deviation-bounded DFS over delivery/time/API events of real parties in a synctest bubble"},
        {"name": "E2 explicit-state", "path": "engine/checks/c02", "serves_properties": ["C02", "C03", "C04", "C15"], "kind_free_text": "BFS over real handlers with canonical state hashing (replay on fresh objects)"},
        {"name": "E3 thread-level", "path": "engine/shim", "serves_properties": ["C14", "C20"], "kind_free_text": "cooperative scheduler at lock/atomic granularity via sync-shim overlay, preemption-bounded DFS, per-schedule race detection"},
        {"name": "E4 bounded-exhaustive", "path": "engine/checks", "serves_properties": ["C08", "C09", "C10", "C13", "C16", "C17", "C18", "C19"], "kind_free_text": "complete enumeration of finite input spaces against reference oracles"},
    ],
    "checks": checks,
    "not_applicable": na,
    "notes": MANIFEST_NOTES,
}
json.dump(m, open(os.path.join(VERIF, "MANIFEST.json"), "w"), indent=1)
print("MANIFEST.json: %d checks, %d not_applicable" % (len(checks), len(na)))
